// Differential exploration: serialized shard vs. the in-memory shard it was built from.
use std::io::Cursor;

use mdb_shard::cas_structs::*;
use mdb_shard::file_structs::*;
use mdb_shard::interpolation_search::search_on_sorted_u64s;
use mdb_shard::shard_in_memory::MDBInMemoryShard;
use mdb_shard::streaming_shard::{process_shard_stream, MDBMinimalShard};
use mdb_shard::MDBShardInfo;
use merklehash::MerkleHash;
use rand::prelude::*;
use utils::serialization_utils::*;

fn gen_key(rng: &mut StdRng, dist: usize) -> u64 {
    match dist {
        0 => rng.gen(),
        1 => rng.gen_range(0..2000),                     // clustered low
        2 => u64::MAX - rng.gen_range(0..2000u64),       // clustered high
        3 => (1u64 << 63) + rng.gen_range(0..5000u64),   // clustered mid
        4 => {
            // exponential / heavily skewed
            let s = rng.gen_range(0..64);
            rng.gen::<u64>() >> s
        },
        5 => {
            // skewed towards the top
            let s = rng.gen_range(0..64);
            !(rng.gen::<u64>() >> s)
        },
        6 => {
            // two clusters at the extremes
            if rng.gen_bool(0.5) {
                rng.gen_range(0..50)
            } else {
                u64::MAX - rng.gen_range(0..50u64)
            }
        },
        _ => {
            // few values, big plateau + outliers
            if rng.gen_bool(0.98) {
                12345678 + rng.gen_range(0..300u64)
            } else {
                rng.gen()
            }
        },
    }
}

fn build_shard(rng: &mut StdRng, n_files: usize, n_cas: usize, dist: usize, max_dup: usize) -> MDBInMemoryShard {
    let mut shard = MDBInMemoryShard::default();
    let mut attempts = 0;
    let mut ccnt = std::collections::HashMap::<u64, usize>::new();
    let mut cnt = std::collections::HashMap::<u64, usize>::new();
    let mut i = 0;
    while i < n_cas {
        let k = gen_key(rng, dist);
        attempts += 1;
        if attempts > 20 * (n_cas + n_files) + 100 {
            break;
        }
        let c = cnt.entry(k).or_default();
        if *c >= 7 {
            continue;
        }
        let dups = rng.gen_range(1..=max_dup.min(7 - *c));
        *c += dups;
        for _ in 0..dups {
            let h = MerkleHash::from([k, rng.gen(), rng.gen(), rng.gen()]);
            let nchunks = if rng.gen_bool(0.1) { 0 } else { rng.gen_range(1..6) };
            let mut chunks = vec![];
            let mut pos = 0u32;
            for _ in 0..nchunks {
                let mut ck = gen_key(rng, dist);
                while *ccnt.get(&ck).unwrap_or(&0) >= 7 {
                    ck = rng.gen();
                }
                *ccnt.entry(ck).or_default() += 1;
                let len = rng.gen_range(1..1000u32);
                chunks.push(CASChunkSequenceEntry::new(MerkleHash::from([ck, rng.gen(), rng.gen(), rng.gen()]), len, pos));
                pos += len;
            }
            let mut hd = CASChunkSequenceHeader::new(h, nchunks, pos);
            hd.num_bytes_on_disk = rng.gen_range(0..1000);
            shard.add_cas_block(MDBCASInfo { metadata: hd, chunks }).unwrap();
            i += 1;
        }
    }
    let mut cnt = std::collections::HashMap::<u64, usize>::new();
    let mut i = 0;
    attempts = 0;
    while i < n_files {
        let k = gen_key(rng, dist);
        attempts += 1;
        if attempts > 20 * (n_cas + n_files) + 100 {
            break;
        }
        let c = cnt.entry(k).or_default();
        if *c >= 7 {
            continue;
        }
        let dups = rng.gen_range(1..=max_dup.min(7 - *c));
        *c += dups;
        for _ in 0..dups {
            let h = MerkleHash::from([k, rng.gen(), rng.gen(), rng.gen()]);
            let nseg = if rng.gen_bool(0.1) { 0 } else { rng.gen_range(1..5) };
            let ver = rng.gen_bool(0.5);
            let ext = rng.gen_bool(0.5);
            let segments: Vec<_> = (0..nseg)
                .map(|_| {
                    FileDataSequenceEntry::new(
                        MerkleHash::from([gen_key(rng, dist), rng.gen(), rng.gen(), rng.gen()]),
                        rng.gen_range(0..100000u32),
                        0,
                        rng.gen_range(1..10),
                    )
                })
                .collect();
            let verification = if ver {
                (0..nseg)
                    .map(|_| FileVerificationEntry::new(MerkleHash::from([rng.gen(), rng.gen(), rng.gen(), rng.gen()])))
                    .collect()
            } else {
                vec![]
            };
            let metadata_ext =
                ext.then(|| FileMetadataExt::new(MerkleHash::from([rng.gen(), rng.gen(), rng.gen(), rng.gen()])));
            shard
                .add_file_reconstruction_info(MDBFileInfo {
                    metadata: FileDataSequenceHeader::new(h, nseg, ver, ext),
                    segments,
                    verification,
                    metadata_ext,
                })
                .unwrap();
            i += 1;
        }
    }
    shard
}

fn check(shard: &MDBInMemoryShard, rng: &mut StdRng, tag: &str) {
    let mut buf = Vec::new();
    let info_w = MDBShardInfo::serialize_from(&mut buf, shard).unwrap();
    let mut cur = Cursor::new(&buf);
    let info = MDBShardInfo::load_from_reader(&mut cur).unwrap();
    assert_eq!(info, info_w, "{tag}");
    assert_eq!(buf.len() as u64, shard.shard_file_size(), "{tag} size");
    assert_eq!(buf.len() as u64, info.num_bytes(), "{tag} size2");
    assert_eq!(info.materialized_bytes(), shard.materialized_bytes());
    assert_eq!(info.stored_bytes(), shard.stored_bytes());
    assert_eq!(info.stored_bytes_on_disk(), shard.stored_bytes_on_disk());

    // lookups of every present file
    for (h, fi) in shard.file_content.iter() {
        let got = info.get_file_reconstruction_info(&mut cur, h).unwrap();
        assert_eq!(got.as_ref(), Some(fi), "{tag} file {h:?}");
        // Same prefix, other tail.
        let mut o = *h;
        o[3] ^= 1;
        if !shard.file_content.contains_key(&o) {
            assert_eq!(info.get_file_reconstruction_info(&mut cur, &o).unwrap(), None);
        }
        for d in [1u64, u64::MAX] {
            let o = MerkleHash::from([h[0].wrapping_add(d), h[1], h[2], h[3]]);
            if !shard.file_content.contains_key(&o) {
                assert_eq!(info.get_file_reconstruction_info(&mut cur, &o).unwrap(), None, "{tag} absent {o:?}");
            }
        }
    }
    for _ in 0..200 {
        let dd = rng.gen_range(0..8); let o = MerkleHash::from([gen_key(rng, dd), 1, 2, 3]);
        assert_eq!(
            info.get_file_reconstruction_info(&mut cur, &o).unwrap(),
            shard.file_content.get(&o).cloned(),
            "{tag} random absent"
        );
    }
    for k in [0u64, 1, u64::MAX, u64::MAX - 1] {
        let o = MerkleHash::from([k, 1, 2, 3]);
        assert_eq!(info.get_file_reconstruction_info(&mut cur, &o).unwrap(), shard.file_content.get(&o).cloned());
    }

    // xorb lookups
    for (h, ci) in shard.cas_content.iter() {
        let mut dest = [0u32; 8];
        let n = info.get_cas_info_index_by_hash(&mut cur, h, &mut dest).unwrap();
        let mut found = None;
        for &idx in &dest[..n] {
            cur.set_position(info.metadata.cas_info_offset + 48 * idx as u64);
            let c = MDBCASInfo::deserialize(&mut cur).unwrap().unwrap();
            if c.metadata.cas_hash == *h {
                assert!(found.is_none());
                found = Some(c);
            }
        }
        assert_eq!(found.as_ref(), Some(ci.as_ref()), "{tag} cas {h:?}");

        // chunk lookups
        for (j, ch) in ci.chunks.iter().enumerate() {
            let r = info.chunk_hash_dedup_query(&mut cur, &[ch.chunk_hash]).unwrap();
            let (n, e) = r.unwrap_or_else(|| panic!("{tag} chunk {j} of {h:?} not found"));
            assert_eq!(n, 1);
            assert_eq!(e.unpacked_segment_bytes, ch.unpacked_segment_bytes);
        }
    }
    for _ in 0..200 {
        let dd = rng.gen_range(0..8); let o = MerkleHash::from([gen_key(rng, dd), 1, 2, 3]);
        let mut dest = [0u32; 8];
        let n = info.get_cas_info_index_by_hash(&mut cur, &o, &mut dest).unwrap();
        for &idx in &dest[..n] {
            cur.set_position(info.metadata.cas_info_offset + 48 * idx as u64);
            let c = MDBCASInfo::deserialize(&mut cur).unwrap().unwrap();
            assert_eq!(c.metadata.cas_hash[0], o[0]);
        }
        let exp = shard.cas_content.keys().filter(|k| k[0] == o[0]).count();
        assert_eq!(n, exp);
    }

    // Scans
    let files = info.read_all_file_info_sections(&mut cur).unwrap();
    assert_eq!(files, shard.file_content.values().cloned().collect::<Vec<_>>());
    let cas = info.read_all_cas_blocks_full(&mut cur).unwrap();
    assert_eq!(cas, shard.cas_content.values().map(|a| a.as_ref().clone()).collect::<Vec<_>>());
    let blocks = info.read_all_cas_blocks(&mut cur).unwrap();
    assert_eq!(blocks.len(), cas.len());
    let lk = info.read_full_cas_lookup(&mut cur).unwrap();
    assert_eq!(lk.len(), cas.len());
    {
        let mut idx = 0u32;
        for (i, c) in cas.iter().enumerate() {
            assert_eq!(lk[i], (c.metadata.cas_hash[0], idx));
            assert_eq!(blocks[i].1, info.metadata.cas_info_offset + 48 * idx as u64);
            idx += 1 + c.chunks.len() as u32;
        }
    }
    let mut th = info.read_all_truncated_hashes(&mut cur).unwrap();
    assert!(th.windows(2).all(|w| w[0].0 <= w[1].0));
    let mut exp = vec![];
    {
        let mut idx = 0u32;
        for c in cas.iter() {
            for (j, ch) in c.chunks.iter().enumerate() {
                exp.push((ch.chunk_hash[0], (idx, j as u32)));
            }
            idx += 1 + c.chunks.len() as u32;
        }
    }
    th.sort();
    exp.sort();
    assert_eq!(th, exp);

    let ranges = MDBShardInfo::read_file_info_ranges(&mut Cursor::new(&buf)).unwrap();
    assert_eq!(ranges.len(), files.len());

    // streaming
    let mut sf = vec![];
    let mut sc = vec![];
    process_shard_stream(
        &mut &buf[..],
        Some(|f: MDBFileInfoView| {
            sf.push(f);
            Ok(())
        }),
        Some(|c: MDBCASInfoView| {
            sc.push(c);
            Ok(())
        }),
    )
    .unwrap();
    assert_eq!(sf.len(), files.len());
    assert_eq!(sc.len(), cas.len());
    for (v, f) in sf.iter().zip(files.iter()) {
        assert_eq!(v.header(), &f.metadata);
        for j in 0..v.num_entries() {
            assert_eq!(v.entry(j), f.segments[j]);
            if v.contains_verification() {
                assert_eq!(v.verification(j), f.verification[j]);
            }
        }
        let mut b = vec![];
        v.serialize(&mut b).unwrap();
        let mut b2 = vec![];
        f.serialize(&mut b2).unwrap();
        assert_eq!(b, b2);
    }
    for (v, c) in sc.iter().zip(cas.iter()) {
        assert_eq!(v.header(), &c.metadata);
        for j in 0..v.num_entries() {
            assert_eq!(v.chunk(j), c.chunks[j]);
        }
    }

    // minimal
    let rt = tokio::runtime::Builder::new_current_thread().build().unwrap();
    for (inc_f, inc_c) in [(true, true), (true, false), (false, true), (false, false)] {
        let m = MDBMinimalShard::from_reader(&mut &buf[..], inc_f, inc_c).unwrap();
        let ma = rt.block_on(MDBMinimalShard::from_reader_async(&mut &buf[..], inc_f, inc_c)).unwrap();
        assert!(m == ma);
        assert_eq!(m.num_files(), if inc_f { files.len() } else { 0 });
        assert_eq!(m.num_cas(), if inc_c { cas.len() } else { 0 });
        let mut out = vec![];
        let nb = m.serialize(&mut out).unwrap();
        let mut c2 = Cursor::new(&out);
        let i2 = MDBShardInfo::load_from_reader(&mut c2).unwrap();
        assert_eq!(nb as u64, i2.metadata.footer_offset);
        assert_eq!(i2.num_bytes(), out.len() as u64);
        let f2 = i2.read_all_file_info_sections(&mut c2).unwrap();
        let cs2 = i2.read_all_cas_blocks_full(&mut c2).unwrap();
        if inc_f {
            assert_eq!(f2, files);
            assert_eq!(i2.materialized_bytes(), shard.materialized_bytes());
        } else {
            assert!(f2.is_empty());
        }
        if inc_c {
            assert_eq!(cs2, cas);
            assert_eq!(i2.stored_bytes(), shard.stored_bytes());
            let mut t2 = i2.read_all_truncated_hashes(&mut c2).unwrap();
            t2.sort();
            assert_eq!(t2, exp);
        } else {
            assert!(cs2.is_empty());
        }
    }
}

#[test]
fn fuzz_shards() {
    let mut rng = StdRng::seed_from_u64(7);
    for round in 0..60 {
        let dist = round % 8;
        let max_dup = [1, 2, 7][round % 3];
        let (nf, nc) = match round % 5 {
            0 => (0, 0),
            1 => (3, 2),
            2 => (300, 200),
            3 => (3000, 800),
            _ => (1000, 3000),
        };
        let shard = build_shard(&mut rng, nf, nc, dist, max_dup);
        check(&shard, &mut rng, &format!("round {round} dist {dist} dup {max_dup} nf {nf} nc {nc}"));
    }
}

#[test]
fn fuzz_interp() {
    let mut rng = StdRng::seed_from_u64(11);
    for round in 0..400 {
        let dist = round % 8;
        let n = [0usize, 1, 5, 255, 256, 257, 258, 600, 2000, 5000][round % 10];
        let mut keys: Vec<u64> = vec![];
        let mut kc = std::collections::HashMap::<u64, usize>::new();
        let mut attempts = 0;
        while keys.len() < n {
            let k = gen_key(&mut rng, dist);
            attempts += 1;
            if attempts > 20 * n + 100 { break; }
            let have = *kc.get(&k).unwrap_or(&0);
            if have >= 7 { continue; }
            let d = rng.gen_range(1..=(7 - have));
            *kc.entry(k).or_default() += d;
            for _ in 0..d {
                keys.push(k);
            }
        }
        keys.sort();
        let mut data = vec![];
        for (i, k) in keys.iter().enumerate() {
            write_u64(&mut data, *k).unwrap();
            write_u32(&mut data, i as u32).unwrap();
        }
        let mut queries: Vec<u64> = keys.iter().step_by(3).copied().collect();
        for k in keys.iter().step_by(5) {
            queries.push(k.wrapping_add(1));
            queries.push(k.wrapping_sub(1));
        }
        queries.extend([0, 1, u64::MAX, u64::MAX - 1]);
        for q in queries {
            let mut dest = [0u32; 64];
            let nfound = search_on_sorted_u64s(
                &mut Cursor::new(&data),
                0,
                keys.len() as u64,
                q,
                read_u32::<Cursor<&Vec<u8>>>,
                &mut dest,
            )
            .unwrap();
            let mut got = dest[..nfound].to_vec();
            got.sort();
            let exp: Vec<u32> = keys.iter().enumerate().filter(|(_, k)| **k == q).map(|(i, _)| i as u32).collect();
            assert_eq!(got, exp, "round {round} n {} q {q}", keys.len());
        }
    }
}

fn small_file(rng: &mut StdRng, k: u64) -> MDBFileInfo {
    let h = MerkleHash::from([k, 0, 0, 7]);
    let nseg = rng.gen_range(0..4);
    let ver = rng.gen_bool(0.5);
    let ext = rng.gen_bool(0.5);
    MDBFileInfo {
        metadata: FileDataSequenceHeader::new(h, nseg, ver, ext),
        segments: (0..nseg)
            .map(|_| FileDataSequenceEntry::new(MerkleHash::from([rng.gen(), 1, 1, 1]), rng.gen_range(0..100u32), 0, 1))
            .collect(),
        verification: if ver {
            (0..nseg).map(|_| FileVerificationEntry::new(MerkleHash::from([rng.gen(), 2, 2, 2]))).collect()
        } else {
            vec![]
        },
        metadata_ext: ext.then(|| FileMetadataExt::new(MerkleHash::from([rng.gen(), 3, 3, 3]))),
    }
}

fn small_cas(rng: &mut StdRng, k: u64) -> MDBCASInfo {
    let h = MerkleHash::from([k, 0, 0, 9]);
    let n = rng.gen_range(0..5);
    let mut pos = 0;
    let chunks: Vec<_> = (0..n)
        .map(|_| {
            // few distinct chunk hashes, so that chunks repeat within and across xorbs
            let ck = rng.gen_range(0..6u64);
            let l = 10 + ck as u32;
            let c = CASChunkSequenceEntry::new(MerkleHash::from([ck, 5, 5, 5]), l, pos);
            pos += l;
            c
        })
        .collect();
    MDBCASInfo {
        metadata: CASChunkSequenceHeader::new(h, n, pos),
        chunks,
    }
}

#[test]
fn fuzz_ops() {
    let mut rng = StdRng::seed_from_u64(3);
    for round in 0..3000 {
        let mut shards = vec![MDBInMemoryShard::default(), MDBInMemoryShard::default()];
        for _ in 0..rng.gen_range(0..25) {
            let which = rng.gen_range(0..shards.len());
            match rng.gen_range(0..6) {
                0 | 1 => {
                    let k = rng.gen_range(0..6);
                    let f = small_file(&mut rng, k);
                    shards[which].add_file_reconstruction_info(f).unwrap()
                },
                2 | 3 => {
                    let k = rng.gen_range(0..6);
                    let c = small_cas(&mut rng, k);
                    shards[which].add_cas_block(c).unwrap()
                },
                4 => {
                    let o = rng.gen_range(0..shards.len());
                    let u = shards[which].union(&shards[o]).unwrap();
                    shards.push(u);
                },
                _ => {
                    let o = rng.gen_range(0..shards.len());
                    let u = shards[which].difference(&shards[o]).unwrap();
                    shards.push(u);
                },
            }
        }
        for (i, s) in shards.iter().enumerate() {
            check(s, &mut rng, &format!("ops round {round} shard {i}"));
        }
    }
}

#[test]
fn fuzz_interp_big() {
    let mut rng = StdRng::seed_from_u64(99);
    for round in 0..32 {
        let dist = round % 8;
        let n = [50_000usize, 200_000, 1_000_000, 20_000][round / 8];
        let mut keys: Vec<u64> = Vec::with_capacity(n + 8);
        let mut kc = std::collections::HashMap::<u64, usize>::new();
        let mut attempts = 0;
        while keys.len() < n {
            let k = gen_key(&mut rng, dist);
            attempts += 1;
            if attempts > 3 * n + 100 {
                break;
            }
            let have = *kc.get(&k).unwrap_or(&0);
            if have >= 7 {
                continue;
            }
            let d = if rng.gen_bool(0.9) { 1 } else { rng.gen_range(1..=(7 - have)) };
            *kc.entry(k).or_default() += d;
            for _ in 0..d {
                keys.push(k);
            }
        }
        keys.sort();
        let mut data = Vec::with_capacity(keys.len() * 12);
        for (i, k) in keys.iter().enumerate() {
            write_u64(&mut data, *k).unwrap();
            write_u32(&mut data, i as u32).unwrap();
        }
        let mut queries: Vec<u64> = vec![0, 1, u64::MAX, u64::MAX - 1];
        for _ in 0..4000 {
            if keys.is_empty() {
                break;
            }
            let k = keys[rng.gen_range(0..keys.len())];
            queries.push(k);
            queries.push(k.wrapping_add(1));
            queries.push(k.wrapping_sub(1));
            queries.push(rng.gen());
        }
        for q in queries {
            let mut dest = [0u32; 8];
            let nfound = search_on_sorted_u64s(
                &mut Cursor::new(&data),
                0,
                keys.len() as u64,
                q,
                read_u32::<Cursor<&Vec<u8>>>,
                &mut dest,
            )
            .unwrap();
            let mut got = dest[..nfound].to_vec();
            got.sort();
            let lo = keys.partition_point(|k| *k < q);
            let hi = keys.partition_point(|k| *k <= q);
            let exp: Vec<u32> = (lo as u32..hi as u32).collect();
            assert_eq!(got, exp, "round {round} n {} q {q}", keys.len());
        }
    }
}

#[test]
fn file_backed() {
    use mdb_shard::MDBShardFile;
    let mut rng = StdRng::seed_from_u64(5);
    for round in 0..16 {
        let dir = tempdir::TempDir::new("hunt_c09").unwrap();
        let shard = build_shard(&mut rng, 1500, 700, round % 8, 7);
        let p = shard.write_to_directory(dir.path()).unwrap();
        let sf = MDBShardFile::load_from_file(&p).unwrap();
        assert_eq!(std::fs::metadata(&p).unwrap().len(), shard.shard_file_size());
        for (h, fi) in shard.file_content.iter() {
            assert_eq!(sf.get_file_reconstruction_info(h).unwrap().as_ref(), Some(fi));
            let mut o = *h;
            o[2] ^= 4;
            assert_eq!(sf.get_file_reconstruction_info(&o).unwrap(), None);
        }
        assert_eq!(sf.read_all_file_info_sections().unwrap(), shard.file_content.values().cloned().collect::<Vec<_>>());
        let cas = sf.shard.read_all_cas_blocks_full(&mut sf.get_reader().unwrap()).unwrap();
        assert_eq!(cas, shard.cas_content.values().map(|a| a.as_ref().clone()).collect::<Vec<_>>());
        assert_eq!(sf.read_all_cas_blocks().unwrap().len(), cas.len());
        let mut f = std::fs::File::open(&p).unwrap();
        let m = MDBMinimalShard::from_reader(&mut f, true, true).unwrap();
        assert_eq!(m.num_files(), shard.file_content.len());
        assert_eq!(m.num_cas(), cas.len());
    }
}

// C08 demo: the streaming xorb validator panics (builds with overflow checks) on an 859 MB input of
// 107,374,182 empty chunks: the footer it generates for a footer-less / v0 stream needs section offsets
// >= 2^32 and CasObjectInfoV1::fill_in_boundary_offsets adds them in u32 without a check.
//
// Needs roughly 25 GB of RAM and a few minutes; run with the optimized test profile:
//   cargo test --offline --profile opt-test -p cas_object --test hunt_count -- --nocapture
use std::panic::{catch_unwind, AssertUnwindSafe};
use std::pin::Pin;
use std::task::{Context, Poll};

use cas_object::validate_cas_object_from_async_read;
use merkledb::aggregate_hashes::cas_node_hash;

/// `remaining` zero bytes, produced on the fly.
struct Zeros {
    remaining: u64,
}
impl futures::io::AsyncRead for Zeros {
    fn poll_read(mut self: Pin<&mut Self>, _cx: &mut Context<'_>, buf: &mut [u8]) -> Poll<std::io::Result<usize>> {
        let n = (buf.len() as u64).min(self.remaining) as usize;
        buf[..n].fill(0);
        self.remaining -= n as u64;
        Poll::Ready(Ok(n))
    }
}

fn run(n_chunks: u64) -> Result<String, String> {
    // Eight zero bytes are a well-formed chunk header: version 0, compressed length 0, scheme None,
    // uncompressed length 0.  The object is n_chunks such chunks and no footer.
    let t = std::time::Instant::now();
    let empty = merklehash::compute_data_hash(&[]);
    let h = cas_node_hash(&vec![(empty, 0usize); n_chunks as usize]);
    println!("n_chunks={n_chunks}: object is {} zero bytes, hash {h} ({:?})", n_chunks * 8, t.elapsed());
    let t = std::time::Instant::now();
    let r = catch_unwind(AssertUnwindSafe(|| {
        let mut rd = Zeros { remaining: n_chunks * 8 };
        futures::executor::block_on(validate_cas_object_from_async_read(&mut rd, &h))
    }));
    println!("validator returned after {:?}", t.elapsed());
    match r {
        Ok(Ok(Some((c, gb)))) => Ok(format!(
            "accepted, go_back={gb:?}, num_chunks={}, hashes_section_offset_from_end={}, boundary_section_offset_from_end={}",
            c.info.num_chunks, c.info.hashes_section_offset_from_end, c.info.boundary_section_offset_from_end
        )),
        Ok(Ok(None)) => Ok("rejected".into()),
        Ok(Err(e)) => Ok(format!("error {e}")),
        Err(p) => Err(p
            .downcast_ref::<String>()
            .cloned()
            .or_else(|| p.downcast_ref::<&str>().map(|s| s.to_string()))
            .unwrap_or_default()),
    }
}

#[test]
fn control_small_count_is_accepted() {
    let r = run(1000).unwrap();
    println!("{r}");
    assert!(r.starts_with("accepted"));
}

#[test]
fn many_chunks_must_not_panic_the_stream_validator() {
    let n: u64 = std::env::var("HUNT_N").ok().and_then(|s| s.parse().ok()).unwrap_or(107_374_182);
    let r = run(n);
    println!("{r:?}");
    let r = r.unwrap_or_else(|p| panic!("validate_cas_object_from_async_read panicked: {p}"));
    // the true size of the footer sections for n chunks
    let need = 52 + 40 * n;
    assert!(
        !r.starts_with("accepted") || need <= u32::MAX as u64,
        "accepted although the generated footer needs a section offset of {need} > u32::MAX: {r}"
    );
}

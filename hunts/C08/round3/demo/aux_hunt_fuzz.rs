use std::io::{Cursor, Seek, SeekFrom, Write};
use std::panic::{catch_unwind, AssertUnwindSafe};

use cas_object::{
    deserialize_chunk, validate_cas_object_from_async_read, CasObject, CasObjectInfoV0, CasObjectInfoV1,
    CompressionScheme,
};
use merkledb::prelude::MerkleDBHighLevelMethodsV1;
use merkledb::{Chunk, MerkleMemDB};
use merklehash::MerkleHash;
use rand::rngs::StdRng;
use rand::{Rng, SeedableRng};

fn xorb_hash(chunks: &[Chunk]) -> MerkleHash {
    let mut db = MerkleMemDB::default();
    let mut staging = db.start_insertion_staging();
    db.add_file(&mut staging, chunks);
    *db.finalize(staging).hash()
}

#[derive(Debug, Clone, PartialEq)]
enum Out {
    Accept(Box<CasObject>),
    Reject,
    Error(String),
    Panic(String),
}
impl Out {
    fn tag(&self) -> &'static str {
        match self {
            Out::Accept(_) => "accept",
            Out::Reject => "reject",
            Out::Error(_) => "error",
            Out::Panic(_) => "panic",
        }
    }
}

fn panic_text(p: Box<dyn std::any::Any + Send>) -> String {
    if let Some(s) = p.downcast_ref::<String>() {
        s.clone()
    } else if let Some(s) = p.downcast_ref::<&str>() {
        s.to_string()
    } else {
        "<panic>".to_string()
    }
}

fn run_sync(xorb: &[u8], h: &MerkleHash) -> Out {
    let xorb = xorb.to_vec();
    let h = *h;
    match catch_unwind(AssertUnwindSafe(move || CasObject::validate_cas_object(&mut Cursor::new(xorb), &h))) {
        Ok(Ok(Some(c))) => Out::Accept(Box::new(c)),
        Ok(Ok(None)) => Out::Reject,
        Ok(Err(e)) => Out::Error(format!("{e}")),
        Err(p) => Out::Panic(panic_text(p)),
    }
}

fn run_stream(xorb: &[u8], h: &MerkleHash) -> Out {
    let xorb = xorb.to_vec();
    let h = *h;
    match catch_unwind(AssertUnwindSafe(move || {
        let mut rd = futures::io::Cursor::new(xorb);
        futures::executor::block_on(validate_cas_object_from_async_read(&mut rd, &h))
    })) {
        Ok(Ok(Some((c, _)))) => Out::Accept(Box::new(c)),
        Ok(Ok(None)) => Out::Reject,
        Ok(Err(e)) => Out::Error(format!("{e}")),
        Err(p) => Out::Panic(panic_text(p)),
    }
}

fn run_deser(xorb: &[u8]) -> Out {
    let xorb = xorb.to_vec();
    match catch_unwind(AssertUnwindSafe(move || CasObject::deserialize(&mut Cursor::new(xorb)))) {
        Ok(Ok(c)) => Out::Accept(Box::new(c)),
        Ok(Err(e)) => Out::Error(format!("{e}")),
        Err(p) => Out::Panic(panic_text(p)),
    }
}
fn run_deser_bnd(xorb: &[u8]) -> Out {
    let xorb = xorb.to_vec();
    match catch_unwind(AssertUnwindSafe(move || {
        CasObjectInfoV1::deserialize_only_boundaries_section(&mut Cursor::new(xorb))
    })) {
        Ok(Ok(_)) => Out::Reject,
        Ok(Err(e)) => Out::Error(format!("{e}")),
        Err(p) => Out::Panic(panic_text(p)),
    }
}

/// independent walk: decode chunks from offset 0 until ident/EOF; returns (chunks, end offset)
fn walk(xorb: &[u8]) -> Option<(Vec<Chunk>, usize)> {
    let mut pos = 0usize;
    let mut chunks = vec![];
    loop {
        if pos == xorb.len() {
            break;
        }
        if xorb.len() - pos >= 7 && &xorb[pos..pos + 7] == b"XETBLOB" {
            break;
        }
        if xorb.len() - pos < 8 {
            return None;
        }
        let clen = u32::from_le_bytes([xorb[pos + 1], xorb[pos + 2], xorb[pos + 3], 0]) as usize;
        if pos + 8 + clen > xorb.len() {
            return None;
        }
        let mut c = Cursor::new(&xorb[pos..pos + 8 + clen]);
        let (data, _, _) = deserialize_chunk(&mut c).ok()?;
        chunks.push(Chunk {
            hash: merklehash::compute_data_hash(&data),
            length: data.len(),
        });
        pos += 8 + clen;
    }
    Some((chunks, pos))
}

fn check_accept(kind: &str, xorb: &[u8], h: &MerkleHash, c: &CasObject, what: &str) -> Option<String> {
    let Some((chunks, end)) = walk(xorb) else {
        return Some(format!("{kind} accepted but independent walk fails ({what})"));
    };
    if chunks.is_empty() {
        return None; // zero chunk: known
    }
    if xorb_hash(&chunks) != *h {
        return Some(format!("{kind} accepted but recomputed hash differs ({what})"));
    }
    let info = &c.info;
    if info.cashash != *h || info.num_chunks as usize != chunks.len() {
        return Some(format!("{kind} accepted, info cashash/num_chunks wrong ({what})"));
    }
    if info.chunk_hashes != chunks.iter().map(|c| c.hash).collect::<Vec<_>>() {
        return Some(format!("{kind} accepted, info chunk hashes wrong ({what})"));
    }
    if *info.chunk_boundary_offsets.last().unwrap() as usize != end {
        return Some(format!("{kind} accepted, info boundary wrong ({what})"));
    }
    if !info.unpacked_chunk_offsets.is_empty() {
        let mut s = 0u32;
        for (i, ch) in chunks.iter().enumerate() {
            s += ch.length as u32;
            if info.unpacked_chunk_offsets[i] != s {
                return Some(format!("{kind} accepted, info unpacked offsets wrong ({what})"));
            }
        }
    }
    None
}

struct Base {
    v1: Vec<u8>,
    v0: Vec<u8>,
    nofooter: Vec<u8>,
    h: MerkleHash,
    content_len: usize,
}

fn make_base(rng: &mut StdRng, nchunks: usize, scheme: Option<CompressionScheme>, maxlen: usize) -> Base {
    let mut data = vec![];
    let mut bounds = vec![];
    let mut chunks = vec![];
    for _ in 0..nchunks {
        let len = rng.gen_range(1..=maxlen);
        let compressible = rng.gen_bool(0.7);
        let d: Vec<u8> = if compressible {
            let m = rng.gen_range(1..5u32);
            (0..len as u32).map(|i| ((i / 3) % m) as u8).collect()
        } else {
            (0..len).map(|_| rng.gen()).collect()
        };
        let hash = merklehash::compute_data_hash(&d);
        data.extend_from_slice(&d);
        bounds.push((hash, data.len() as u32));
        chunks.push(Chunk { hash, length: len });
    }
    let h = xorb_hash(&chunks);
    let mut w = Cursor::new(Vec::new());
    let (c, _) = CasObject::serialize(&mut w, &h, &data, &bounds, scheme).unwrap();
    let v1 = w.into_inner();
    let content_len = *c.info.chunk_boundary_offsets.last().unwrap() as usize;
    let nofooter = v1[..content_len].to_vec();

    let mut v0info = CasObjectInfoV0::default();
    v0info.cashash = h;
    v0info.num_chunks = c.info.num_chunks;
    v0info.chunk_boundary_offsets = c.info.chunk_boundary_offsets.clone();
    v0info.chunk_hashes = c.info.chunk_hashes.clone();
    let mut w = Cursor::new(nofooter.clone());
    w.seek(SeekFrom::End(0)).unwrap();
    #[allow(deprecated)]
    let n = v0info.serialize(&mut w).unwrap() as u32;
    w.write_all(&n.to_le_bytes()).unwrap();
    let v0 = w.into_inner();
    Base {
        v1,
        v0,
        nofooter,
        h,
        content_len,
    }
}

fn examine(x: &[u8], h: &MerkleHash, what: &str, problems: &mut Vec<String>, stats: &mut [usize; 8]) {
    let s = run_sync(x, h);
    let a = run_stream(x, h);
    let d = run_deser(x);
    let b = run_deser_bnd(x);
    for (k, o) in [("sync", &s), ("stream", &a), ("deser", &d), ("deser_bnd", &b)] {
        if let Out::Panic(p) = o {
            problems.push(format!("PANIC in {k}: {p} ({what}) input={}", hex(x)));
        }
    }
    if let Out::Accept(c) = &s {
        stats[0] += 1;
        if let Some(p) = check_accept("sync", x, h, c, what) {
            problems.push(format!("{p} input={}", hex(x)));
        }
    }
    if let Out::Accept(c) = &a {
        stats[1] += 1;
        if let Some(p) = check_accept("stream", x, h, c, what) {
            problems.push(format!("{p} input={}", hex(x)));
        }
    }
    if s.tag() == "accept" && a.tag() != "accept" {
        stats[2] += 1;
        if stats[2] < 5 {
            println!("NOTE sync accepts, stream {}: {what}", a.tag());
        }
    }
    if a.tag() == "accept" && s.tag() != "accept" {
        stats[3] += 1;
    }
}

fn hex(x: &[u8]) -> String {
    if x.len() > 400 {
        return format!("<{} bytes>", x.len());
    }
    x.iter().map(|b| format!("{b:02x}")).collect()
}

#[test]
fn fuzz_validators() {
    std::panic::set_hook(Box::new(|_| {}));
    let secs: u64 = std::env::var("HUNT_SECS").ok().and_then(|s| s.parse().ok()).unwrap_or(60);
    let seed: u64 = std::env::var("HUNT_SEED").ok().and_then(|s| s.parse().ok()).unwrap_or(1);
    let mut rng = StdRng::seed_from_u64(seed);
    let start = std::time::Instant::now();
    let mut problems = vec![];
    let mut stats = [0usize; 8];
    let mut n = 0usize;
    let schemes = [
        Some(CompressionScheme::None),
        Some(CompressionScheme::LZ4),
        Some(CompressionScheme::ByteGrouping4LZ4),
        None,
    ];
    let mut round = 0;
    while start.elapsed().as_secs() < secs {
        round += 1;
        let nchunks = rng.gen_range(1..=4);
        let scheme = schemes[rng.gen_range(0..schemes.len())];
        let maxlen = if rng.gen_bool(0.5) { 40 } else { 600 };
        let base = make_base(&mut rng, nchunks, scheme, maxlen);
        let other = make_base(&mut rng, 2, scheme, maxlen);

        // valid ones
        for (name, x) in [("v1", &base.v1), ("v0", &base.v0), ("nofooter", &base.nofooter)] {
            let s = run_sync(x, &base.h);
            let a = run_stream(x, &base.h);
            if name != "nofooter" && s.tag() != "accept" {
                problems.push(format!("valid {name} not accepted by sync: {s:?}"));
            }
            if a.tag() != "accept" {
                problems.push(format!("valid {name} not accepted by stream: {a:?}"));
            }
            let s2 = run_sync(x, &other.h);
            let a2 = run_stream(x, &other.h);
            if s2.tag() == "accept" || a2.tag() == "accept" {
                problems.push(format!("valid {name} accepted for other hash"));
            }
        }

        for (name, x) in [("v1", &base.v1), ("v0", &base.v0), ("nofooter", &base.nofooter)] {
            // exhaustive small mutations only for small inputs and occasionally
            if x.len() < 500 && round % 3 == 0 {
                for i in 0..x.len() {
                    for m in [0x01u8, 0x80, 0xff] {
                        let mut y = x.clone();
                        y[i] ^= m;
                        examine(&y, &base.h, &format!("{name} flip {i} ^{m:02x}"), &mut problems, &mut stats);
                        n += 1;
                    }
                }
                for i in 0..x.len() {
                    examine(&x[..i], &base.h, &format!("{name} trunc {i}"), &mut problems, &mut stats);
                    examine(&x[i..], &base.h, &format!("{name} cut-front {i}"), &mut problems, &mut stats);
                    n += 2;
                }
            }
            // random structured mutations
            for _ in 0..200 {
                let mut y = x.clone();
                let k = rng.gen_range(1..=3);
                let mut desc = String::new();
                for _ in 0..k {
                    if y.is_empty() {
                        break;
                    }
                    match rng.gen_range(0..9) {
                        0 => {
                            let i = rng.gen_range(0..y.len());
                            y[i] = rng.gen();
                            desc += &format!("set {i};");
                        },
                        1 => {
                            // delete range
                            let i = rng.gen_range(0..y.len());
                            let l = rng.gen_range(0..=(y.len() - i).min(64));
                            y.drain(i..i + l);
                            desc += &format!("del {i}+{l};");
                        },
                        2 => {
                            // duplicate range
                            let i = rng.gen_range(0..y.len());
                            let l = rng.gen_range(0..=(y.len() - i).min(64));
                            let seg = y[i..i + l].to_vec();
                            let at = rng.gen_range(0..=y.len());
                            y.splice(at..at, seg);
                            desc += &format!("dup {i}+{l}@{at};");
                        },
                        3 => {
                            // splice from other xorb
                            let o = &other.v1;
                            let i = rng.gen_range(0..o.len());
                            let l = rng.gen_range(0..=(o.len() - i).min(128));
                            let at = rng.gen_range(0..=y.len());
                            y.splice(at..at, o[i..i + l].iter().cloned());
                            desc += &format!("splice other {i}+{l}@{at};");
                        },
                        4 => {
                            // overwrite a u32 with interesting values
                            if y.len() >= 4 {
                                let i = rng.gen_range(0..=y.len() - 4);
                                let vals = [0u32, 1, 0x7fffffff, 0x80000000, 0xffffffff, 0xfffffffc, y.len() as u32];
                                let v = vals[rng.gen_range(0..vals.len())];
                                y[i..i + 4].copy_from_slice(&v.to_le_bytes());
                                desc += &format!("u32 {i}={v:x};");
                            }
                        },
                        5 => {
                            // insert random bytes
                            let at = rng.gen_range(0..=y.len());
                            let l = rng.gen_range(1..16);
                            let seg: Vec<u8> = (0..l).map(|_| rng.gen()).collect();
                            y.splice(at..at, seg);
                            desc += &format!("ins {l}@{at};");
                        },
                        6 => {
                            // bump a byte in the chunk region +-1
                            let i = rng.gen_range(0..base.content_len.min(y.len()));
                            y[i] = y[i].wrapping_add(if rng.gen() { 1 } else { 255 });
                            desc += &format!("bump {i};");
                        },
                        7 => {
                            // truncate
                            let i = rng.gen_range(0..=y.len());
                            y.truncate(i);
                            desc += &format!("trunc {i};");
                        },
                        _ => {
                            // swap in the other's footer / chunks
                            let o = &other.v1;
                            let cut = rng.gen_range(0..=y.len());
                            let ocut = rng.gen_range(0..=o.len());
                            y.truncate(cut);
                            y.extend_from_slice(&o[ocut..]);
                            desc += &format!("tail-swap {cut}/{ocut};");
                        },
                    }
                }
                examine(&y, &base.h, &format!("{name} {desc}"), &mut problems, &mut stats);
                n += 1;
            }
        }
        // random strings
        for _ in 0..50 {
            let l = rng.gen_range(0..200);
            let mut y: Vec<u8> = (0..l).map(|_| rng.gen()).collect();
            if rng.gen_bool(0.5) && y.len() >= 8 {
                // plausible chunk header
                y[0] = 0;
                y[2] = 0;
                y[3] = 0;
                y[4] = rng.gen_range(0..3);
                y[6] = 0;
                y[7] = 0;
            }
            examine(&y, &base.h, "random", &mut problems, &mut stats);
            n += 1;
        }
        if problems.len() > 20 {
            break;
        }
    }
    println!("inputs: {n}, rounds {round}, sync accepts {}, stream accepts {}, sync-only {}, stream-only {}", stats[0], stats[1], stats[2], stats[3]);
    problems.sort();
    problems.dedup();
    for p in problems.iter().take(30) {
        println!("PROBLEM: {p}");
    }
    assert!(problems.is_empty());
}

// Demonstration for property C08: "validators ... never panic on arbitrary input".
//
// A chunk whose LZ4 payload is two concatenated (individually valid) LZ4 frames, the first with a
// larger maximum block size than the second, makes both xorb validators panic in builds with debug
// assertions (cargo test / cargo build without --release): lz4_flex's FrameDecoder keeps the larger
// output buffer of the first frame and then trips `debug_assert_eq!(self.dst.capacity(), max_block_size)`
// when it reads the first block of the second frame.  The validators hand attacker-controlled bytes to
// that decoder without isolating it.
use std::io::{Cursor, Write};
use std::panic::{catch_unwind, AssertUnwindSafe};

use cas_object::{validate_cas_object_from_async_read, CasObject, CasObjectInfoV1};
use lz4_flex::frame::{BlockSize, FrameEncoder, FrameInfo};
use merkledb::prelude::MerkleDBHighLevelMethodsV1;
use merkledb::{Chunk, MerkleMemDB};
use merklehash::MerkleHash;

fn xorb_hash(chunks: &[Chunk]) -> MerkleHash {
    let mut db = MerkleMemDB::default();
    let mut staging = db.start_insertion_staging();
    db.add_file(&mut staging, chunks);
    *db.finalize(staging).hash()
}

fn lz4_frame(data: &[u8], bs: BlockSize) -> Vec<u8> {
    let mut enc = FrameEncoder::with_frame_info(FrameInfo::new().block_size(bs), Vec::new());
    enc.write_all(data).unwrap();
    enc.finish().unwrap()
}

/// One chunk, scheme LZ4 (1), payload given; returns the complete serialized xorb (chunk + V1 footer + length).
fn xorb_with_one_lz4_chunk(payload: &[u8], plain: &[u8]) -> (Vec<u8>, MerkleHash) {
    let mut out = Vec::new();
    // chunk header: version 0, 3-byte compressed length, scheme, 3-byte uncompressed length
    out.push(0u8);
    out.extend_from_slice(&(payload.len() as u32).to_le_bytes()[..3]);
    out.push(1u8);
    out.extend_from_slice(&(plain.len() as u32).to_le_bytes()[..3]);
    out.extend_from_slice(payload);

    let chunk_hash = merklehash::compute_data_hash(plain);
    let h = xorb_hash(&[Chunk {
        hash: chunk_hash,
        length: plain.len(),
    }]);

    let mut info = CasObjectInfoV1::default();
    info.cashash = h;
    info.num_chunks = 1;
    info.chunk_hashes = vec![chunk_hash];
    info.chunk_boundary_offsets = vec![out.len() as u32];
    info.unpacked_chunk_offsets = vec![plain.len() as u32];
    info.fill_in_boundary_offsets();

    let mut w = Cursor::new(out);
    w.set_position(w.get_ref().len() as u64);
    CasObject::serialize_given_info(&mut w, info).unwrap();
    (w.into_inner(), h)
}

fn run_sync(xorb: &[u8], h: &MerkleHash) -> Result<String, String> {
    let xorb = xorb.to_vec();
    let h = *h;
    catch_unwind(AssertUnwindSafe(move || {
        let r = CasObject::validate_cas_object(&mut Cursor::new(xorb), &h);
        match r {
            Ok(Some(_)) => "accepted".to_string(),
            Ok(None) => "rejected".to_string(),
            Err(e) => format!("error: {e}"),
        }
    }))
    .map_err(|p| panic_text(p))
}

fn run_stream(xorb: &[u8], h: &MerkleHash) -> Result<String, String> {
    let xorb = xorb.to_vec();
    let h = *h;
    catch_unwind(AssertUnwindSafe(move || {
        let mut rd = futures::io::Cursor::new(xorb);
        let r = futures::executor::block_on(validate_cas_object_from_async_read(&mut rd, &h));
        match r {
            Ok(Some(_)) => "accepted".to_string(),
            Ok(None) => "rejected".to_string(),
            Err(e) => format!("error: {e}"),
        }
    }))
    .map_err(|p| panic_text(p))
}

fn panic_text(p: Box<dyn std::any::Any + Send>) -> String {
    if let Some(s) = p.downcast_ref::<String>() {
        s.clone()
    } else if let Some(s) = p.downcast_ref::<&str>() {
        s.to_string()
    } else {
        "<panic>".to_string()
    }
}

#[test]
fn control_single_frame_chunk_is_accepted_by_both() {
    let plain: Vec<u8> = (0..2000u32).map(|i| (i % 7) as u8).collect();
    let payload = lz4_frame(&plain, BlockSize::Max256KB);
    let (xorb, h) = xorb_with_one_lz4_chunk(&payload, &plain);
    assert_eq!(run_sync(&xorb, &h), Ok("accepted".to_string()));
    assert_eq!(run_stream(&xorb, &h), Ok("accepted".to_string()));
}

#[test]
fn two_lz4_frames_in_one_chunk_must_not_panic_the_validators() {
    let plain: Vec<u8> = (0..2000u32).map(|i| (i % 7) as u8).collect();
    // two valid frames spliced back to back inside one chunk payload (98 bytes in total)
    let mut payload = lz4_frame(&plain[..1000], BlockSize::Max256KB);
    payload.extend_from_slice(&lz4_frame(&plain[1000..], BlockSize::Max64KB));
    let (xorb, h) = xorb_with_one_lz4_chunk(&payload, &plain);
    println!("xorb of {} bytes, chunk payload {} bytes", xorb.len(), payload.len());

    let sync = run_sync(&xorb, &h);
    let stream = run_stream(&xorb, &h);
    println!("validate_cas_object                 -> {sync:?}");
    println!("validate_cas_object_from_async_read -> {stream:?}");
    assert!(sync.is_ok(), "validate_cas_object panicked: {}", sync.unwrap_err());
    assert!(stream.is_ok(), "validate_cas_object_from_async_read panicked: {}", stream.unwrap_err());
}

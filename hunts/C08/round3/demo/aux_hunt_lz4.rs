use std::io::Write;
use std::panic::{catch_unwind, AssertUnwindSafe};
use cas_object::CompressionScheme;
use lz4_flex::frame::{BlockMode, BlockSize, FrameEncoder, FrameInfo};
use rand::rngs::StdRng;
use rand::{Rng, SeedableRng};

fn hex(x: &[u8]) -> String { x.iter().map(|b| format!("{b:02x}")).collect() }

#[test]
fn lz4fuzz() {
    std::panic::set_hook(Box::new(|_| {}));
    let secs: u64 = std::env::var("HUNT_SECS").ok().and_then(|s| s.parse().ok()).unwrap_or(60);
    let seed: u64 = std::env::var("HUNT_SEED").ok().and_then(|s| s.parse().ok()).unwrap_or(1);
    let mut rng = StdRng::seed_from_u64(seed);
    let start = std::time::Instant::now();
    let mut n = 0usize; let mut okc = 0usize;
    let mut maxout = 0usize;
    while start.elapsed().as_secs() < secs {
        let len = match rng.gen_range(0..4) { 0 => rng.gen_range(0..200), 1 => rng.gen_range(0..5000), 2 => rng.gen_range(60000..140000), _ => rng.gen_range(190000..600000) };
        let mut data = Vec::with_capacity(len);
        while data.len() < len {
            if !data.is_empty() && rng.gen_bool(0.6) {
                let off = rng.gen_range(1..=data.len().min(70000));
                let l = rng.gen_range(4..300);
                for _ in 0..l { let b = data[data.len() - off]; data.push(b); }
            } else {
                let l = rng.gen_range(1..40);
                for _ in 0..l { data.push(rng.gen()); }
            }
        }
        data.truncate(len);
        let bs = [BlockSize::Max64KB, BlockSize::Max256KB, BlockSize::Max1MB, BlockSize::Max4MB, BlockSize::Auto][rng.gen_range(0..5)];
        let mut fi = FrameInfo::new().block_size(bs)
            .block_mode(if rng.gen() { BlockMode::Linked } else { BlockMode::Independent })
            .block_checksums(rng.gen_bool(0.2))
            .content_checksum(rng.gen_bool(0.2));
        if rng.gen_bool(0.2) { fi = fi.content_size(Some(len as u64)); }
        if rng.gen_bool(0.1) { fi = fi.legacy_frame(true); }
        let mut enc = FrameEncoder::with_frame_info(fi, Vec::new());
        // write in pieces so that several blocks are produced
        let mut p = 0;
        while p < data.len() { let l = rng.gen_range(1..=100000).min(data.len() - p); enc.write_all(&data[p..p + l]).unwrap(); p += l; }
        let Ok(frame) = enc.finish() else { continue };
        if frame.len() > 262144 { continue; }
        for m in 0..30 {
            let mut y = frame.clone();
            if m > 0 {
                let k = rng.gen_range(1..4);
                for _ in 0..k {
                    if y.len() < 12 { break; }
                    match rng.gen_range(0..6) {
                        0 => { let i = rng.gen_range(7..y.len()); y[i] = rng.gen(); },
                        1 => { let i = rng.gen_range(7..y.len()); y[i] ^= 1 << rng.gen_range(0..8); },
                        2 => { let i = rng.gen_range(7..y.len()); y.truncate(i); },
                        3 => { let i = rng.gen_range(7..y.len()); let l = rng.gen_range(0..(y.len() - i).min(20) + 1); y.drain(i..i + l); },
                        4 => { let i = rng.gen_range(7..y.len()); let v = [0u8, 0xff, 0x0f, 0xf0, 0x80][rng.gen_range(0..5)]; y[i] = v; },
                        _ => { let i = rng.gen_range(7..y.len()); let l = rng.gen_range(1..8); let seg: Vec<u8> = (0..l).map(|_| if rng.gen() { 0xff } else { rng.gen() }).collect(); y.splice(i..i, seg); },
                    }
                }
            }
            for scheme in [CompressionScheme::LZ4, CompressionScheme::ByteGrouping4LZ4] {
                n += 1;
                let yy = y.clone();
                let r = catch_unwind(AssertUnwindSafe(|| scheme.decompress_from_slice(&yy).map(|c| c.len())));
                match r {
                    Err(p) => {
                        let msg = p.downcast_ref::<String>().cloned().or_else(|| p.downcast_ref::<&str>().map(|s| s.to_string())).unwrap_or_default();
                        println!("PANIC {scheme:?}: {msg}; frame len {} m {m} {}", y.len(), if y.len() < 300 { hex(&y) } else { String::new() });
                        panic!("found");
                    },
                    Ok(Ok(l)) => { okc += 1; maxout = maxout.max(l); if m == 0 && scheme == CompressionScheme::LZ4 { assert_eq!(l, len); } },
                    Ok(Err(_)) => {},
                }
                let mut out = vec![];
                let yy = y.clone();
                let r = catch_unwind(AssertUnwindSafe(|| scheme.decompress_from_reader(&mut std::io::Cursor::new(&yy), &mut out).is_ok()));
                if r.is_err() { println!("PANIC reader {scheme:?} len {}", y.len()); panic!("found"); }
            }
        }
    }
    println!("cases {n}, ok {okc}, maxout {maxout}");
}

use std::io::Write;
use std::panic::{catch_unwind, AssertUnwindSafe};

use cas_object::*;
use lz4_flex::frame::{BlockMode, BlockSize, FrameEncoder, FrameInfo};
use rand::rngs::StdRng;
use rand::{Rng, RngCore, SeedableRng};

fn frame(data: &[u8], linked: bool, bs: BlockSize, bc: bool, cc: bool, cs: bool) -> Vec<u8> {
    let mut fi = FrameInfo::new();
    fi.block_mode = if linked { BlockMode::Linked } else { BlockMode::Independent };
    fi.block_size = bs;
    fi.block_checksums = bc;
    fi.content_checksum = cc;
    if cs {
        fi.content_size = Some(data.len() as u64);
    }
    let mut enc = FrameEncoder::with_frame_info(fi, Vec::new());
    // write in pieces to produce several blocks
    for p in data.chunks(70_000) {
        enc.write_all(p).unwrap();
    }
    enc.finish().unwrap()
}

#[test]
fn lz4_fuzz() {
    std::panic::set_hook(Box::new(|_| {}));
    let mut rng = StdRng::seed_from_u64(42);
    let mut corpus: Vec<Vec<u8>> = vec![];
    let datas: Vec<Vec<u8>> = vec![
        vec![],
        vec![1],
        (0..300u32).map(|i| (i / 7) as u8).collect(),
        (0..200_000u32).map(|i| (i % 253) as u8).collect(),
        {
            let mut v = vec![0u8; 150_000];
            rng.fill_bytes(&mut v[..50_000]);
            v
        },
        {
            // references across 64KB block boundaries (for linked mode)
            let mut v = vec![0u8; 70_000];
            rng.fill_bytes(&mut v);
            let mut w = v.clone();
            w.extend_from_slice(&v);
            w.extend_from_slice(&v);
            w
        },
    ];
    for d in &datas {
        for linked in [false, true] {
            for bs in [BlockSize::Max64KB, BlockSize::Max256KB, BlockSize::Max1MB, BlockSize::Max4MB] {
                for (bc, cc, cs) in [(false, false, false), (true, true, true), (false, true, false)] {
                    corpus.push(frame(d, linked, bs, bc, cc, cs));
                }
            }
        }
    }
    // legacy magic
    corpus.push(vec![0x02, 0x21, 0x4c, 0x18, 3, 0, 0, 0, 0x10, b'a', 0]);
    // skippable
    corpus.push(vec![0x50, 0x2a, 0x4d, 0x18, 4, 0, 0, 0, 1, 2, 3, 4]);

    let mut panics = 0;
    let iters: usize = std::env::var("ITERS").ok().and_then(|s| s.parse().ok()).unwrap_or(300_000);
    for it in 0..iters {
        let base = &corpus[rng.gen_range(0..corpus.len())];
        let mut b = base.clone();
        match rng.gen_range(0..6) {
            0 => {
                if !b.is_empty() {
                    let n = rng.gen_range(1..4);
                    for _ in 0..n {
                        let lim = if rng.gen_bool(0.7) { 40 } else { usize::MAX };
                        let i = rng.gen_range(0..b.len().min(lim));
                        b[i] = rng.gen();
                    }
                }
            },
            1 => {
                let cut = rng.gen_range(0..=b.len());
                b.truncate(cut);
            },
            2 => {
                // concatenate with another frame
                let other = &corpus[rng.gen_range(0..corpus.len())];
                b.extend_from_slice(other);
                if rng.gen_bool(0.5) && !b.is_empty() {
                    let i = rng.gen_range(0..b.len());
                    b[i] ^= 1 << rng.gen_range(0..8);
                }
            },
            3 => {
                // splice middle of another
                let other = &corpus[rng.gen_range(0..corpus.len())];
                if !other.is_empty() && !b.is_empty() {
                    let at = rng.gen_range(0..b.len());
                    let from = rng.gen_range(0..other.len());
                    b.truncate(at);
                    b.extend_from_slice(&other[from..]);
                }
            },
            4 => {
                if b.len() > 12 {
                    // tweak block size word (first block header at offset 7 or 15)
                    let off = if rng.gen_bool(0.5) { 7 } else { 15 };
                    if b.len() > off + 4 {
                        let v: u32 = match rng.gen_range(0..5) {
                            0 => 0,
                            1 => 0x8000_0000,
                            2 => 0x7fff_ffff,
                            3 => rng.gen_range(0..70000),
                            _ => 0x8000_0000 | rng.gen_range(0..70000),
                        };
                        b[off..off + 4].copy_from_slice(&v.to_le_bytes());
                    }
                }
            },
            _ => {
                if b.len() > 6 {
                    b[4] = rng.gen();
                    b[5] = rng.gen();
                }
            },
        }
        if b.len() > 262144 {
            b.truncate(262144);
        }
        for scheme in [CompressionScheme::LZ4, CompressionScheme::ByteGrouping4LZ4] {
            let r = catch_unwind(AssertUnwindSafe(|| scheme.decompress_from_slice(&b).map(|c| c.len())));
            if let Err(e) = r {
                panics += 1;
                let msg = e.downcast_ref::<String>().cloned().or(e.downcast_ref::<&str>().map(|s| s.to_string())).unwrap_or_default();
                if panics < 20 {
                    println!("PANIC it={it} scheme={scheme:?} len={} msg={msg} head={:?}", b.len(), &b[..b.len().min(24)]);
                }
            }
        }
    }
    println!("iters={iters} panics={panics}");
    assert_eq!(panics, 0);
}

use std::io::Cursor;

use cas_object::*;
use merklehash::MerkleHash;
use rand::rngs::StdRng;
use rand::{RngCore, SeedableRng};

fn build(chunks: &[Vec<u8>], scheme: Option<CompressionScheme>) -> (MerkleHash, Vec<u8>) {
    let mut raw = vec![];
    let mut bounds = vec![];
    let mut hl = vec![];
    for d in chunks {
        let ch = merklehash::compute_data_hash(d);
        raw.extend_from_slice(d);
        bounds.push((ch, raw.len() as u32));
        hl.push((ch, d.len()));
    }
    let h = merkledb::aggregate_hashes::cas_node_hash(&hl);
    let mut buf = Cursor::new(Vec::new());
    CasObject::serialize(&mut buf, &h, &raw, &bounds, scheme).unwrap();
    (h, buf.into_inner())
}

fn check(name: &str, chunks: &[Vec<u8>], scheme: Option<CompressionScheme>) {
    let (h, bytes) = build(chunks, scheme);
    let s = CasObject::validate_cas_object(&mut Cursor::new(&bytes), &h);
    let mut rd = futures::io::Cursor::new(&bytes);
    let a = futures::executor::block_on(validate_cas_object_from_async_read(&mut rd, &h));
    let s_ok = matches!(s, Ok(Some(_)));
    let a_ok = matches!(a, Ok(Some(_)));
    println!("{name} scheme={scheme:?} len={} sync_ok={s_ok} stream_ok={a_ok}", bytes.len());
    if !s_ok {
        println!("   sync: {:?}", s.map(|o| o.is_some()));
    }
    if !a_ok {
        println!("   stream: {:?}", a.map(|o| o.is_some()));
    }
    let mut other = h;
    other[1] ^= 4;
    let s = CasObject::validate_cas_object(&mut Cursor::new(&bytes), &other);
    let mut rd = futures::io::Cursor::new(&bytes);
    let a = futures::executor::block_on(validate_cas_object_from_async_read(&mut rd, &other));
    assert!(matches!(s, Ok(None)), "{name} other hash sync");
    assert!(matches!(a, Ok(None)), "{name} other hash stream");
    assert!(s_ok && a_ok, "{name}");
}

fn rnd(rng: &mut StdRng, n: usize) -> Vec<u8> {
    let mut v = vec![0u8; n];
    rng.fill_bytes(&mut v);
    v
}

#[test]
fn valid_xorbs() {
    let mut rng = StdRng::seed_from_u64(1);
    let schemes = [None, Some(CompressionScheme::None), Some(CompressionScheme::LZ4), Some(CompressionScheme::ByteGrouping4LZ4)];
    for s in schemes {
        check("one byte", &[vec![7u8]], s);
        check("empty chunk", &[vec![]], s);
        check("empty+nonempty", &[vec![], vec![1, 2, 3], vec![]], s);
        check("max chunk zeros", &[vec![0u8; 131072]], s);
        check("max chunk random", &[rnd(&mut rng, 131072)], s);
        check("max chunk pattern", &[(0..131072u32).map(|i| (i % 251) as u8).collect()], s);
        let f32s: Vec<u8> = (0..32768).flat_map(|i| (1.0f32 + i as f32 * 1e-4).to_le_bytes()).collect();
        check("f32 max chunk", &[f32s.clone(), f32s.clone()], s);
        let many: Vec<Vec<u8>> = (0..8192u32).map(|i| i.to_le_bytes().to_vec()).collect();
        check("8192 tiny", &many, s);
        let dups: Vec<Vec<u8>> = (0..2048u32).map(|i| vec![(i % 2) as u8; 65536]).collect();
        check("2048 dup 64K (128MiB unpacked)", &dups, s);
        let lens: Vec<Vec<u8>> = (0..70usize).map(|i| vec![0xabu8; i]).collect();
        check("small lens", &lens, s);
    }
    let big: Vec<Vec<u8>> = (0..1024).map(|_| rnd(&mut rng, 65536)).collect();
    check("64MiB random", &big, None);
    check("64MiB random", &big, Some(CompressionScheme::LZ4));
}

use std::io::Cursor;
use std::panic::{catch_unwind, AssertUnwindSafe};

use cas_object::test_utils::*;
use cas_object::*;
use merklehash::MerkleHash;

fn make_xorb(n: u32, cs: ChunkSize, scheme: CompressionScheme) -> (MerkleHash, Vec<u8>, CasObject) {
    let (c, _cas_data, raw, bounds) = build_cas_object(n, cs, scheme);
    let mut buf = Cursor::new(Vec::new());
    CasObject::serialize(&mut buf, &c.info.cashash, &raw, &bounds, Some(scheme)).unwrap();
    (c.info.cashash, buf.into_inner(), c)
}

#[derive(Debug, Clone, PartialEq)]
enum Out {
    Accept(Box<CasObject>),
    Reject,
    Err(String),
    Panic(String),
}
impl Out {
    fn tag(&self) -> &'static str {
        match self {
            Out::Accept(_) => "ACCEPT",
            Out::Reject => "reject",
            Out::Err(_) => "err",
            Out::Panic(_) => "PANIC",
        }
    }
}

fn pmsg(e: Box<dyn std::any::Any + Send>) -> String {
    if let Some(s) = e.downcast_ref::<String>() {
        s.clone()
    } else if let Some(s) = e.downcast_ref::<&str>() {
        s.to_string()
    } else {
        "?".into()
    }
}

fn sync_v(data: &[u8], h: &MerkleHash) -> Out {
    let r = catch_unwind(AssertUnwindSafe(|| {
        let mut c = Cursor::new(data);
        CasObject::validate_cas_object(&mut c, h)
    }));
    match r {
        Ok(Ok(Some(c))) => Out::Accept(Box::new(c)),
        Ok(Ok(None)) => Out::Reject,
        Ok(Err(e)) => Out::Err(format!("{e}")),
        Err(e) => Out::Panic(pmsg(e)),
    }
}

fn stream_v(data: &[u8], h: &MerkleHash) -> Out {
    let r = catch_unwind(AssertUnwindSafe(|| {
        let mut rd = futures::io::Cursor::new(data);
        futures::executor::block_on(validate_cas_object_from_async_read(&mut rd, h))
    }));
    match r {
        Ok(Ok(Some((c, _)))) => Out::Accept(Box::new(c)),
        Ok(Ok(None)) => Out::Reject,
        Ok(Err(e)) => Out::Err(format!("{e}")),
        Err(e) => Out::Panic(pmsg(e)),
    }
}

fn deser(data: &[u8]) -> Out {
    let r = catch_unwind(AssertUnwindSafe(|| {
        let mut c = Cursor::new(data);
        CasObject::deserialize(&mut c)
    }));
    match r {
        Ok(Ok(c)) => Out::Accept(Box::new(c)),
        Ok(Err(e)) => Out::Err(format!("{e}")),
        Err(e) => Out::Panic(pmsg(e)),
    }
}

fn region(off: usize, cas: &CasObject, total: usize) -> String {
    let content = *cas.info.chunk_boundary_offsets.last().unwrap() as usize;
    if off < content {
        let mut start = 0usize;
        for (i, b) in cas.info.chunk_boundary_offsets.iter().enumerate() {
            if off < *b as usize {
                let rel = off - start;
                return if rel < 8 { format!("chunk{i}.hdr+{rel}") } else { format!("chunk{i}.data+{}", rel - 8) };
            }
            start = *b as usize;
        }
        unreachable!()
    } else if off >= total - 4 {
        format!("info_length+{}", off - (total - 4))
    } else {
        let f = off - content;
        let flen = total - 4 - content;
        format!("footer+{f} (from_end {})", flen - f)
    }
}

#[test]
fn fuzz_flips_and_truncations() {
    std::panic::set_hook(Box::new(|_| {}));
    let mut report: Vec<String> = vec![];
    let cases = [
        (1u32, ChunkSize::Fixed(40), CompressionScheme::None),
        (3, ChunkSize::Fixed(100), CompressionScheme::None),
        (3, ChunkSize::Fixed(300), CompressionScheme::LZ4),
        (4, ChunkSize::Random(50, 400), CompressionScheme::ByteGrouping4LZ4),
    ];
    for (n, cs, scheme) in cases {
        // make data compressible for LZ4 schemes by building manually
        let (h, bytes, cas) = if scheme == CompressionScheme::None {
            make_xorb(n, cs, scheme)
        } else {
            // compressible data
            let mut raw = vec![];
            let mut bounds = vec![];
            let mut chunks = vec![];
            for i in 0..n {
                let len = 200 + 37 * i as usize;
                let d: Vec<u8> = (0..len).map(|j| ((j / 16) as u8).wrapping_add(i as u8)).collect();
                let ch = merklehash::compute_data_hash(&d);
                raw.extend_from_slice(&d);
                bounds.push((ch, raw.len() as u32));
                chunks.push((ch, d.len()));
            }
            let h = merkledb::aggregate_hashes::cas_node_hash(&chunks);
            let mut buf = Cursor::new(Vec::new());
            let (c, _) = CasObject::serialize(&mut buf, &h, &raw, &bounds, Some(scheme)).unwrap();
            (h, buf.into_inner(), c)
        };
        // sanity
        assert_eq!(sync_v(&bytes, &h).tag(), "ACCEPT");
        assert_eq!(stream_v(&bytes, &h).tag(), "ACCEPT");
        let mut other = h;
        other[0] ^= 1;
        assert_eq!(sync_v(&bytes, &other).tag(), "reject");
        assert_eq!(stream_v(&bytes, &other).tag(), "reject");

        let total = bytes.len();
        for off in 0..total {
            for m in [0x01u8, 0x02, 0x04, 0x08, 0x10, 0x20, 0x40, 0x80, 0xff] {
                let mut b = bytes.clone();
                b[off] ^= m;
                let s = sync_v(&b, &h);
                let a = stream_v(&b, &h);
                let d = deser(&b);
                for (name, o) in [("sync", &s), ("stream", &a), ("deser", &d)] {
                    if let Out::Panic(p) = o {
                        report.push(format!("PANIC {name} {scheme:?} flip off={off} ({}) mask={m:#x}: {p}", region(off, &cas, total)));
                    }
                }
                if s.tag() == "ACCEPT" || a.tag() == "ACCEPT" {
                    report.push(format!(
                        "ACCEPTED-MUTANT {scheme:?} n={n} flip off={off} ({}) mask={m:#x}: sync={} stream={}",
                        region(off, &cas, total),
                        s.tag(),
                        a.tag()
                    ));
                }
            }
        }
        for cut in 0..total {
            let b = &bytes[..cut];
            let s = sync_v(b, &h);
            let a = stream_v(b, &h);
            let d = deser(b);
            for (name, o) in [("sync", &s), ("stream", &a), ("deser", &d)] {
                if let Out::Panic(p) = o {
                    report.push(format!("PANIC {name} {scheme:?} trunc at {cut}: {p}"));
                }
            }
            if s.tag() == "ACCEPT" || a.tag() == "ACCEPT" {
                report.push(format!(
                    "ACCEPTED-TRUNC {scheme:?} n={n} cut={cut} ({}): sync={} stream={}",
                    region(cut.min(total - 1), &cas, total),
                    s.tag(),
                    a.tag()
                ));
            }
        }
        // extension
        for extra in 1..20usize {
            let mut b = bytes.clone();
            b.extend(std::iter::repeat(0u8).take(extra));
            let s = sync_v(&b, &h);
            let a = stream_v(&b, &h);
            if s.tag() == "ACCEPT" || a.tag() == "ACCEPT" || s.tag() == "PANIC" || a.tag() == "PANIC" {
                report.push(format!("EXT {scheme:?} extra={extra}: sync={:?} stream={:?}", s.tag(), a.tag()));
            }
        }
    }
    for r in &report {
        println!("{r}");
    }
    println!("total report lines: {}", report.len());
}

//! C08 hunt demos: xorb validators vs. 32-bit offset arithmetic, and the zero-chunk object.
//!
//! Every test states what the property demands ("rejection or error, never a panic"; "accepted => the
//! footer matches the chunk data"; "both validators agree on a valid serialized xorb") and FAILS on the
//! unmodified source.
//!
//! Run (fast, keeps debug assertions + overflow checks: profile opt-test inherits dev):
//!   cargo test -p cas_object --offline --profile opt-test --test hunt_demo -- --test-threads=1 --nocapture
//! The plain dev profile works as well, it only takes longer (4 GiB are decompressed and hashed per test).

use std::io::{Cursor, Read, Seek, SeekFrom};
use std::panic::{catch_unwind, AssertUnwindSafe};
use std::pin::Pin;
use std::task::{Context, Poll};

use cas_object::error::CasObjectError;
use cas_object::{
    serialize_chunk, validate_cas_object_from_async_read, CasObject, CasObjectInfoV1, CompressionScheme,
};
use merkledb::aggregate_hashes::cas_node_hash;
use merklehash::{compute_data_hash, MerkleHash};

const MAX_CHUNK: usize = 128 * 1024; // merkledb::constants::MAXIMUM_CHUNK_SIZE, the validators' own per-chunk limit

fn panic_text(e: Box<dyn std::any::Any + Send>) -> String {
    e.downcast_ref::<String>()
        .cloned()
        .or_else(|| e.downcast_ref::<&str>().map(|s| s.to_string()))
        .unwrap_or_else(|| "<non-string panic>".into())
}

type SyncOutcome = Result<Result<Option<CasObject>, CasObjectError>, String>;
type StreamOutcome = Result<Result<Option<(CasObject, Option<usize>)>, CasObjectError>, String>;

fn sync_validate<R: Read + Seek>(r: &mut R, h: &MerkleHash) -> SyncOutcome {
    catch_unwind(AssertUnwindSafe(|| CasObject::validate_cas_object(r, h))).map_err(panic_text)
}

fn stream_validate<R: futures::io::AsyncRead + Unpin>(r: &mut R, h: &MerkleHash) -> StreamOutcome {
    catch_unwind(AssertUnwindSafe(|| futures::executor::block_on(validate_cas_object_from_async_read(r, h))))
        .map_err(panic_text)
}

fn strictly_increasing(v: &[u32]) -> bool {
    v.windows(2).all(|w| w[0] < w[1])
}

/// A well-formed V1 xorb: `n` chunks, each one `MAX_CHUNK` zero bytes stored LZ4-compressed (about 570 bytes
/// each).  Every chunk header is within the limits of CASChunkHeader::validate, every footer field is the
/// value the real serializer would write, except that the 32-bit running sums have no way to represent
/// offsets >= 2^32 and therefore hold the low 32 bits.
/// Returns (xorb bytes, length of the chunk region, xorb hash).
fn lz4_zero_xorb(n: usize) -> (Vec<u8>, usize, MerkleHash) {
    let chunk = vec![0u8; MAX_CHUNK];
    let chunk_hash = compute_data_hash(&chunk);
    let mut one = Vec::new();
    let one_len = serialize_chunk(&chunk, &mut one, Some(CompressionScheme::LZ4)).unwrap();
    assert_eq!(one_len, one.len());
    assert!(one.len() < 1024, "zeros compress well: {}", one.len());

    let mut bytes = Vec::with_capacity(n * one.len() + n * 40 + 200);
    let mut info = CasObjectInfoV1::default();
    let root = cas_node_hash(&vec![(chunk_hash, MAX_CHUNK); n]);
    info.cashash = root;
    info.num_chunks = n as u32;
    for i in 0..n {
        bytes.extend_from_slice(&one);
        info.chunk_hashes.push(chunk_hash);
        info.chunk_boundary_offsets.push(((i + 1) * one.len()) as u32);
        info.unpacked_chunk_offsets.push((((i + 1) * MAX_CHUNK) as u64) as u32); // low 32 bits
    }
    info.fill_in_boundary_offsets();
    let content_len = bytes.len();
    let mut w = Cursor::new(bytes);
    w.seek(SeekFrom::End(0)).unwrap();
    CasObject::serialize_given_info(&mut w, info).unwrap();
    (w.into_inner(), content_len, root)
}

// ---------------------------------------------------------------------------------------------------------
// Finding 1: a ~19 MB xorb whose chunks unpack to >= 4 GiB overflows the validators' u32 running sums.
// ---------------------------------------------------------------------------------------------------------

/// 32768 chunks x 128 KiB = exactly 2^32 unpacked bytes.
const N_4GIB: usize = 32768;

#[test]
fn f1a_sync_validator_must_not_panic_on_4gib_unpacked() {
    let (bytes, _, root) = lz4_zero_xorb(N_4GIB);
    println!("xorb is {} bytes, {} chunks", bytes.len(), N_4GIB);
    let out = sync_validate(&mut Cursor::new(&bytes), &root);
    match out {
        Err(p) => panic!("validate_cas_object PANICKED on a {}-byte input: {p}", bytes.len()),
        Ok(Ok(Some(cas))) => {
            // (what a build without overflow checks does) accepted: then the footer it returns must describe the chunks
            assert!(
                strictly_increasing(&cas.info.unpacked_chunk_offsets),
                "validate_cas_object ACCEPTED a footer whose unpacked offsets wrap around: last = {:?}",
                cas.info.unpacked_chunk_offsets.last()
            );
        },
        Ok(other) => println!("rejected / error, fine: {:?}", other.map(|_| ())),
    }
}

#[test]
fn f1b_stream_validator_with_footer_must_not_panic_on_4gib_unpacked() {
    let (bytes, _, root) = lz4_zero_xorb(N_4GIB);
    let out = stream_validate(&mut futures::io::Cursor::new(&bytes), &root);
    match out {
        Err(p) => panic!("validate_cas_object_from_async_read PANICKED on a {}-byte input: {p}", bytes.len()),
        Ok(Ok(Some((cas, _)))) => {
            assert!(
                strictly_increasing(&cas.info.unpacked_chunk_offsets),
                "stream validator ACCEPTED a footer whose unpacked offsets wrap around: last = {:?}",
                cas.info.unpacked_chunk_offsets.last()
            );
        },
        Ok(other) => println!("rejected / error, fine: {:?}", other.map(|_| ())),
    }
}

#[test]
fn f1c_stream_validator_without_footer_generates_wrapped_footer() {
    // Same chunks, footer cut off: the validator builds the footer itself (create_cas_object_from_parts) and
    // truncates the running sum with `as u32`.  This one misbehaves in every build profile.
    let (bytes, content_len, root) = lz4_zero_xorb(N_4GIB);
    let out = stream_validate(&mut futures::io::Cursor::new(&bytes[..content_len]), &root);
    match out {
        Err(p) => panic!("stream validator PANICKED: {p}"),
        Ok(Ok(Some((cas, go_back)))) => {
            assert_eq!(go_back, Some(0));
            let unp = &cas.info.unpacked_chunk_offsets;
            println!("accepted; generated unpacked offsets end with {:?}", &unp[unp.len() - 3..]);
            assert!(
                strictly_increasing(unp),
                "stream validator ACCEPTED the object and returned a generated footer that does not match the chunk \
                 data: the last unpacked offset is {} for {} unpacked bytes (uncompressed_chunk_length({}) would \
                 underflow)",
                unp.last().unwrap(),
                N_4GIB as u64 * MAX_CHUNK as u64,
                N_4GIB - 1
            );
        },
        Ok(other) => println!("rejected / error, fine: {:?}", other.map(|_| ())),
    }
}

// ---------------------------------------------------------------------------------------------------------
// Finding 1 (same class, compressed side): a footer-less stream of >= 4 GiB overflows the compressed boundary
// running sum of the stream validator.
// ---------------------------------------------------------------------------------------------------------

/// AsyncRead that yields `pattern` `repeat` times and then EOF.
struct Repeat {
    pattern: Vec<u8>,
    repeat: u64,
    pos: u64,
}
impl futures::io::AsyncRead for Repeat {
    fn poll_read(mut self: Pin<&mut Self>, _cx: &mut Context<'_>, buf: &mut [u8]) -> Poll<std::io::Result<usize>> {
        let total = self.pattern.len() as u64 * self.repeat;
        if self.pos >= total || buf.is_empty() {
            return Poll::Ready(Ok(0));
        }
        let off = (self.pos % self.pattern.len() as u64) as usize;
        let n = buf.len().min(self.pattern.len() - off).min((total - self.pos) as usize);
        buf[..n].copy_from_slice(&self.pattern[off..off + n]);
        self.pos += n as u64;
        Poll::Ready(Ok(n))
    }
}

#[test]
fn f1d_stream_validator_must_not_panic_on_4gib_stream() {
    // one uncompressed 128 KiB chunk = 131080 bytes on the wire; 32767 of them = 4_295_098_360 > u32::MAX
    let chunk: Vec<u8> = (0..MAX_CHUNK).map(|i| (i * 31 % 251) as u8).collect();
    let mut one = Vec::new();
    serialize_chunk(&chunk, &mut one, Some(CompressionScheme::None)).unwrap();
    assert_eq!(one.len(), MAX_CHUNK + 8);
    let n = 32767usize;
    let root = cas_node_hash(&vec![(compute_data_hash(&chunk), MAX_CHUNK); n]);
    let mut rd = Repeat {
        pattern: one,
        repeat: n as u64,
        pos: 0,
    };
    match stream_validate(&mut rd, &root) {
        Err(p) => panic!("stream validator PANICKED: {p}"),
        Ok(Ok(Some((cas, _)))) => assert!(
            strictly_increasing(&cas.info.chunk_boundary_offsets),
            "accepted with wrapped chunk_boundary_offsets: last = {:?}",
            cas.info.chunk_boundary_offsets.last()
        ),
        Ok(other) => println!("rejected / error, fine: {:?}", other.map(|_| ())),
    }
}

// ---------------------------------------------------------------------------------------------------------
// Finding 2: validate_cas_object compares stream positions after `as u32`; with an object of 2^32 bytes or more
// the "footer begins right after the last chunk" check is void (junk accepted) or panics.
// ---------------------------------------------------------------------------------------------------------

/// Read + Seek over  head ++ (gap zero bytes) ++ tail  without materialising the gap (what a sparse file or an
/// object-store range reader gives).
struct Sparse {
    head: Vec<u8>,
    gap: u64,
    tail: Vec<u8>,
    pos: u64,
}
impl Sparse {
    fn len(&self) -> u64 {
        self.head.len() as u64 + self.gap + self.tail.len() as u64
    }
}
impl Read for Sparse {
    fn read(&mut self, buf: &mut [u8]) -> std::io::Result<usize> {
        let h = self.head.len() as u64;
        if buf.is_empty() || self.pos >= self.len() {
            return Ok(0);
        }
        let n;
        if self.pos < h {
            let off = self.pos as usize;
            n = buf.len().min(self.head.len() - off);
            buf[..n].copy_from_slice(&self.head[off..off + n]);
        } else if self.pos < h + self.gap {
            n = (buf.len() as u64).min(h + self.gap - self.pos) as usize;
            buf[..n].fill(0);
        } else {
            let off = (self.pos - h - self.gap) as usize;
            n = buf.len().min(self.tail.len() - off);
            buf[..n].copy_from_slice(&self.tail[off..off + n]);
        }
        self.pos += n as u64;
        Ok(n)
    }
}
impl Seek for Sparse {
    fn seek(&mut self, s: SeekFrom) -> std::io::Result<u64> {
        let np: i128 = match s {
            SeekFrom::Start(p) => p as i128,
            SeekFrom::End(d) => self.len() as i128 + d as i128,
            SeekFrom::Current(d) => self.pos as i128 + d as i128,
        };
        if np < 0 {
            return Err(std::io::Error::new(std::io::ErrorKind::InvalidInput, "invalid seek to a negative position"));
        }
        self.pos = np as u64;
        Ok(self.pos)
    }
}

/// small valid xorb, split into (chunk region, footer + info_length)
fn small_valid_xorb() -> (Vec<u8>, Vec<u8>, MerkleHash) {
    let chunks: Vec<Vec<u8>> = vec![vec![1u8; 100], vec![2u8; 50], vec![3u8; 77]];
    let mut data = vec![];
    let mut cb = vec![];
    let mut hl = vec![];
    for c in &chunks {
        data.extend_from_slice(c);
        let h = compute_data_hash(c);
        cb.push((h, data.len() as u32));
        hl.push((h, c.len()));
    }
    let root = cas_node_hash(&hl);
    let mut w = Cursor::new(vec![]);
    let (cas, _) = CasObject::serialize(&mut w, &root, &data, &cb, Some(CompressionScheme::None)).unwrap();
    let bytes = w.into_inner();
    let content = cas.get_contents_length().unwrap() as usize;
    // sanity: the unmodified xorb is valid, and the same xorb with ONE junk byte spliced in is rejected
    assert!(CasObject::validate_cas_object(&mut Cursor::new(&bytes), &root).unwrap().is_some());
    let mut one_junk = bytes[..content].to_vec();
    one_junk.push(0);
    one_junk.extend_from_slice(&bytes[content..]);
    assert!(CasObject::validate_cas_object(&mut Cursor::new(&one_junk), &root).unwrap().is_none());
    (bytes[..content].to_vec(), bytes[content..].to_vec(), root)
}

#[test]
fn f2a_sync_validator_accepts_4gib_of_junk_between_chunks_and_footer() {
    let (head, tail, root) = small_valid_xorb();
    // exactly 2^32 junk bytes spliced between the last chunk and the footer
    let mut rd = Sparse {
        head,
        gap: 1u64 << 32,
        tail,
        pos: 0,
    };
    let out = sync_validate(&mut rd, &root);
    match out {
        Err(p) => panic!("validate_cas_object PANICKED: {p}"),
        Ok(Ok(Some(_))) => panic!(
            "validate_cas_object ACCEPTED an object of {} bytes that has 4 GiB of non-chunk bytes between the last \
             chunk and the footer (one spliced junk byte is rejected, 2^32 of them are not)",
            rd.len()
        ),
        Ok(other) => println!("rejected / error, fine: {:?}", other.map(|_| ())),
    }
}

#[test]
fn f2b_sync_validator_must_not_panic_on_object_of_exactly_4gib() {
    let (head, tail, root) = small_valid_xorb();
    // total length exactly 2^32: `len as u32` is 0 and `0 - info_length - 4` underflows
    let gap = (1u64 << 32) - head.len() as u64 - tail.len() as u64;
    let mut rd = Sparse {
        head,
        gap,
        tail,
        pos: 0,
    };
    assert_eq!(rd.len(), 1u64 << 32);
    match sync_validate(&mut rd, &root) {
        Err(p) => panic!("validate_cas_object PANICKED: {p}"),
        Ok(Ok(Some(_))) => panic!("accepted"),
        Ok(other) => println!("rejected / error, fine: {:?}", other.map(|_| ())),
    }
}

// ---------------------------------------------------------------------------------------------------------
// Finding 3: the zero-chunk object: the two validators disagree, and the stream validator accepts the empty byte
// string (and "XETBLOB\0" + anything) for the all-zero hash.
// ---------------------------------------------------------------------------------------------------------

#[test]
fn f3_zero_chunk_xorb_validators_disagree() {
    let root = cas_node_hash(&[]);
    assert_eq!(root, MerkleHash::default());
    let mut w = Cursor::new(vec![]);
    CasObject::serialize(&mut w, &root, &[], &[], None).unwrap();
    let bytes = w.into_inner();

    let s = sync_validate(&mut Cursor::new(&bytes), &root).unwrap().unwrap().is_some();
    let a = stream_validate(&mut futures::io::Cursor::new(&bytes), &root).unwrap().unwrap();
    let empty = stream_validate(&mut futures::io::Cursor::new(&[][..]), &root).unwrap().unwrap().is_some();
    let mut v0_junk = b"XETBLOB\0".to_vec();
    v0_junk.extend_from_slice(b"anything at all, never looked at");
    let junk = stream_validate(&mut futures::io::Cursor::new(&v0_junk), &root).unwrap().unwrap().is_some();
    println!("serialized zero-chunk xorb: sync accepts = {s}, stream accepts = {}", a.is_some());
    println!("empty byte string: stream accepts = {empty};  \"XETBLOB\\0\"+junk: stream accepts = {junk}");
    if let Some((cas, _)) = &a {
        // what the accepted object is worth to the rest of the crate
        println!("accepted object: get_contents_length() = {:?}", cas.get_contents_length().map_err(|e| e.to_string()));
    }
    assert_eq!(s, a.is_some(), "the two validators disagree on the serialized zero-chunk xorb");
    assert!(!empty && !junk, "the stream validator accepts a byte string without a single chunk");
}

// exploratory harness (not a deliverable)
use std::io::Cursor;
use std::panic::{catch_unwind, AssertUnwindSafe};

use cas_object::error::CasObjectError;
use cas_object::*;
use merkledb::aggregate_hashes::cas_node_hash;
use merklehash::MerkleHash;

fn sync_v(bytes: &[u8], h: &MerkleHash) -> Result<Result<Option<CasObject>, CasObjectError>, String> {
    catch_unwind(AssertUnwindSafe(|| CasObject::validate_cas_object(&mut Cursor::new(bytes), h)))
        .map_err(|e| format!("{:?}", e.downcast_ref::<String>().cloned().or(e.downcast_ref::<&str>().map(|s| s.to_string()))))
}
fn stream_v(
    bytes: &[u8],
    h: &MerkleHash,
) -> Result<Result<Option<(CasObject, Option<usize>)>, CasObjectError>, String> {
    catch_unwind(AssertUnwindSafe(|| {
        futures::executor::block_on(validate_cas_object_from_async_read(&mut futures::io::Cursor::new(bytes), h))
    }))
    .map_err(|e| format!("{:?}", e.downcast_ref::<String>().cloned().or(e.downcast_ref::<&str>().map(|s| s.to_string()))))
}
fn deser(bytes: &[u8]) -> Result<Result<CasObject, CasObjectError>, String> {
    catch_unwind(AssertUnwindSafe(|| CasObject::deserialize(&mut Cursor::new(bytes))))
        .map_err(|e| format!("{:?}", e.downcast_ref::<String>().cloned().or(e.downcast_ref::<&str>().map(|s| s.to_string()))))
}

/// independent decode: walk chunks from the start for `n` chunks; returns (chunks(hash,len), end offset)
fn walk(bytes: &[u8], n: usize) -> Option<(Vec<(MerkleHash, usize)>, usize)> {
    let mut c = Cursor::new(bytes);
    let mut out = vec![];
    for _ in 0..n {
        let (d, _, _) = deserialize_chunk(&mut c).ok()?;
        out.push((merklehash::compute_data_hash(&d), d.len()));
    }
    Some((out, c.position() as usize))
}

fn check_accept(tag: &str, bytes: &[u8], h: &MerkleHash, cas: &CasObject, with_footer: bool) {
    let n = cas.info.num_chunks as usize;
    let Some((chunks, end)) = walk(bytes, n) else { panic!("{tag}: accepted but chunks do not decode") };
    let root = cas_node_hash(&chunks);
    assert_eq!(&root, h, "{tag}: accepted but recomputed hash differs");
    assert_eq!(cas.info.cashash, *h, "{tag}");
    assert_eq!(cas.info.chunk_hashes, chunks.iter().map(|c| c.0).collect::<Vec<_>>(), "{tag}");
    let mut acc = 0u32;
    let unp: Vec<u32> = chunks
        .iter()
        .map(|c| {
            acc += c.1 as u32;
            acc
        })
        .collect();
    if cas.info.boundaries_version == 1 {
        assert_eq!(cas.info.unpacked_chunk_offsets, unp, "{tag}");
    }
    assert_eq!(*cas.info.chunk_boundary_offsets.last().unwrap_or(&0) as usize, end, "{tag}");
    if with_footer {
        assert_eq!(end + cas.info_length as usize + 4, bytes.len(), "{tag}: garbage");
    }
}

fn run_all(tag: &str, bytes: &[u8], h: &MerkleHash, stats: &mut (usize, usize, usize)) {
    match deser(bytes) {
        Err(p) => panic!("{tag}: deserialize PANIC {p}"),
        Ok(_) => {},
    }
    let s = sync_v(bytes, h);
    let a = stream_v(bytes, h);
    let s_acc = match &s {
        Err(p) => panic!("{tag}: sync PANIC {p}"),
        Ok(Ok(Some(c))) => {
            check_accept(&format!("{tag}/sync"), bytes, h, c, true);
            true
        },
        _ => false,
    };
    let a_acc = match &a {
        Err(p) => panic!("{tag}: stream PANIC {p}"),
        Ok(Ok(Some((c, gb)))) => {
            if gb.is_none() {
                check_accept(&format!("{tag}/stream"), bytes, h, c, true);
            } else {
                check_accept(&format!("{tag}/stream-nofooter"), bytes, h, c, false);
            }
            true
        },
        _ => false,
    };
    if s_acc != a_acc {
        println!("DIFF {tag}: sync={s_acc} stream={a_acc}  sync={:?} stream={:?}", s.as_ref().ok().map(|r| r.as_ref().map(|o| o.is_some()).map_err(|e| e.to_string())), a.as_ref().ok().map(|r| r.as_ref().map(|o| o.as_ref().map(|x| x.1)).map_err(|e| e.to_string())));
        stats.2 += 1;
    }
    stats.0 += 1;
    if s_acc || a_acc {
        stats.1 += 1;
    }
}

fn build(chunks: &[Vec<u8>], scheme: Option<CompressionScheme>) -> (Vec<u8>, MerkleHash, CasObject) {
    let mut data = vec![];
    let mut cb = vec![];
    let mut hl = vec![];
    for c in chunks {
        data.extend_from_slice(c);
        let h = merklehash::compute_data_hash(c);
        cb.push((h, data.len() as u32));
        hl.push((h, c.len()));
    }
    let root = cas_node_hash(&hl);
    let mut w = Cursor::new(vec![]);
    let (cas, _) = CasObject::serialize(&mut w, &root, &data, &cb, scheme).unwrap();
    (w.into_inner(), root, cas)
}

fn rnd(seed: u64, n: usize) -> Vec<u8> {
    let mut s = seed.wrapping_mul(0x9E3779B97F4A7C15) | 1;
    (0..n)
        .map(|_| {
            s ^= s << 13;
            s ^= s >> 7;
            s ^= s << 17;
            (s >> 24) as u8
        })
        .collect()
}

fn corpora() -> Vec<(String, Vec<Vec<u8>>, Option<CompressionScheme>)> {
    let mut v = vec![];
    for (si, scheme) in [Some(CompressionScheme::None), Some(CompressionScheme::LZ4), Some(CompressionScheme::ByteGrouping4LZ4), None]
        .into_iter()
        .enumerate()
    {
        v.push((format!("one-{si}"), vec![rnd(1, 50)], scheme));
        v.push((format!("three-{si}"), vec![rnd(1, 40), rnd(2, 33), rnd(3, 21)], scheme));
        v.push((format!("same-{si}"), vec![vec![7u8; 64]; 5], scheme));
        v.push((format!("zeros-{si}"), vec![vec![0u8; 300], vec![0u8; 300], vec![1u8; 10]], scheme));
        v.push((format!("emptychunk-{si}"), vec![rnd(4, 10), vec![], rnd(5, 10)], scheme));
        v.push((format!("onlyempty-{si}"), vec![vec![]], scheme));
        v.push((format!("many-{si}"), (0..40).map(|i| rnd(100 + i, 3 + (i as usize % 5))).collect(), scheme));
    }
    v
}

#[test]
fn valid_accepted_and_other_hash_rejected() {
    let mut stats = (0, 0, 0);
    for (name, chunks, scheme) in corpora() {
        let (bytes, root, _cas) = build(&chunks, scheme);
        let s = sync_v(&bytes, &root).unwrap().unwrap();
        assert!(s.is_some(), "{name} sync rejects valid");
        let a = stream_v(&bytes, &root).unwrap().unwrap();
        assert!(a.is_some(), "{name} stream rejects valid");
        run_all(&name, &bytes, &root, &mut stats);
        let mut other = root;
        other[0] ^= 1;
        assert!(sync_v(&bytes, &other).unwrap().unwrap().is_none());
        assert!(stream_v(&bytes, &other).unwrap().unwrap().is_none());
        // hash of another xorb
        let (_, r2, _) = build(&[rnd(99, 10)], scheme);
        assert!(sync_v(&bytes, &r2).unwrap().unwrap().is_none());
        assert!(stream_v(&bytes, &r2).unwrap().unwrap().is_none());
    }
    // zero chunk xorb
    let (bytes, root, _) = build(&[], None);
    println!("zero-chunk: len {} root {root:?}", bytes.len());
    println!(" sync -> {:?}", sync_v(&bytes, &root).map(|r| r.map(|o| o.is_some())));
    println!(" stream -> {:?}", stream_v(&bytes, &root).map(|r| r.map(|o| o.is_some())));
    println!(" stream(empty) -> {:?}", stream_v(&[], &root).map(|r| r.map(|o| o.is_some())));
}

#[test]
fn mutations() {
    let mut stats = (0, 0, 0);
    for (name, chunks, scheme) in corpora() {
        let (bytes, root, _cas) = build(&chunks, scheme);
        // truncation everywhere
        for cut in 0..bytes.len() {
            run_all(&format!("{name}/trunc{cut}"), &bytes[..cut], &root, &mut stats);
        }
        // byte flips everywhere (inputs are small)
        for pos in 0..bytes.len() {
            for x in [0x01u8, 0x02, 0x80, 0xff, 0x10] {
                let mut b = bytes.clone();
                b[pos] ^= x;
                run_all(&format!("{name}/flip{pos}^{x:x}"), &b, &root, &mut stats);
            }
            for val in [0u8, 1, 2, 0xff] {
                let mut b = bytes.clone();
                if b[pos] == val {
                    continue;
                }
                b[pos] = val;
                run_all(&format!("{name}/set{pos}={val:x}"), &b, &root, &mut stats);
            }
        }
        // append
        for extra in 1..12 {
            let mut b = bytes.clone();
            b.extend(std::iter::repeat(0u8).take(extra));
            run_all(&format!("{name}/app{extra}"), &b, &root, &mut stats);
        }
        // u32 word replacement at every 1-byte-aligned offset of the last 200 bytes
        let start = bytes.len().saturating_sub(400);
        for pos in start..bytes.len().saturating_sub(3) {
            for val in [0u32, 1, 0xffff_ffff, 0x7fff_ffff, 0x8000_0000, 0x0100_0000, 1152, 1153, 65536] {
                let mut b = bytes.clone();
                b[pos..pos + 4].copy_from_slice(&val.to_le_bytes());
                run_all(&format!("{name}/w{pos}={val:x}"), &b, &root, &mut stats);
            }
        }
    }
    println!("stats: total {} accepted {} diffs {}", stats.0, stats.1, stats.2);
}

#[test]
fn random_bytes() {
    let mut stats = (0, 0, 0);
    let root = MerkleHash::default();
    for seed in 0..20000u64 {
        let n = (seed % 300) as usize;
        let mut b = rnd(seed + 7, n);
        // bias: make first byte 0 (valid header version) & small lens often
        if seed % 2 == 0 && n >= 8 {
            b[0] = 0;
            b[2] = 0;
            b[3] = 0;
            b[4] %= 3;
            b[6] = 0;
            b[7] = 0;
        }
        if seed % 3 == 0 && n >= 8 {
            let k = n - 8;
            b[k..k + 7].copy_from_slice(b"XETBLOB");
            b[k + 7] = (seed % 4) as u8;
        }
        run_all(&format!("rnd{seed}"), &b, &root, &mut stats);
    }
    println!("stats: total {} accepted {} diffs {}", stats.0, stats.1, stats.2);
}

#[test]
fn big_xorb_cas_block_path() {
    // > TARGET_CAS_BLOCK_SIZE so that build_cas_nodes runs inside add_file
    for (label, chunks) in [
        ("random", (0..520u64).map(|i| rnd(i + 1000, 131072)).collect::<Vec<_>>()),
        ("repeated", (0..1100u64).map(|i| rnd((i % 3) + 5000, 131072)).collect::<Vec<_>>()),
        ("repeated-one", (0..600u64).map(|_| rnd(77, 131072)).collect::<Vec<_>>()),
    ] {
        let (bytes, root, _) = build(&chunks, Some(CompressionScheme::None));
        println!("{label}: {} bytes", bytes.len());
        let s = sync_v(&bytes, &root).unwrap().unwrap();
        assert!(s.is_some(), "{label} sync");
        let a = stream_v(&bytes, &root).unwrap().unwrap();
        assert!(a.is_some(), "{label} stream");
    }
}

#!/usr/bin/env python3
"""Regenerates MANIFEST.json from the table below (keep in sync with DESIGN.md)."""
import json
props=[json.loads(l)['id'] for l in open('/verif/properties.jsonl')]
SESSION_NOTE=("Trusted: the reference models in harness/labs/src/refmodel.rs (gear rule, keyed BLAKE3 merkle aggregation, frame decoder), "
  "sha2/blake3 crates, the LocalClient store as the observation point. Bounded: files are words over 8 atoms (<= 7 chunks) plus tails; "
  "operation-level interleaving only.")
C={
 "C01":dict(lab="lab_session",cat="exploration",tech="bounded exhaustive enumeration of upload/download scenarios (all atom words, op interleavings, session sequences, configurations) on the real pipeline",
   text="Every scenario of families F1-F6/FS (all words up to length 5 (quick) / 7 (thorough) over the atom alphabet, all interleavings of two files' op lists, all 2-/3-session combinations, all feed partitions) under 7-8 size-limit configurations is uploaded through the public API and every file of every session so far is downloaded in full and for boundary-adjacent byte ranges and compared byte-for-byte.",
   note=SESSION_NOTE, ref="4/C01"),
 "C02":dict(lab="lab_session",cat="exploration",tech="bounded exhaustive scenario enumeration + independent validator over the store's xorbs and shards",
   text="After every session of every enumerated scenario an independent validator re-decodes each stored xorb (repo decoder and reference frame decoder), recomputes xorb/file/verification hashes and SHA-256 from the referenced chunks with reference code, and checks every file record's references, index ranges and byte counts.",
   note=SESSION_NOTE, ref="4/C02"),
 "C03":dict(lab="lab_session",cat="exploration",tech="bounded exhaustive enumeration of contexts per content (feed partitions, interleavings, prior sessions, configurations, salts) with pointer equality oracle",
   text="Every content that occurs is cleaned in many contexts (alone, before/after other files, in later sessions, every feed partition incl. every single cut position, every op interleaving, several ingestion block sizes, 7-8 configurations, 3 salts); all pointers of equal (content, salt) must be identical, size = length, different salts give different hashes.",
   note=SESSION_NOTE+" Equality is checked within and across worker processes; agreement with the reference hash is informational here (C04/C06 own it).", ref="4/C03"),
 "C11":dict(lab="lab_session",cat="exploration",tech="bounded exhaustive enumeration of session sequences (re-upload unchanged / extended / recombined) with shard-index and new-bytes oracles",
   text="For every enumerated 2- and 3-session scenario: every chunk of every xorb the store received must be listed in a CAS section of the shard cache after finalize; with fragmentation prevention off an unchanged re-upload must report new_bytes = 0 and store no xorb, an extended one exactly the fresh chunks' bytes; with prevention on new bytes must be covered by defrag_prevented_dedup_bytes.",
   note=SESSION_NOTE, ref="4/C11"),
 "C14":dict(lab="lab_session",cat="exploration",tech="bounded exhaustive scenario enumeration with conservation equations on per-file and session metrics",
   text="For every file of every enumerated scenario: pointer size = total_bytes = bytes fed; new + deduped = total (bytes and chunks); withheld <= new; session metrics = sum of file metrics; total uploaded = shard + xorb; xorb/shard upload bytes bounded below by what appeared in the store (exact equality against put results is decided by the injected driver when built).",
   note=SESSION_NOTE, ref="4/C14"),
 "C15":dict(lab="lab_session",cat="exploration",tech="bounded exhaustive scenario enumeration (sizes at and one past each limit, many small files, 7-8 limit configurations) with limit oracle on every stored xorb",
   text="Every xorb the store received in every enumerated scenario is non-empty, within MAX_XORB_CHUNKS / MAX_XORB_BYTES / max chunk size of its configuration, accepted by the seekable validator; no file record (shards, finalize_with_file_info) carries the zero xorb hash.",
   note=SESSION_NOTE, ref="4/C15"),
}
checks=[]
for p in props:
    if p in C:
        c=C[p]
        checks.append({"property_id":p,"quick_cmd":f"./check {p} --tier quick","thorough_cmd":f"./check {p} --tier thorough",
          "evidence_file":f"/verif/evidence/{p}.json","replay_cmd_template":f"./check {p} --replay {{path}}","engine":c["lab"],
          "level_claimed":{"category":c["cat"],"text":c["text"],"design_ref":"DESIGN.md section "+c["ref"]},
          "level_note":c["note"],"technique":c["tech"]})
na=[{"property_id":p,"reason":"check not built yet (work in progress; see DESIGN.md section 6b) - not claimed until it is"} for p in props if p not in C]
m={"version":1,"setup_cmd":"./check --setup",
 "hooks":{"guard":"cargo feature `verif` (on utils, chunk_cache, cas_client, data; new inert crate verif_hooks)",
  "enable":"the harness crates under /verif/harness are cargo path-dependents of /repo/<crate> with features=[\"verif\"]; every ./check run does an incremental cargo build --offline first",
  "baseline_off_cmd":"cd /repo && cargo nextest run --workspace --no-fail-fast --offline",
  "source_commits":["f198c7b","5a597fe","61cee61","49b5b9d","fbaea1e","06d5c26"],"add_only":True},
 "engines":[
  {"name":"E1 vsched","path":"harness/vcore/src/sched.rs","serves_properties":["C12","C13","C20","C16"],"kind_free_text":"cooperative scheduler over real OS threads + stateless preemption-bounded DFS, replay-checked"},
  {"name":"E2 vfs","path":"harness/vcore/src/vfs.rs","serves_properties":["C12","C13","C18","C19"],"kind_free_text":"libc symbol interposition: FS switch points, crash snapshots, fake clock"},
  {"name":"E3 seqx / session lab","path":"harness/labs/src","serves_properties":["C01","C02","C03","C11","C14","C15"],"kind_free_text":"bounded exhaustive enumeration of operation histories and input shapes against Rust reference models"}],
 "checks":checks,"not_applicable":na,
 "notes":"Exit codes of every check: 0 held / 1 violation (VIOLATION line) / 2 machinery error. Known findings: /verif/KNOWN_FINDINGS.txt."}
json.dump(m,open('/verif/MANIFEST.json','w'),indent=1)
print(len(checks),"checks,",len(na),"not claimed")

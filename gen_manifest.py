#!/usr/bin/env python3
"""Regenerates MANIFEST.json from the table below (keep in sync with DESIGN.md)."""
import json
props=[json.loads(l)['id'] for l in open('/verif/properties.jsonl')]
SESSION_NOTE=("Trusted: the reference models in harness/labs/src/refmodel.rs (gear rule, keyed BLAKE3 merkle aggregation, frame decoder), "
  "sha2/blake3 crates, the LocalClient store as the observation point. Bounded: files are words over 8 atoms (<= 7 chunks) plus tails; "
  "operation-level interleaving only.")
C={
 "C01":dict(lab="lab_session",cat="exploration",tech="bounded exhaustive enumeration of upload/download scenarios (all atom words, op interleavings, session sequences, configurations) on the real pipeline",
   text="Every scenario of families F1-F6/FS (all words up to length 5 (quick) / 7 (thorough) over the atom alphabet, all interleavings of two files' op lists, all 2-/3-session combinations, all feed partitions) under 7-8 size-limit configurations is uploaded through the public API and every file of every session so far is downloaded in full and for boundary-adjacent byte ranges and compared byte-for-byte.",
   note=SESSION_NOTE, ref="4/C01"),
 "C02":dict(lab="lab_session",cat="exploration",tech="bounded exhaustive scenario enumeration + independent validator over the store's xorbs and shards",
   text="After every session of every enumerated scenario an independent validator re-decodes each stored xorb (repo decoder and reference frame decoder), recomputes xorb/file/verification hashes and SHA-256 from the referenced chunks with reference code, and checks every file record's references, index ranges and byte counts.",
   note=SESSION_NOTE, ref="4/C02"),
 "C03":dict(lab="lab_session",cat="exploration",tech="bounded exhaustive enumeration of contexts per content (feed partitions, interleavings, prior sessions, configurations, salts) with pointer equality oracle",
   text="Every content that occurs is cleaned in many contexts (alone, before/after other files, in later sessions, every feed partition incl. every single cut position, every op interleaving, several ingestion block sizes, 7-8 configurations, 3 salts); all pointers of equal (content, salt) must be identical, size = length, different salts give different hashes.",
   note=SESSION_NOTE+" Equality is checked within and across worker processes; agreement with the reference hash is informational here (C04/C06 own it).", ref="4/C03"),
 "C11":dict(lab="lab_session",cat="exploration",tech="bounded exhaustive enumeration of session sequences (re-upload unchanged / extended / recombined) with shard-index and new-bytes oracles",
   text="For every enumerated 2- and 3-session scenario: every chunk of every xorb the store received must be listed in a CAS section of the shard cache after finalize; with fragmentation prevention off an unchanged re-upload must report new_bytes = 0 and store no xorb, an extended one exactly the fresh chunks' bytes; with prevention on new bytes must be covered by defrag_prevented_dedup_bytes.",
   note=SESSION_NOTE, ref="4/C11"),
 "C14":dict(lab="lab_session",cat="exploration",tech="bounded exhaustive scenario enumeration with conservation equations on per-file and session metrics",
   text="For every file of every enumerated scenario: pointer size = total_bytes = bytes fed; new + deduped = total (bytes and chunks); withheld <= new; session metrics = sum of file metrics; total uploaded = shard + xorb; xorb/shard upload bytes bounded below by what appeared in the store (exact equality against put results is decided by the injected driver when built).",
   note=SESSION_NOTE, ref="4/C14"),
 "C15":dict(lab="lab_session",cat="exploration",tech="bounded exhaustive scenario enumeration (sizes at and one past each limit, many small files, 7-8 limit configurations) with limit oracle on every stored xorb",
   text="Every xorb the store received in every enumerated scenario is non-empty, within MAX_XORB_CHUNKS / MAX_XORB_BYTES / max chunk size of its configuration, accepted by the seekable validator; no file record (shards, finalize_with_file_info) carries the zero xorb hash.",
   note=SESSION_NOTE, ref="4/C15"),
}

SHARD_NOTE=("Trusted: the plain Rust reference model of shard records (harness/labs/src/shard_model.rs resp. the in-lab model of lab_shard_dedup.rs), blake3. "
  "Shard-level hashes are free 256-bit values, so truncated-prefix collisions are constructed. Bounded as stated in the evidence rule.")
C.update({
 "C05":dict(lab="lab_shard_dedup",cat="model_checking",tech="explicit-state BFS over ShardFileManager histories + exhaustive (shard, query-sequence) enumeration against a reference chunk-list model",
   text="Every dedup answer of the in-memory index, MDBShardInfo, MDBShardFile, keyed exports and ShardFileManager (after every add/flush/register/keyed-register/consolidate history up to depth 4 quick / 6 thorough, deduplicated by canonical state) for all query sequences of length <= 4 over a 5-hash alphabet with two colliding 64-bit prefix pairs (+ absent hashes) is checked for truthfulness against the recorded chunk lists; large shards to 3000 chunks and a 66000-chunk xorb.",
   note=SHARD_NOTE+" Soundness only (a miss is never a violation).", ref="4/C05"),
 "C18":dict(lab="lab_shard_dedup",cat="exploration",tech="bounded exhaustive enumeration of (shard, key, include-flags, directory mix) exports and of (creation, validity, grace, now) orderings under a fake clock",
   text="Every export of the small shard family under keys {zero,k1,k2} x all 8 include-flag combinations is re-parsed by an independent layout parser (keyed chunk hashes, no raw hash bytes, records kept/dropped as requested) and compared through ShardFileManager with the original; expiry instants around expiry and end-of-grace are executed with CLOCK_REALTIME interposed.",
   note=SHARD_NOTE+" Equality of answers demanded only on duplicate-free, collision-free shards; instants of equality are logged, not constrained.", ref="4/C18"),
 "C09":dict(lab="lab_shard_store",cat="exploration",tech="bounded exhaustive enumeration of shard contents and lookup-table shapes (incl. the >256-entry interpolation regime) against a BTreeMap reference, through every reader",
   text="Every small shard over a key alphabet with up to 8 records per truncated prefix and extreme keys, all flag combinations, and lookup tables of 255..1025 entries with every duplicate-run length/start position against 10 backgrounds is serialized by the real writer and read back through the seekable, streaming (sync/async), minimal and file-handle readers; every alphabet key is looked up and sizes/totals compared with the in-memory accounting.",
   note=SHARD_NOTE, ref="4/C09"),
 "C10":dict(lab="lab_shard_store",cat="model_checking",tech="all ordered shard pairs for union/difference + explicit-state BFS over session-directory histories (write shard / consolidate with 4 thresholds, every mtime order) against reference set semantics",
   text="All ordered pairs of a 54 (quick) / 242 (thorough) shard family through three set-operation APIs, and a BFS to depth 5/6 over directory histories with real consolidations in fresh directories; retrievable record set, returned names = content hash, deleted inputs covered by outputs.",
   note=SHARD_NOTE, ref="4/C10"),
 "C07":dict(lab="lab_xorb",cat="exploration",tech="bounded exhaustive enumeration of chunk lists x compression schemes with an independent frame decoder and all chunk ranges",
   text="All lists of <= 2 chunks over 20 lengths x 6 content classes (3-4 chunks over reduced alphabets, 1000 and 8192 tiny chunks) under {None, LZ4, BG4-LZ4, auto}: whole-object and every chunk-range read, offsets, footer, reference frame decoder, sync = async = stream decoders fed in 1/3/8/whole-byte pieces, bg4 split/regroup for lengths 0..67.",
   note="Trusted: reference frame decoder in refmodel.rs (uses the lz4_flex crate, as the code under test does), blake3.", ref="4/C07"),
 "C08":dict(lab="lab_xorb",cat="fault_enumeration",tech="exhaustive single-fault enumeration (byte xor/set, truncation at every offset, extension, chunk drop/dup/swap/splice, count/length fields) over 37 seed xorbs, in sub-processes under a counting allocator",
   text="Every enumerated mutation of every seed (v1 footer, v0 footer, footer-less; each scheme) and all short byte strings are given to both validators, CasObject::deserialize and the partial footer parser against the true and two wrong hashes: accept implies reference-decodable and hash-consistent; never a panic, > 64 MiB allocation or > 1 s.",
   note="Trusted: reference decoder/footer parser in refmodel.rs; validator disagreements are listed, not alarmed.", ref="4/C08"),
 "C12":dict(lab="lab_cache",cat="model_checking",tech="explicit-state BFS over put/get/reopen histories with every eviction victim + preemption-bounded exhaustive schedule exploration (own cooperative scheduler, switch points at lock hooks and interposed FS calls) + exhaustive single-fault damage enumeration",
   text="(a) all sequential histories to depth 3 (quick) / 4 (thorough) over 2 keys x 3 chunks and three capacity classes, every eviction choice; (b) every schedule with <= 2 (3 for two single-op threads, thorough) preemptions of 8 (quick) / 20 (thorough) forced-collision harnesses; (c) every bit burst {1,2,8,31,32}, truncation, extension, deletion, rename and planted junk at all three directory levels after 4/6 base histories: a hit must return the reference slice; never a panic or deadlock.",
   note="Trusted: hooks H2 (points before the state lock, eviction draw as environment choice), libc interposition for FS switch points; sequential consistency at switch-point granularity.", ref="4/C12"),
 "C13":dict(lab="lab_cache",cat="model_checking",tech="same exploration as C12 (sequential BFS + preemption-bounded schedules) with accounting oracles at every quiescent point",
   text="At every quiescent point of every explored history/schedule: num_items = tracked entries, total_bytes = sum of lengths, every cache file belongs to a tracked entry, totals = directory listing after read-back, total_bytes <= capacity after an insertion, state equal after reopen.",
   note="Trusted: read-only snapshot hook H2; same assumptions as C12.", ref="4/C13"),
 "C20":dict(lab="lab_singleflight",cat="model_checking",tech="preemption-bounded exhaustive schedule exploration of real Group::work callers under a cooperative scheduler (stateless DFS, replay-checked), history oracle",
   text="Every schedule with <= 2 (quick) / 3 (thorough; unbounded for two-caller harnesses) preemptions of 50 harnesses (2-3 callers x ok/err/panic tasks x 0/1 task yields, two keys, late caller): executed tasks = owners, every non-owner gets the outcome of an overlapping owner of its key, late calls start a new flight, no deadlock.",
   note="Trusted: hooks H1/H1b (points around singleflight's locks, controllable spawn with tokio's task contract); tokio's Notify/Mutex run unmodified; free-running pass on real runtimes is informational.", ref="4/C20"),
})

C.update({
 "C16":dict(lab="lab_inject",cat="fault_enumeration",tech="exhaustive enumeration of environment answers (completion order of gated store calls x which calls fail, up to a failure budget) on a single-threaded runtime around an injected validating store",
   text="For 6 (quick) / 12 (thorough) base scenarios x 3-5 configurations (MAX_CONCURRENT_UPLOADS 1..3, one or several shards): every sequence of {issue next driver op, release pending put/upload_shard j as success, as failure} with at most 0,1 (quick) / 0,1,2,all (thorough) failures. From the store's call log: no upload_shard starts before every xorb its file records name has a successful completed put; any failed store call makes some add_data/finish/finalize return Err; all-Ok sessions reconstruct byte-identically from the store; no hang, no panic.",
   note="Trusted: hooks H3/H4 (external Client, new_with_client); the driver stops at the first Err like in-repo callers; quiescence detection by yields is validated by re-running 1 in 16 executions.", ref="4/C16"),
})
C["C14"]["text"]+=" The exact equations xorb_bytes_uploaded = sum of put results and shard_bytes_uploaded = shard bytes handed over are decided by the injected driver (second command, evidence/C14x.json) over every completion order of the gated store calls."

C.update({
 "C19":dict(lab="lab_crash",cat="fault_enumeration",tech="exhaustive crash-point enumeration: libc interposition snapshots the tree before every mutating system call of the operation; every crash state is re-opened on a fresh copy by the real code",
   text="Shard flush / write_to_directory / consolidation (3 thresholds, 2-4 inputs), LocalClient::put, DiskCache::put (plain, subsuming, evicting) and whole upload sessions, each after every prior history of depth 1 (quick) / 2-3 (thorough) incl. histories whose last step was itself interrupted: for every crash state every file under a final name is consistent with its name, everything retrievable before the operation is still retrievable through the re-opened code, re-running the operation succeeds with the same retrievable set. Interposer completeness is proved against strace (--selfcheck, part of thorough).",
   note="Crash model = kill -9 between two system calls (completed calls persist, user-space buffers lost, no destructors); torn writes / fsync ordering / mmap stores out of scope. Trusted: vcore::vfs interposer (cross-checked with strace), reference shard model.", ref="4/C19"),
})
C["C11"]["text"]+=" Concurrent part (second command, evidence/C11c.json, hook H5 + E1): every schedule with <= 2 preemptions of 2-3 threads doing add_cas_block / add_file_reconstruction_info / flush / query on one real ShardFileManager with a tiny shard target; after the final flush every record whose add returned Ok must be in a shard file of the session."

C.update({
 "C04":dict(lab="lab_chunker",cat="exploration",tech="bounded exhaustive enumeration of streams x call partitions x API mixes against the reference gear rule",
   text="50 (quick) / 2608 (thorough) streams per target (constant, periodic, ramps, adversarial forced-cut / first-hashed-byte, LCG, each embedded at 3 offsets) for targets {128,1024,65536} / all powers of two 128..65536; every 2-partition (all cut positions up to 12 kB, windows + stride above), fixed steps 1..64 and max-1,max,max+1, boundary-adjacent 3-partitions, empty calls in every slot, next/next_block/finish mixes: concatenation, identical chunk lists across partitions, boundaries = reference rule, size bounds, suffix locality.",
   note="Trusted: reference gear rule in refmodel.rs (table constant from the gearhash crate), blake3. Streams up to 6 maximum chunks.", ref="4/C04"),
 "C06":dict(lab="lab_hash",cat="exploration",tech="bounded exhaustive enumeration of chunk lists (every fan-out pattern up to length 14/16), edits, text forms and write partitions against an independent implementation",
   text="Every cut/no-cut class pattern of length <= 14 (quick) / 16 (thorough) realised with real chunk bytes: cas_node_hash = reference = seekable validator = streaming validator; file and range hashes under 3 salts/keys; every single edit changes the aggregate; 625 structured values and 842 malformed texts for hex/base64; HashedWrite = one-shot for all partitions of strings <= 12 bytes, every 2-partition of 7 longer lengths and every sequence of <= 3 writes over 13 threshold sizes (1..65537).",
   note="Trusted: reference merkle aggregation / encoders in refmodel.rs, blake3. Collision resistance itself is assumed.", ref="4/C06"),
 "C17":dict(lab="lab_reconstruct",cat="model_checking",tech="exhaustive enumeration of plans x byte ranges x writer modes x cache modes with every completion order of the gated HTTP responses (in-process responder), against reference slices",
   text="Synthetic xorbs with distinct chunk sizes and position-dependent bytes served by an in-process HTTP responder with Range support and response gates: all term lists <= 2 (quick) / strata of <= 3 (thorough) incl. repeated xorbs and fetch ranges larger than / shared between terms, every boundary-adjacent (quick) / every (thorough strata) byte range, both writers, NUM_CONCURRENT_RANGE_GETS 1 and 16, cache off / cold / warm / fresh client on warm directory, every permutation of response release: output bytes = reference slice, reported length = bytes written, writers and cache modes agree.",
   note="Trusted: the lab's server-side planner and responder (self-tested with two sabotage modes), tiny_http. Assumes distinct fetch ranges have distinct URLs. Interleavings finer than HTTP-response order and cache eviction are not explored.", ref="4/C17"),
})


# ---- later extensions (kept as appended sentences so that the table above stays readable)
C["C14"]["text"]+=" Family F9 (words of up to 5/6 blocks of stored atoms re-uploaded over one stored xorb under the fragmentation-only configurations K9/K10 and K3) reaches refused dedup ranges whose later chunks are already pending; on an unchanged re-upload withheld must EQUAL new (bytes and chunks)."
for _p,_w in (("C01","every successful fault-free session must be reconstructible from what the injected store received"),("C03","every pointer must equal the reference pointer of its content"),("C15","every xorb handed to the injected client's put must be non-empty and within the configured limits")):
    C[_p]["text"]+=f" Second command (evidence/{_p}x.json): the injected driver explores every await-point interleaving of the operations of two or three concurrently cleaned files (up to two driver operations in flight, every release order of the gated store calls, no injected failure); {_w}."
C["C03"]["text"]+=" The empty content is judged like every other (its salt-independence is a recorded known finding)."
C["C04"]["text"]+=" A last call carrying is_final=true must itself flush: finish() afterwards must return nothing."
C["C05"]["text"]+=" One collection of 65542 shards registered in a fixed order (chunks at the same entry position in shards k and 65536+k) is queried as well."
C["C06"]["text"]+=" Family D: every list of <= 4/5 entries over 9 leaves sharing their first 64-bit word (with each other, the zero hash, a real chunk hash). HashedWrite also over a writer that answers short (1 byte / all but one) or Interrupted: every script over its first 4/5 calls with <= 2/3 such answers."
C["C06"]["tech"]+="; deviation-bounded enumeration of the underlying writer's answers (short write, Interrupted)"
C["C08"]["text"]+=" Valid xorbs of 1000..8192 chunks around the parser's 1152-chunk batch and its multiples must be accepted by both validators; crafted well-formed objects whose chunks unpack to 2^32 bytes (with and without footer) must be rejected without a panic. Forged stored chunks whose two length fields disagree come with a footer rebuilt for the lax reading. Thorough only: a lazily produced footer-less stream with one chunk more (107 374 182 empty chunks, 859 MB) than a footer's 32-bit section offsets can describe."
C["C18"]["text"]+=" Expiry pairs: two exports (kinds, validities, one or two originals, grace) side by side in one directory, every instant around either expiry and either end of grace, judged per export (scan, new manager before and after cleanup, deletion)."
C["C11"]["text"]+=" Family F11: the store already holds what this client uploads (another client with a shard cache of its own stored it); the upload must still be recorded, so that the client's own repeat session transfers nothing."
C["C10"]["text"]+=" The consolidation menu holds a xorbs-only shard without lookup tables (footer counts 0)."
C["C01"]["text"]+=" C01x also runs the concurrent scenario [abc,de,(empty)] under one upload permit."
C["C11"]["text"]+=" C11c also hands pre-written shard files to register_shards from two threads (register || register) and requires every registered shard to answer for its chunks."
C["C03"]["text"]+=" F2 also interleaves two files of which one repeats a run of its own pending chunks (also fed in two halves) while the other's xorb teaches the session shard part of that run."
C["C18"]["text"]+=" Expiry kind 3: a keyed export re-expired after it has aged (the validity counts from the re-export)."
C["C07"]["text"]+=" The stream decoder is also fed every piece as a non-contiguous buffer (a chain of its two halves)."
C["C13"]["text"]+=" Harness get||identical put over an item damaged while closed."
C["C16"]["text"]+=" Family inject-retry: the explored session (with its failures) is followed in the same process by a fault-free repeat, which is the one judged; scenario inject-conc2r: two cleaners that both register a xorb while the only permit is held."
C["C17"]["text"]+=" Downloads to an output path that cannot be created: an error, or Ok(n) with n bytes at the path."
C["C19"]["text"]+=" After a restart every complete cache item file still on disk must be tracked."
C["C20"]["text"]+=" History oracle: no task of a key starts while another task of that key is executing; four-caller harness (another key's caller returns between a task's end and its owner's return) over every non-preemptive choice (quick) / one preemption (thorough)."
C["C12"]["text"]+=" Damage alphabet also: renames to a narrower/wider range with the same start (then the items put again), planted key-directory-like names that begin with their prefix directory's characters."
C["C08"]["text"]+=" forge-sections: layout-1 footers whose sections disagree about the chunk count while every offset fits."
C["C01"]["text"]+=" C01x/C03x/C15x: four one-chunk files under one chunk per xorb and one permit (symmetry-reduced); a fault-free hang is a C01x violation."
C["C09"]["text"]+=" Every shard of up to 12 records is also built with every record added twice, and with a different record first replaced under each key: same bytes, shard_file_size() = serialized length."
C["C10"]["text"]+=" The family holds one file under three segmentations x all flag sets (acceptable merged records = one side's segments with that side's verification); thresholds include u64::MAX; the size estimate of in-memory union/difference results must equal the serialized size."
C["C10"]["tech"]=C["C10"]["tech"].replace("4 thresholds","5 thresholds incl. u64::MAX")
C["C12"]["text"]+=" Damaged directories are also re-opened with two smaller capacities (files left untracked by the scan) and the base items put again before everything is read."
C["C13"]["text"]+=" Harnesses include an evicting put with two victims in different key directories racing a put into one of those directories."
C["C16"]["text"]+=" Two drivers: the in-repo caller's (stops at the first Err) and a persisting one for the inject-persist scenarios (abandons only the file whose operation failed, goes on to finalize), under which the shard-after-its-xorbs clause is judged as well."
C["C16"]["note"]=C["C16"]["note"].replace("the driver stops at the first Err like in-repo callers;","two drivers (stop at the first Err like in-repo callers / abandon only the failed file);")
C["C20"]["text"]+=" Parked-caller harnesses (a parent polls a call once, awaits a call on another key, then drives the first to completion; schedule points inside the map-lock sections switched on) are explored delay-bounded as well."
C["C17"]["text"]+=" Plans with two fetch ranges of one xorb are also answered by a server that hands out ONE url per xorb (ranges differ in url_range only)."
C["C17"]["note"]=C["C17"]["note"].replace(" Assumes distinct fetch ranges have distinct URLs.","")

checks=[]
for p in props:
    if p in C:
        c=C[p]
        x2 = " && ./check C14x --tier {t}" if p=="C14" else (" && ./check C11c --tier {t}" if p=="C11" else (f" && ./check {p}x --tier {{t}}" if p in ("C01","C03","C15") else ""))
        checks.append({"property_id":p,"quick_cmd":f"./check {p} --tier quick"+x2.format(t="quick"),"thorough_cmd":f"./check {p} --tier thorough"+x2.format(t="thorough"),
          "evidence_file":f"/verif/evidence/{p}.json","replay_cmd_template":f"./check {p} --replay {{path}}","engine":c["lab"],
          "level_claimed":{"category":c["cat"],"text":c["text"],"design_ref":"DESIGN.md section "+c["ref"]},
          "level_note":c["note"],"technique":c["tech"]})
na=[{"property_id":p,"reason":"check not built yet (work in progress; see DESIGN.md section 6b) - not claimed until it is"} for p in props if p not in C]
m={"version":1,"setup_cmd":"./check --setup",
 "hooks":{"guard":"cargo feature `verif` (on utils, chunk_cache, cas_client, data, mdb_shard; new inert crate verif_hooks)",
  "enable":"the harness crates under /verif/harness are cargo path-dependents of /repo/<crate> with features=[\"verif\"]; every ./check run does an incremental cargo build --offline first",
  "baseline_off_cmd":"cd /repo && cargo nextest run --workspace --no-fail-fast --offline",
  "source_commits":["f198c7b","5a597fe","61cee61","49b5b9d","fbaea1e","06d5c26","10e9a05","cabe0fc","875100f","e0e88bd"],"add_only":True},
 "engines":[
  {"name":"E1 vsched","path":"harness/vcore/src/sched.rs","serves_properties":["C12","C13","C20","C16"],"kind_free_text":"cooperative scheduler over real OS threads + stateless preemption-bounded DFS, replay-checked"},
  {"name":"E2 vfs","path":"harness/vcore/src/vfs.rs","serves_properties":["C12","C13","C18","C19"],"kind_free_text":"libc symbol interposition: FS switch points, crash snapshots, fake clock"},
  {"name":"E3 seqx / session lab","path":"harness/labs/src","serves_properties":["C01","C02","C03","C11","C14","C15"],"kind_free_text":"bounded exhaustive enumeration of operation histories and input shapes against Rust reference models"}],
 "checks":checks,"not_applicable":na,
 "notes":"Exit codes of every check: 0 held / 1 violation (VIOLATION line) / 2 machinery error. Known findings: /verif/KNOWN_FINDINGS.txt."}
json.dump(m,open('/verif/MANIFEST.json','w'),indent=1)
print(len(checks),"checks,",len(na),"not claimed")

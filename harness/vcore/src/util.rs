//! Small deterministic utilities (no randomness anywhere in the harness).

use std::path::{Path, PathBuf};

/// 64-bit LCG (Knuth MMIX constants) — the only "noise" source; fully determined by its seed.
#[derive(Clone)]
pub struct Lcg(pub u64);
impl Lcg {
    pub fn new(seed: u64) -> Lcg {
        Lcg(seed.wrapping_mul(0x9E3779B97F4A7C15).wrapping_add(0x1234_5678_9ABC_DEF1))
    }
    pub fn next_u64(&mut self) -> u64 {
        self.0 = self.0.wrapping_mul(6364136223846793005).wrapping_add(1442695040888963407);
        let x = self.0;
        (x ^ (x >> 29)).wrapping_mul(0xBF58476D1CE4E5B9) ^ (x >> 32)
    }
    pub fn byte(&mut self) -> u8 {
        (self.next_u64() >> 24) as u8
    }
    pub fn bytes(&mut self, n: usize) -> Vec<u8> {
        (0..n).map(|_| self.byte()).collect()
    }
    pub fn below(&mut self, n: u64) -> u64 {
        self.next_u64() % n.max(1)
    }
}

pub fn hex(b: &[u8]) -> String {
    b.iter().map(|x| format!("{x:02x}")).collect()
}

/// Scratch root under /dev/shm, removed on drop.
pub struct Scratch {
    pub root: PathBuf,
    keep: bool,
}
impl Scratch {
    pub fn new(tag: &str) -> Scratch {
        let base = if Path::new("/dev/shm").is_dir() { PathBuf::from("/dev/shm") } else { std::env::temp_dir() };
        let root = base.join(format!("verif-{}-{}", tag, std::process::id()));
        let _ = std::fs::remove_dir_all(&root);
        std::fs::create_dir_all(&root).expect("create scratch");
        SCRATCH_ROOTS.lock().unwrap().push(root.clone());
        Scratch { root, keep: false }
    }
    pub fn keep(&mut self) {
        self.keep = true;
    }
    pub fn path(&self) -> &Path {
        &self.root
    }
    pub fn sub(&self, name: &str) -> PathBuf {
        let p = self.root.join(name);
        std::fs::create_dir_all(&p).expect("create scratch sub");
        p
    }
}
impl Drop for Scratch {
    fn drop(&mut self) {
        if !self.keep {
            // files may have been made read-only by the subject
            let _ = make_writable(&self.root);
            let _ = std::fs::remove_dir_all(&self.root);
        }
    }
}

static SCRATCH_ROOTS: std::sync::Mutex<Vec<PathBuf>> = std::sync::Mutex::new(Vec::new());

/// Removes every scratch root created by this process (called by `Run::finish`, which exits
/// without running destructors).
pub fn cleanup_scratch() {
    let roots: Vec<PathBuf> = std::mem::take(&mut *SCRATCH_ROOTS.lock().unwrap());
    for r in roots {
        let _ = make_writable(&r);
        let _ = std::fs::remove_dir_all(&r);
    }
}

pub fn make_writable(p: &Path) -> std::io::Result<()> {
    use std::os::unix::fs::PermissionsExt;
    if let Ok(md) = std::fs::symlink_metadata(p) {
        if md.is_dir() {
            let _ = std::fs::set_permissions(p, std::fs::Permissions::from_mode(0o755));
            for e in std::fs::read_dir(p)? {
                let _ = make_writable(&e?.path());
            }
        }
    }
    Ok(())
}

/// Recursive copy preserving file contents and modes (used for crash snapshots / reopen-on-copy).
pub fn copy_tree(src: &Path, dst: &Path) -> std::io::Result<()> {
    std::fs::create_dir_all(dst)?;
    for e in std::fs::read_dir(src)? {
        let e = e?;
        let ft = e.file_type()?;
        let to = dst.join(e.file_name());
        if ft.is_dir() {
            copy_tree(&e.path(), &to)?;
        } else if ft.is_file() {
            std::fs::copy(e.path(), &to)?;
        }
    }
    Ok(())
}

/// Sorted recursive listing: (relative path, is_dir, len).
pub fn list_tree(root: &Path) -> Vec<(String, bool, u64)> {
    fn rec(root: &Path, p: &Path, out: &mut Vec<(String, bool, u64)>) {
        let Ok(rd) = std::fs::read_dir(p) else { return };
        for e in rd.flatten() {
            let path = e.path();
            let rel = path.strip_prefix(root).unwrap().to_string_lossy().to_string();
            match e.file_type() {
                Ok(ft) if ft.is_dir() => {
                    out.push((rel, true, 0));
                    rec(root, &path, out);
                },
                Ok(_) => {
                    let len = e.metadata().map(|m| m.len()).unwrap_or(0);
                    out.push((rel, false, len));
                },
                Err(_) => {},
            }
        }
    }
    let mut out = vec![];
    rec(root, root, &mut out);
    out.sort();
    out
}

/// Text of a caught panic payload.
pub fn panic_text(p: &Box<dyn std::any::Any + Send>) -> String {
    p.downcast_ref::<String>()
        .cloned()
        .or_else(|| p.downcast_ref::<&str>().map(|s| s.to_string()))
        .unwrap_or_else(|| "<non-string panic>".to_string())
}

/// Silence the default panic hook for expected/caught panics (keeps worker stderr readable),
/// while remembering the last panic location for reports.
pub fn quiet_panics() {
    std::panic::set_hook(Box::new(|info| {
        let loc = info.location().map(|l| format!("{}:{}", l.file(), l.line())).unwrap_or_default();
        if std::env::var_os("LAB_LOUD_PANICS").is_some() {
            eprintln!("panic at {loc}: {}", info.payload().downcast_ref::<&str>().map(|s| s.to_string()).or_else(|| info.payload().downcast_ref::<String>().cloned()).unwrap_or_default());
        }
        LAST_PANIC_LOC.with(|c| *c.borrow_mut() = loc);
    }));
}
thread_local! { static LAST_PANIC_LOC: std::cell::RefCell<String> = const { std::cell::RefCell::new(String::new()) }; }
pub fn last_panic_loc() -> String {
    LAST_PANIC_LOC.with(|c| c.borrow().clone())
}

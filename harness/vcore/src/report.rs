//! Evidence, known-findings and replay-file handling, plus sub-process fan-out.
//!
//! Exit codes of every lab: 0 = property held on everything explored (known findings are
//! printed as `KNOWN-FINDING:` lines), 1 = at least one unlisted violation (`VIOLATION` line),
//! 2 = machinery error (never a verdict).

use std::collections::{BTreeMap, BTreeSet};
use std::io::Write;
use std::path::{Path, PathBuf};
use std::time::Instant;

use serde_json::{json, Map, Value};

/// Root for evidence/, replays/ and KNOWN_FINDINGS.txt (env VERIF_ROOT overrides; used only for development copies).
pub fn verif_root() -> PathBuf {
    if let Ok(v) = std::env::var("VERIF_ROOT") {
        return PathBuf::from(v);
    }
    // <root>/harness/target/debug/<lab>: a snapshot or copy of /verif writes into itself, not into /verif
    if let Ok(exe) = std::env::current_exe() {
        if let Some(root) = exe.ancestors().nth(4) {
            if root.join("harness").is_dir() && root.join("properties.jsonl").is_file() {
                return root.to_path_buf();
            }
        }
    }
    PathBuf::from("/verif")
}

#[derive(Clone, Copy, PartialEq, Eq, Debug)]
pub enum Tier {
    Quick,
    Thorough,
}
impl Tier {
    pub fn name(self) -> &'static str {
        match self {
            Tier::Quick => "quick",
            Tier::Thorough => "thorough",
        }
    }
    pub fn pick<T>(self, q: T, t: T) -> T {
        match self {
            Tier::Quick => q,
            Tier::Thorough => t,
        }
    }
}

/// Parsed command line shared by all labs.
#[derive(Clone, Debug)]
pub struct Args {
    pub prop: String,
    /// the tier that sizes the enumeration
    pub tier: Tier,
    /// the tier reported in the evidence (differs from `tier` only with --deep: cheap labs run their
    /// thorough enumeration already in the quick tier)
    pub report_tier: Tier,
    pub seed: u64,
    pub replay: Option<PathBuf>,
    pub worker: Option<String>,
    pub out: Option<PathBuf>,
    pub rest: Vec<String>,
}

impl Args {
    pub fn parse() -> Args {
        let mut a = Args {
            prop: String::new(),
            tier: match std::env::var("VERIF_TIER").as_deref() {
                Ok("thorough") => Tier::Thorough,
                _ => Tier::Quick,
            },
            report_tier: Tier::Quick,
            seed: std::env::var("VERIF_SEED").ok().and_then(|s| s.parse().ok()).unwrap_or(0),
            replay: None,
            worker: None,
            out: None,
            rest: vec![],
        };
        let mut deep = false;
        let mut it = std::env::args().skip(1);
        while let Some(x) = it.next() {
            match x.as_str() {
                "--prop" => a.prop = it.next().expect("--prop ID"),
                "--tier" => {
                    a.tier = match it.next().as_deref() {
                        Some("quick") => Tier::Quick,
                        Some("thorough") => Tier::Thorough,
                        o => machinery_error(&format!("bad --tier {o:?}")),
                    }
                },
                "--deep" => deep = true,
                "--replay" => a.replay = Some(PathBuf::from(it.next().expect("--replay PATH"))),
                "--worker" => a.worker = Some(it.next().expect("--worker SPEC")),
                "--out" => a.out = Some(PathBuf::from(it.next().expect("--out PATH"))),
                _ => a.rest.push(x),
            }
        }
        a.report_tier = a.tier;
        if deep {
            a.tier = Tier::Thorough;
        }
        a
    }
}

pub fn machinery_error(msg: &str) -> ! {
    crate::util::cleanup_scratch();
    eprintln!("MACHINERY-ERROR: {msg}");
    println!("MACHINERY-ERROR: {msg}");
    std::process::exit(2)
}

#[derive(Clone, Debug)]
pub struct FoundViolation {
    pub signature: String,
    pub what: String,
    pub replay: Value,
}

/// What a worker process (or an in-process sub-run) hands back to the parent.
#[derive(Default, Clone, Debug)]
pub struct Partial {
    pub counters: BTreeMap<String, u64>,
    pub violations: Vec<FoundViolation>,
    pub samples: Vec<Value>,
    /// distinct-case fingerprints (merged as a set by the parent)
    pub distinct: BTreeSet<String>,
    /// free-form facts for cross-worker oracles (merged as a set by the parent)
    pub facts: BTreeSet<String>,
    pub notes: Vec<String>,
}

impl Partial {
    pub fn count(&mut self, k: &str, n: u64) {
        *self.counters.entry(k.to_string()).or_default() += n;
    }
    pub fn max(&mut self, k: &str, n: u64) {
        let e = self.counters.entry(k.to_string()).or_default();
        if n > *e {
            *e = n;
        }
    }
    pub fn get(&self, k: &str) -> u64 {
        self.counters.get(k).copied().unwrap_or(0)
    }
    pub fn violation(&mut self, signature: &str, what: impl Into<String>, replay: Value) {
        // keep the first few per signature: the enumeration is simplest-first, so the first is the shortest
        let n = self.violations.iter().filter(|v| v.signature == signature).count();
        self.count(&format!("violations_seen[{signature}]"), 1);
        if n < 3 {
            self.violations.push(FoundViolation {
                signature: signature.to_string(),
                what: what.into(),
                replay,
            });
        }
    }
    pub fn sample(&mut self, v: Value) {
        if self.samples.len() < 6 {
            self.samples.push(v);
        }
    }
    pub fn distinct(&mut self, fp: impl Into<String>) {
        self.distinct.insert(fp.into());
    }
    pub fn merge(&mut self, o: Partial) {
        for (k, v) in o.counters {
            if k.starts_with("max:") {
                self.max(&k, v);
            } else {
                self.count(&k, v);
            }
        }
        for v in o.violations {
            let n = self.violations.iter().filter(|x| x.signature == v.signature).count();
            if n < 3 {
                self.violations.push(v);
            }
        }
        for s in o.samples {
            self.sample(s);
        }
        self.distinct.extend(o.distinct);
        self.facts.extend(o.facts);
        self.notes.extend(o.notes);
    }
    pub fn to_json(&self) -> Value {
        json!({
            "counters": self.counters,
            "violations": self.violations.iter().map(|v| json!({"signature": v.signature, "what": v.what, "replay": v.replay})).collect::<Vec<_>>(),
            "samples": self.samples,
            "distinct": self.distinct,
            "facts": self.facts,
            "notes": self.notes,
        })
    }
    pub fn from_json(v: &Value) -> Partial {
        let mut p = Partial::default();
        if let Some(m) = v["counters"].as_object() {
            for (k, x) in m {
                p.counters.insert(k.clone(), x.as_u64().unwrap_or(0));
            }
        }
        for x in v["violations"].as_array().cloned().unwrap_or_default() {
            p.violations.push(FoundViolation {
                signature: x["signature"].as_str().unwrap_or("").to_string(),
                what: x["what"].as_str().unwrap_or("").to_string(),
                replay: x["replay"].clone(),
            });
        }
        p.samples = v["samples"].as_array().cloned().unwrap_or_default();
        for x in v["distinct"].as_array().cloned().unwrap_or_default() {
            if let Some(s) = x.as_str() {
                p.distinct.insert(s.to_string());
            }
        }
        for x in v["facts"].as_array().cloned().unwrap_or_default() {
            if let Some(s) = x.as_str() {
                p.facts.insert(s.to_string());
            }
        }
        for x in v["notes"].as_array().cloned().unwrap_or_default() {
            if let Some(s) = x.as_str() {
                p.notes.push(s.to_string());
            }
        }
        p
    }
    /// Worker side: write the partial result where the parent asked for it.
    pub fn write_out(&self, out: &Path) {
        let tmp = out.with_extension("tmp");
        std::fs::write(&tmp, serde_json::to_vec(&self.to_json()).unwrap()).expect("write partial");
        std::fs::rename(&tmp, out).expect("rename partial");
    }
}

/// A job for [`fanout`]: the current executable is re-run with `args` and `env`.
#[derive(Clone, Debug)]
pub struct Job {
    pub name: String,
    pub env: Vec<(String, String)>,
    pub args: Vec<String>,
}

pub struct JobResult {
    pub job: Job,
    /// None = the worker died (exit status / signal text in `died`)
    pub partial: Option<Partial>,
    pub died: Option<String>,
    pub stderr_tail: String,
}

/// Runs jobs as sub-processes of the current executable, at most `par` at a time.
pub fn fanout(jobs: Vec<Job>, par: usize, scratch: &Path, timeout_s: u64) -> Vec<JobResult> {
    use std::process::{Command, Stdio};
    std::fs::create_dir_all(scratch).ok();
    let exe = std::env::current_exe().expect("current_exe");
    let n = jobs.len();
    let jobs = std::sync::Arc::new(std::sync::Mutex::new(jobs.into_iter().enumerate().collect::<Vec<_>>()));
    let results = std::sync::Arc::new(std::sync::Mutex::new(Vec::<(usize, JobResult)>::new()));
    let mut hs = vec![];
    for _ in 0..par.min(n).max(1) {
        let jobs = jobs.clone();
        let results = results.clone();
        let exe = exe.clone();
        let scratch = scratch.to_path_buf();
        hs.push(std::thread::spawn(move || loop {
            let next = {
                let mut g = jobs.lock().unwrap();
                if g.is_empty() {
                    None
                } else {
                    Some(g.remove(0))
                }
            };
            let Some((idx, job)) = next else { break };
            let out = scratch.join(format!("job{idx}.json"));
            let errp = scratch.join(format!("job{idx}.stderr"));
            let _ = std::fs::remove_file(&out);
            let errf = std::fs::File::create(&errp).expect("stderr file");
            let mut cmd = Command::new(&exe);
            cmd.args(&job.args).arg("--out").arg(&out);
            for (k, v) in &job.env {
                cmd.env(k, v);
            }
            cmd.env("NO_PROXY", "*").env("no_proxy", "*");
            cmd.stdin(Stdio::null()).stdout(Stdio::null()).stderr(errf);
            let mut child = cmd.spawn().expect("spawn worker");
            let t0 = Instant::now();
            let status = loop {
                match child.try_wait().expect("try_wait") {
                    Some(s) => break Some(s),
                    None => {
                        if t0.elapsed().as_secs() > timeout_s {
                            let _ = child.kill();
                            let _ = child.wait();
                            break None;
                        }
                        std::thread::sleep(std::time::Duration::from_millis(5));
                    },
                }
            };
            let stderr_tail = std::fs::read_to_string(&errp)
                .map(|s| {
                    let l: Vec<&str> = s.lines().collect();
                    l[l.len().saturating_sub(25)..].join("\n")
                })
                .unwrap_or_default();
            let partial = std::fs::read(&out)
                .ok()
                .and_then(|b| serde_json::from_slice::<Value>(&b).ok())
                .map(|v| Partial::from_json(&v));
            let died = match status {
                None => Some(format!("timeout after {timeout_s}s")),
                Some(s) if !s.success() => Some(format!("{s}")),
                Some(_) if partial.is_none() => Some("exited 0 without a result file".to_string()),
                _ => None,
            };
            let _ = std::fs::remove_file(&out);
            let _ = std::fs::remove_file(&errp);
            results.lock().unwrap().push((
                idx,
                JobResult {
                    job,
                    partial: if died.is_some() { None } else { partial },
                    died,
                    stderr_tail,
                },
            ));
        }));
    }
    for h in hs {
        h.join().unwrap();
    }
    let mut r = std::mem::take(&mut *results.lock().unwrap());
    r.sort_by_key(|x| x.0);
    r.into_iter().map(|x| x.1).collect()
}

struct Findings {
    /// (property, signature) -> what
    listed: BTreeMap<(String, String), String>,
}

fn load_findings() -> Findings {
    let mut listed = BTreeMap::new();
    let p = verif_root().join("KNOWN_FINDINGS.txt");
    if let Ok(s) = std::fs::read_to_string(p) {
        for line in s.lines() {
            let line = line.trim();
            // only "finding:" lines suppress; "fixed:" lines suppress nothing
            let Some(rest) = line.strip_prefix("finding:") else { continue };
            let mut prop = None;
            let mut sig = None;
            let mut what = vec![];
            for tok in rest.split_whitespace() {
                if let Some(x) = tok.strip_prefix("property=") {
                    prop = Some(x.to_string());
                } else if let Some(x) = tok.strip_prefix("signature=") {
                    sig = Some(x.to_string());
                } else {
                    what.push(tok);
                }
            }
            if let (Some(p), Some(s)) = (prop, sig) {
                listed.insert((p, s), what.join(" "));
            }
        }
    }
    Findings { listed }
}

/// One check run of one property.
pub struct Run {
    pub args: Args,
    pub prop: String,
    pub level: &'static str,
    pub all: Partial,
    pub coverage: Map<String, Value>,
    pub assumptions: Vec<String>,
    start: Instant,
    machinery: Vec<String>,
    /// evidence file stem when it differs from the property id (secondary evidence of a property)
    pub evidence_name: Option<String>,
}

impl Run {
    pub fn new(args: &Args, prop: &str, level: &'static str) -> Run {
        Run {
            args: args.clone(),
            prop: prop.to_string(),
            level,
            all: Partial::default(),
            coverage: Map::new(),
            assumptions: vec![],
            start: Instant::now(),
            machinery: vec![],
            evidence_name: None,
        }
    }
    pub fn tier(&self) -> Tier {
        self.args.tier
    }
    pub fn set(&mut self, k: &str, v: Value) {
        self.coverage.insert(k.to_string(), v);
    }
    pub fn assume(&mut self, s: &str) {
        self.assumptions.push(s.to_string());
    }
    pub fn machinery(&mut self, s: impl Into<String>) {
        self.machinery.push(s.into());
    }
    pub fn elapsed_s(&self) -> f64 {
        self.start.elapsed().as_secs_f64()
    }

    /// Writes evidence, prints verdict lines, exits.  `evaluations`/`rule` are required by the
    /// evidence schema; `distinct_nontrivial` is taken from the merged `distinct` set.
    pub fn finish(mut self, evaluations: u64, rule: &str, exhaustive: bool) -> ! {
        let findings = load_findings();
        let mut unlisted = 0usize;
        let mut known_printed = BTreeSet::new();
        let replay_dir = verif_root().join("replays").join(&self.prop);
        let mut vio_summaries = vec![];
        let vs = std::mem::take(&mut self.all.violations);
        for (i, v) in vs.iter().enumerate() {
            let key = (self.prop.clone(), v.signature.clone());
            if let Some(what) = findings.listed.get(&key) {
                if known_printed.insert(v.signature.clone()) {
                    println!("KNOWN-FINDING: property={} {} [signature={}]", self.prop, what, v.signature);
                }
                vio_summaries.push(json!({"signature": v.signature, "known": true, "what": v.what}));
                continue;
            }
            std::fs::create_dir_all(&replay_dir).ok();
            let san: String = v
                .signature
                .chars()
                .map(|c| if c.is_ascii_alphanumeric() || c == '-' || c == '_' || c == '.' { c } else { '_' })
                .take(80)
                .collect();
            let path = replay_dir.join(format!("{san}-{i}.json"));
            let body = json!({"property": self.prop, "signature": v.signature, "what": v.what, "replay": v.replay,
                "how": format!("cd /verif && ./check {} --replay {}", self.prop, path.display())});
            if let Ok(mut f) = std::fs::File::create(&path) {
                let _ = f.write_all(serde_json::to_string_pretty(&body).unwrap().as_bytes());
            }
            println!("VIOLATION property={} replay={}", self.prop, path.display());
            println!("  signature={} :: {}", v.signature, v.what);
            unlisted += 1;
            vio_summaries.push(json!({"signature": v.signature, "known": false, "what": v.what, "replay": path.display().to_string()}));
        }
        let distinct = self.all.distinct.len() as u64;
        let mut cov = std::mem::take(&mut self.coverage);
        cov.insert("evaluations".into(), json!(evaluations));
        cov.insert("distinct_nontrivial".into(), json!(distinct));
        cov.insert("rule".into(), json!(rule));
        cov.insert("exhaustive".into(), json!(exhaustive));
        if !cov.contains_key("samples") {
            let s = if self.all.samples.is_empty() { vec![json!("(no sample recorded)")] } else { self.all.samples.clone() };
            cov.insert("samples".into(), json!(s));
        }
        let mut counters = Map::new();
        let mut warnings = vec![];
        for (k, v) in &self.all.counters {
            counters.insert(k.clone(), json!(v));
            if k.starts_with("vac:") && *v == 0 {
                warnings.push(k.clone());
            }
        }
        cov.insert("counters".into(), Value::Object(counters));
        if !warnings.is_empty() {
            for w in &warnings {
                println!("VACUITY-WARNING: property={} counter {} is zero", self.prop, w);
            }
            cov.insert("vacuity_warnings".into(), json!(warnings));
        }
        if !self.all.notes.is_empty() {
            let mut notes = self.all.notes.clone();
            notes.truncate(40);
            cov.insert("notes".into(), json!(notes));
        }
        cov.insert("violation_list".into(), json!(vio_summaries));
        if !self.machinery.is_empty() {
            cov.insert("machinery_errors".into(), json!(self.machinery));
        }
        let ev = json!({
            "property_id": self.prop,
            "tier": self.args.report_tier.name(),
            "seed": self.args.seed,
            "level": self.level,
            "coverage": Value::Object(cov),
            "assumptions": self.assumptions,
            "wall_s": (self.start.elapsed().as_secs_f64() * 100.0).round() / 100.0,
            "violations": unlisted,
        });
        let evdir = verif_root().join("evidence");
        std::fs::create_dir_all(&evdir).ok();
        let evp = evdir.join(format!("{}.json", self.evidence_name.clone().unwrap_or_else(|| self.prop.clone())));
        if self.args.replay.is_none() {
            std::fs::write(&evp, serde_json::to_string_pretty(&ev).unwrap()).expect("write evidence");
        }
        println!(
            "{} tier={} evaluations={} distinct_nontrivial={} unlisted_violations={} known={} wall={:.1}s",
            self.prop,
            self.args.report_tier.name(),
            evaluations,
            distinct,
            unlisted,
            known_printed.len(),
            self.start.elapsed().as_secs_f64()
        );
        for m in &self.machinery {
            println!("MACHINERY-ERROR: {m}");
        }
        crate::util::cleanup_scratch();
        if unlisted > 0 {
            std::process::exit(1);
        }
        std::process::exit(if self.machinery.is_empty() { 0 } else { 2 })
    }
}

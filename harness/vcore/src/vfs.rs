//! E2: owning the file system and the clock by libc symbol interposition.
//!
//! `vcore::interpose!()` must be invoked once in each lab *binary* that needs it: it defines
//! `#[no_mangle] extern "C"` versions of the libc entry points that std (and every statically
//! linked crate) uses for file-system effects; each calls [`pre`] and then the real function
//! found with `dlsym(RTLD_NEXT)`.  Three services, all restricted to paths under a *watched
//! root*:
//!  * switch points for E1 (`sched::point`) before every path-based call of a scheduled thread;
//!  * crash enumeration: in record mode the tree is copied to `snap/<k>` before every mutating
//!    call (what a `kill -9` at that instant leaves behind under the process-crash model);
//!  * a call log (cross-checked against strace by the crash lab) and a fake `CLOCK_REALTIME`.

use std::cell::Cell;
use std::collections::BTreeMap;
use std::ffi::CStr;
use std::os::raw::{c_char, c_int};
use std::path::{Path, PathBuf};
use std::sync::atomic::{AtomicBool, AtomicI64, AtomicU64, Ordering};
use std::sync::Mutex;

pub struct Vfs {
    pub root: Option<Vec<u8>>,
    pub points: bool,
    pub snap_dir: Option<PathBuf>,
    pub snaps: u64,
    pub log: Vec<String>,
    pub log_on: bool,
    /// fds opened under the root -> absolute path they were opened with (attribution of fd-based
    /// writes, and resolution of `*at(dirfd, relative)` calls such as std's remove_dir_all)
    pub fds: BTreeMap<c_int, Vec<u8>>,
    /// fail the k-th (0-based) mutating call under the root with EIO (fault injection), if set
    pub fail_at: Option<u64>,
    pub mutating_seen: u64,
}

pub static VFS: Mutex<Vfs> = Mutex::new(Vfs {
    root: None,
    points: false,
    snap_dir: None,
    snaps: 0,
    log: Vec::new(),
    log_on: false,
    fds: BTreeMap::new(),
    fail_at: None,
    mutating_seen: 0,
});
static ACTIVE: AtomicBool = AtomicBool::new(false);
static FAKE_CLOCK_ON: AtomicBool = AtomicBool::new(false);
static FAKE_CLOCK_SECS: AtomicI64 = AtomicI64::new(0);
static FAKE_CLOCK_NANOS: AtomicI64 = AtomicI64::new(0);
pub static CALLS_SEEN: AtomicU64 = AtomicU64::new(0);

thread_local! { static IN_HOOK: Cell<bool> = const { Cell::new(false) }; }

pub struct HookGuard(bool);
impl HookGuard {
    pub fn enter() -> HookGuard {
        let prev = IN_HOOK.with(|c| c.replace(true));
        HookGuard(prev)
    }
}
impl Drop for HookGuard {
    fn drop(&mut self) {
        let p = self.0;
        IN_HOOK.with(|c| c.set(p));
    }
}
pub fn in_hook() -> bool {
    IN_HOOK.with(|c| c.get())
}

/// Watch `root` (canonical absolute path).  `points`: path calls of scheduled threads become
/// switch points.
pub fn watch(root: &Path, points: bool) {
    let mut v = VFS.lock().unwrap();
    v.root = Some(root.to_string_lossy().as_bytes().to_vec());
    v.points = points;
    v.snap_dir = None;
    v.snaps = 0;
    v.log.clear();
    v.fds.clear();
    v.fail_at = None;
    v.mutating_seen = 0;
    ACTIVE.store(true, Ordering::SeqCst);
}
pub fn unwatch() {
    ACTIVE.store(false, Ordering::SeqCst);
    let mut v = VFS.lock().unwrap();
    v.root = None;
    v.snap_dir = None;
    v.fds.clear();
}
/// Start recording crash snapshots into `snap_dir/<k>` (k from 0) and a call log.
pub fn record(snap_dir: &Path) {
    let mut v = VFS.lock().unwrap();
    v.snap_dir = Some(snap_dir.to_path_buf());
    v.snaps = 0;
    v.log.clear();
    v.log_on = true;
}
pub fn stop_record() -> (u64, Vec<String>) {
    let mut v = VFS.lock().unwrap();
    v.snap_dir = None;
    v.log_on = false;
    (v.snaps, std::mem::take(&mut v.log))
}
pub fn log_only(on: bool) {
    let mut v = VFS.lock().unwrap();
    v.log_on = on;
    if on {
        v.log.clear();
    }
}
pub fn take_log() -> Vec<String> {
    std::mem::take(&mut VFS.lock().unwrap().log)
}
pub fn set_clock(secs: Option<i64>) {
    match secs {
        Some(s) => {
            FAKE_CLOCK_SECS.store(s, Ordering::SeqCst);
            FAKE_CLOCK_NANOS.store(0, Ordering::SeqCst);
            FAKE_CLOCK_ON.store(true, Ordering::SeqCst);
        },
        None => FAKE_CLOCK_ON.store(false, Ordering::SeqCst),
    }
}
pub fn fake_clock() -> Option<(i64, i64)> {
    if FAKE_CLOCK_ON.load(Ordering::SeqCst) {
        Some((FAKE_CLOCK_SECS.load(Ordering::SeqCst), FAKE_CLOCK_NANOS.load(Ordering::SeqCst)))
    } else {
        None
    }
}

unsafe fn under_root(v: &Vfs, p: *const c_char) -> bool {
    if p.is_null() {
        return false;
    }
    let Some(root) = v.root.as_ref() else { return false };
    let b = CStr::from_ptr(p).to_bytes();
    b.len() >= root.len() && &b[..root.len()] == &root[..] && (b.len() == root.len() || b[root.len()] == b'/')
}

fn rel(v: &Vfs, p: *const c_char) -> String {
    if p.is_null() {
        return String::new();
    }
    let b = unsafe { CStr::from_ptr(p).to_bytes() };
    let r = v.root.as_ref().map(|r| r.len()).unwrap_or(0);
    String::from_utf8_lossy(&b[r.min(b.len())..]).to_string()
}

/// What the interposed function should do after `pre`.
pub enum Pre {
    Proceed,
    FailEio,
}

/// Called by every interposed path-based function before the real call.
/// `mutating`: the call changes the tree (create/rename/unlink/mkdir/rmdir/chmod/open-for-write…).
pub unsafe fn pre(name: &'static str, p1: *const c_char, p2: *const c_char, mutating: bool) -> Pre {
    if !ACTIVE.load(Ordering::Relaxed) || in_hook() {
        return Pre::Proceed;
    }
    let _g = HookGuard::enter();
    let (hit, points) = {
        let v = VFS.lock().unwrap();
        (under_root(&v, p1) || under_root(&v, p2), v.points)
    };
    if !hit {
        return Pre::Proceed;
    }
    CALLS_SEEN.fetch_add(1, Ordering::Relaxed);
    if points && crate::sched::scheduled() {
        crate::sched::point(name);
    }
    if mutating {
        return mutating_effect(name, p1, p2);
    }
    Pre::Proceed
}

/// Cheap fingerprint of the tree (names, kinds, lengths, mtimes) used to detect that another
/// thread changed the tree while a snapshot was being copied.
fn tree_stamp(root: &Path) -> Vec<(String, bool, u64, i128)> {
    fn rec(root: &Path, p: &Path, out: &mut Vec<(String, bool, u64, i128)>) {
        let Ok(rd) = std::fs::read_dir(p) else { return };
        for e in rd.flatten() {
            let path = e.path();
            let rel = path.strip_prefix(root).map(|r| r.to_string_lossy().to_string()).unwrap_or_default();
            let Ok(md) = std::fs::symlink_metadata(&path) else {
                out.push((rel, false, u64::MAX, -1));
                continue;
            };
            let mt = md
                .modified()
                .ok()
                .and_then(|t| t.duration_since(std::time::UNIX_EPOCH).ok())
                .map(|d| d.as_nanos() as i128)
                .unwrap_or(0);
            if md.is_dir() {
                out.push((rel, true, 0, 0));
                rec(root, &path, out);
            } else {
                out.push((rel, false, md.len(), mt));
            }
        }
    }
    let mut out = vec![];
    rec(root, root, &mut out);
    out.sort();
    out
}

/// Copies the watched tree to `dst`.  Other threads of the subject may be inside file-system
/// calls of their own: the copy is repeated until the tree's stamp is the same before and after
/// it, so every snapshot is a state the tree really had between two system calls.
fn snapshot(root: &Path, dst: &Path) {
    for attempt in 0..50 {
        let before = tree_stamp(root);
        if attempt > 0 {
            let _ = crate::util::make_writable(dst);
            let _ = std::fs::remove_dir_all(dst);
        }
        let ok = crate::util::copy_tree(root, dst).is_ok();
        let after = tree_stamp(root);
        if ok && before == after {
            return;
        }
        SNAP_RETRIES.fetch_add(1, Ordering::Relaxed);
    }
    SNAP_UNSTABLE.fetch_add(1, Ordering::Relaxed);
}
/// number of snapshot copies that had to be repeated / that never became stable (a lab must treat
/// the latter as a machinery error)
pub static SNAP_RETRIES: AtomicU64 = AtomicU64::new(0);
pub static SNAP_UNSTABLE: AtomicU64 = AtomicU64::new(0);

/// One mutating effect under the root is about to happen: count it, log it, snapshot the tree.
fn effect(mut v: std::sync::MutexGuard<'static, Vfs>, line: String) -> Pre {
    let k = v.mutating_seen;
    v.mutating_seen += 1;
    if v.log_on {
        v.log.push(line);
    }
    if let (Some(sd), Some(root)) = (v.snap_dir.clone(), v.root.clone()) {
        let n = v.snaps;
        v.snaps += 1;
        drop(v);
        let root = PathBuf::from(String::from_utf8_lossy(&root).to_string());
        let dst = sd.join(format!("{n}"));
        {
            // snapshots of concurrent effects are taken one at a time
            let _one = SNAP_LOCK.lock().unwrap_or_else(|e| e.into_inner());
            snapshot(&root, &dst);
        }
        v = VFS.lock().unwrap();
    }
    if v.fail_at == Some(k) {
        return Pre::FailEio;
    }
    Pre::Proceed
}
static SNAP_LOCK: Mutex<()> = Mutex::new(());

unsafe fn mutating_effect(name: &'static str, p1: *const c_char, p2: *const c_char) -> Pre {
    let v = VFS.lock().unwrap();
    let line = if p2.is_null() {
        format!("{name} {}", rel(&v, p1))
    } else if p1.is_null() {
        format!("{name} {}", rel(&v, p2))
    } else {
        format!("{name} {} -> {}", rel(&v, p1), rel(&v, p2))
    };
    effect(v, line)
}

/// fd-based mutating calls (write, pwrite, writev, ftruncate, fchmod, fchown, fallocate) on fds opened under the root.
pub unsafe fn pre_fd(name: &'static str, fd: c_int, len: usize) -> Pre {
    if !ACTIVE.load(Ordering::Relaxed) || in_hook() {
        return Pre::Proceed;
    }
    let _g = HookGuard::enter();
    let v = VFS.lock().unwrap();
    let Some(path) = v.fds.get(&fd) else {
        return Pre::Proceed;
    };
    let r = v.root.as_ref().map(|r| r.len()).unwrap_or(0);
    let line = format!("{name} {} len={len}", String::from_utf8_lossy(&path[r.min(path.len())..]));
    effect(v, line)
}

/// `*at(dirfd, relative path)`: the absolute path, when `dirfd` is a directory opened under the
/// root (std's remove_dir_all walks the tree this way).  None: use the path as given.
pub unsafe fn at_path(dirfd: c_int, p: *const c_char) -> Option<std::ffi::CString> {
    if p.is_null() || *p == b'/' as c_char || dirfd < 0 || !ACTIVE.load(Ordering::Relaxed) || in_hook() {
        return None;
    }
    let _g = HookGuard::enter();
    let v = VFS.lock().unwrap();
    let base = v.fds.get(&dirfd)?;
    let mut full = base.clone();
    let tail = CStr::from_ptr(p).to_bytes();
    if !tail.is_empty() && tail != b"." {
        full.push(b'/');
        full.extend_from_slice(tail);
    }
    std::ffi::CString::new(full).ok()
}

/// Record fds opened under the root so that fd-based writes can be attributed.
pub unsafe fn post_open(path: *const c_char, fd: c_int) {
    if fd < 0 || !ACTIVE.load(Ordering::Relaxed) || in_hook() {
        return;
    }
    let _g = HookGuard::enter();
    let mut v = VFS.lock().unwrap();
    if under_root(&v, path) {
        v.fds.insert(fd, CStr::from_ptr(path).to_bytes().to_vec());
    } else {
        v.fds.remove(&fd);
    }
}
pub unsafe fn post_close(fd: c_int) {
    if !ACTIVE.load(Ordering::Relaxed) || in_hook() {
        return;
    }
    let _g = HookGuard::enter();
    VFS.lock().unwrap().fds.remove(&fd);
}

pub unsafe fn real(name: &'static [u8]) -> *mut libc::c_void {
    let p = libc::dlsym(libc::RTLD_NEXT, name.as_ptr() as *const c_char);
    if p.is_null() {
        let _ = libc::write(2, b"vfs: dlsym failed\n".as_ptr() as *const libc::c_void, 18);
        libc::abort();
    }
    p
}

/// Defines the interposed libc symbols in the invoking *binary* crate.
#[macro_export]
macro_rules! interpose {
    () => {
        mod __vfs_interpose {
            #![allow(non_camel_case_types, clippy::missing_safety_doc)]
            use std::os::raw::{c_char, c_int, c_uint, c_void};
            use std::sync::atomic::{AtomicUsize, Ordering};

            use libc::{mode_t, off64_t, size_t, ssize_t};
            use $crate::vfs::{at_path, post_close, post_open, pre, pre_fd, real, Pre};

            macro_rules! realfn {
                ($name:literal, $ty:ty) => {{
                    static P: AtomicUsize = AtomicUsize::new(0);
                    let mut p = P.load(Ordering::Relaxed);
                    if p == 0 {
                        p = real(concat!($name, "\0").as_bytes()) as usize;
                        P.store(p, Ordering::Relaxed);
                    }
                    std::mem::transmute::<usize, $ty>(p)
                }};
            }
            unsafe fn eio() -> c_int {
                *libc::__errno_location() = libc::EIO;
                -1
            }
            fn open_mutates(flags: c_int) -> bool {
                (flags & (libc::O_CREAT | libc::O_TRUNC)) != 0
            }

            #[no_mangle]
            pub unsafe extern "C" fn open64(path: *const c_char, flags: c_int, mode: mode_t) -> c_int {
                if let Pre::FailEio = pre("open", path, std::ptr::null(), open_mutates(flags)) {
                    return eio();
                }
                let f = realfn!("open64", unsafe extern "C" fn(*const c_char, c_int, mode_t) -> c_int);
                let fd = f(path, flags, mode);
                post_open(path, fd);
                fd
            }
            #[no_mangle]
            pub unsafe extern "C" fn open(path: *const c_char, flags: c_int, mode: mode_t) -> c_int {
                if let Pre::FailEio = pre("open", path, std::ptr::null(), open_mutates(flags)) {
                    return eio();
                }
                let f = realfn!("open", unsafe extern "C" fn(*const c_char, c_int, mode_t) -> c_int);
                let fd = f(path, flags, mode);
                post_open(path, fd);
                fd
            }
            #[no_mangle]
            pub unsafe extern "C" fn openat(dirfd: c_int, path: *const c_char, flags: c_int, mode: mode_t) -> c_int {
                let abs = at_path(dirfd, path);
                let ap = abs.as_ref().map(|c| c.as_ptr()).unwrap_or(path);
                if let Pre::FailEio = pre("open", ap, std::ptr::null(), open_mutates(flags)) {
                    return eio();
                }
                let f = realfn!("openat", unsafe extern "C" fn(c_int, *const c_char, c_int, mode_t) -> c_int);
                let fd = f(dirfd, path, flags, mode);
                post_open(ap, fd);
                fd
            }
            #[no_mangle]
            pub unsafe extern "C" fn openat64(dirfd: c_int, path: *const c_char, flags: c_int, mode: mode_t) -> c_int {
                let abs = at_path(dirfd, path);
                let ap = abs.as_ref().map(|c| c.as_ptr()).unwrap_or(path);
                if let Pre::FailEio = pre("open", ap, std::ptr::null(), open_mutates(flags)) {
                    return eio();
                }
                let f = realfn!("openat64", unsafe extern "C" fn(c_int, *const c_char, c_int, mode_t) -> c_int);
                let fd = f(dirfd, path, flags, mode);
                post_open(ap, fd);
                fd
            }
            #[no_mangle]
            pub unsafe extern "C" fn close(fd: c_int) -> c_int {
                post_close(fd);
                let f = realfn!("close", unsafe extern "C" fn(c_int) -> c_int);
                f(fd)
            }
            #[no_mangle]
            pub unsafe extern "C" fn rename(a: *const c_char, b: *const c_char) -> c_int {
                if let Pre::FailEio = pre("rename", a, b, true) {
                    return eio();
                }
                let f = realfn!("rename", unsafe extern "C" fn(*const c_char, *const c_char) -> c_int);
                f(a, b)
            }
            #[no_mangle]
            pub unsafe extern "C" fn renameat(ad: c_int, a: *const c_char, bd: c_int, b: *const c_char) -> c_int {
                let (xa, xb) = (at_path(ad, a), at_path(bd, b));
                let (pa, pb) = (xa.as_ref().map(|c| c.as_ptr()).unwrap_or(a), xb.as_ref().map(|c| c.as_ptr()).unwrap_or(b));
                if let Pre::FailEio = pre("rename", pa, pb, true) {
                    return eio();
                }
                let f = realfn!("renameat", unsafe extern "C" fn(c_int, *const c_char, c_int, *const c_char) -> c_int);
                f(ad, a, bd, b)
            }
            #[no_mangle]
            pub unsafe extern "C" fn renameat2(ad: c_int, a: *const c_char, bd: c_int, b: *const c_char, fl: c_uint) -> c_int {
                let (xa, xb) = (at_path(ad, a), at_path(bd, b));
                let (pa, pb) = (xa.as_ref().map(|c| c.as_ptr()).unwrap_or(a), xb.as_ref().map(|c| c.as_ptr()).unwrap_or(b));
                if let Pre::FailEio = pre("rename", pa, pb, true) {
                    return eio();
                }
                let f = realfn!("renameat2", unsafe extern "C" fn(c_int, *const c_char, c_int, *const c_char, c_uint) -> c_int);
                f(ad, a, bd, b, fl)
            }
            #[no_mangle]
            pub unsafe extern "C" fn link(a: *const c_char, b: *const c_char) -> c_int {
                if let Pre::FailEio = pre("link", a, b, true) {
                    return eio();
                }
                let f = realfn!("link", unsafe extern "C" fn(*const c_char, *const c_char) -> c_int);
                f(a, b)
            }
            #[no_mangle]
            pub unsafe extern "C" fn linkat(ad: c_int, a: *const c_char, bd: c_int, b: *const c_char, fl: c_int) -> c_int {
                let (xa, xb) = (at_path(ad, a), at_path(bd, b));
                let (pa, pb) = (xa.as_ref().map(|c| c.as_ptr()).unwrap_or(a), xb.as_ref().map(|c| c.as_ptr()).unwrap_or(b));
                if let Pre::FailEio = pre("link", pa, pb, true) {
                    return eio();
                }
                let f = realfn!("linkat", unsafe extern "C" fn(c_int, *const c_char, c_int, *const c_char, c_int) -> c_int);
                f(ad, a, bd, b, fl)
            }
            #[no_mangle]
            pub unsafe extern "C" fn symlink(a: *const c_char, b: *const c_char) -> c_int {
                if let Pre::FailEio = pre("symlink", std::ptr::null(), b, true) {
                    return eio();
                }
                let f = realfn!("symlink", unsafe extern "C" fn(*const c_char, *const c_char) -> c_int);
                f(a, b)
            }
            #[no_mangle]
            pub unsafe extern "C" fn unlink(a: *const c_char) -> c_int {
                if let Pre::FailEio = pre("unlink", a, std::ptr::null(), true) {
                    return eio();
                }
                let f = realfn!("unlink", unsafe extern "C" fn(*const c_char) -> c_int);
                f(a)
            }
            #[no_mangle]
            pub unsafe extern "C" fn unlinkat(d: c_int, a: *const c_char, fl: c_int) -> c_int {
                let xa = at_path(d, a);
                let pa = xa.as_ref().map(|c| c.as_ptr()).unwrap_or(a);
                // AT_REMOVEDIR: this is rmdir
                let nm = if fl & libc::AT_REMOVEDIR != 0 { "rmdir" } else { "unlink" };
                if let Pre::FailEio = pre(nm, pa, std::ptr::null(), true) {
                    return eio();
                }
                let f = realfn!("unlinkat", unsafe extern "C" fn(c_int, *const c_char, c_int) -> c_int);
                f(d, a, fl)
            }
            #[no_mangle]
            pub unsafe extern "C" fn mkdir(a: *const c_char, m: mode_t) -> c_int {
                if let Pre::FailEio = pre("mkdir", a, std::ptr::null(), true) {
                    return eio();
                }
                let f = realfn!("mkdir", unsafe extern "C" fn(*const c_char, mode_t) -> c_int);
                f(a, m)
            }
            #[no_mangle]
            pub unsafe extern "C" fn rmdir(a: *const c_char) -> c_int {
                if let Pre::FailEio = pre("rmdir", a, std::ptr::null(), true) {
                    return eio();
                }
                let f = realfn!("rmdir", unsafe extern "C" fn(*const c_char) -> c_int);
                f(a)
            }
            #[no_mangle]
            pub unsafe extern "C" fn chmod(a: *const c_char, m: mode_t) -> c_int {
                if let Pre::FailEio = pre("chmod", a, std::ptr::null(), true) {
                    return eio();
                }
                let f = realfn!("chmod", unsafe extern "C" fn(*const c_char, mode_t) -> c_int);
                f(a, m)
            }
            #[no_mangle]
            pub unsafe extern "C" fn opendir(a: *const c_char) -> *mut libc::DIR {
                let _ = pre("opendir", a, std::ptr::null(), false);
                let f = realfn!("opendir", unsafe extern "C" fn(*const c_char) -> *mut libc::DIR);
                f(a)
            }
            #[no_mangle]
            pub unsafe extern "C" fn statx(d: c_int, a: *const c_char, fl: c_int, mask: c_uint, buf: *mut c_void) -> c_int {
                // std probes statx(0, NULL, ...) once; pre() is null-safe
                let _ = pre("stat", a, std::ptr::null(), false);
                let f = realfn!("statx", unsafe extern "C" fn(c_int, *const c_char, c_int, c_uint, *mut c_void) -> c_int);
                f(d, a, fl, mask, buf)
            }
            #[no_mangle]
            pub unsafe extern "C" fn stat64(a: *const c_char, buf: *mut c_void) -> c_int {
                let _ = pre("stat", a, std::ptr::null(), false);
                let f = realfn!("stat64", unsafe extern "C" fn(*const c_char, *mut c_void) -> c_int);
                f(a, buf)
            }
            #[no_mangle]
            pub unsafe extern "C" fn lstat64(a: *const c_char, buf: *mut c_void) -> c_int {
                let _ = pre("stat", a, std::ptr::null(), false);
                let f = realfn!("lstat64", unsafe extern "C" fn(*const c_char, *mut c_void) -> c_int);
                f(a, buf)
            }
            #[no_mangle]
            pub unsafe extern "C" fn write(fd: c_int, b: *const c_void, n: size_t) -> ssize_t {
                if let Pre::FailEio = pre_fd("write", fd, n) {
                    return eio() as ssize_t;
                }
                let f = realfn!("write", unsafe extern "C" fn(c_int, *const c_void, size_t) -> ssize_t);
                f(fd, b, n)
            }
            #[no_mangle]
            pub unsafe extern "C" fn pwrite64(fd: c_int, b: *const c_void, n: size_t, o: off64_t) -> ssize_t {
                if let Pre::FailEio = pre_fd("pwrite", fd, n) {
                    return eio() as ssize_t;
                }
                let f = realfn!("pwrite64", unsafe extern "C" fn(c_int, *const c_void, size_t, off64_t) -> ssize_t);
                f(fd, b, n, o)
            }
            #[no_mangle]
            pub unsafe extern "C" fn writev(fd: c_int, iov: *const libc::iovec, cnt: c_int) -> ssize_t {
                if let Pre::FailEio = pre_fd("writev", fd, cnt as usize) {
                    return eio() as ssize_t;
                }
                let f = realfn!("writev", unsafe extern "C" fn(c_int, *const libc::iovec, c_int) -> ssize_t);
                f(fd, iov, cnt)
            }
            #[no_mangle]
            pub unsafe extern "C" fn ftruncate64(fd: c_int, len: off64_t) -> c_int {
                if let Pre::FailEio = pre_fd("ftruncate", fd, len as usize) {
                    return eio();
                }
                let f = realfn!("ftruncate64", unsafe extern "C" fn(c_int, off64_t) -> c_int);
                f(fd, len)
            }
            #[no_mangle]
            pub unsafe extern "C" fn fchmod(fd: c_int, m: mode_t) -> c_int {
                if let Pre::FailEio = pre_fd("fchmod", fd, m as usize) {
                    return eio();
                }
                let f = realfn!("fchmod", unsafe extern "C" fn(c_int, mode_t) -> c_int);
                f(fd, m)
            }
            #[no_mangle]
            pub unsafe extern "C" fn copy_file_range(
                fi: c_int,
                oi: *mut off64_t,
                fo: c_int,
                oo: *mut off64_t,
                n: size_t,
                fl: c_uint,
            ) -> ssize_t {
                if let Pre::FailEio = pre_fd("copy_file_range", fo, n) {
                    return eio() as ssize_t;
                }
                let f = realfn!(
                    "copy_file_range",
                    unsafe extern "C" fn(c_int, *mut off64_t, c_int, *mut off64_t, size_t, c_uint) -> ssize_t
                );
                f(fi, oi, fo, oo, n, fl)
            }
            #[no_mangle]
            pub unsafe extern "C" fn creat(path: *const c_char, mode: mode_t) -> c_int {
                if let Pre::FailEio = pre("open", path, std::ptr::null(), true) {
                    return eio();
                }
                let f = realfn!("creat", unsafe extern "C" fn(*const c_char, mode_t) -> c_int);
                let fd = f(path, mode);
                post_open(path, fd);
                fd
            }
            #[no_mangle]
            pub unsafe extern "C" fn creat64(path: *const c_char, mode: mode_t) -> c_int {
                if let Pre::FailEio = pre("open", path, std::ptr::null(), true) {
                    return eio();
                }
                let f = realfn!("creat64", unsafe extern "C" fn(*const c_char, mode_t) -> c_int);
                let fd = f(path, mode);
                post_open(path, fd);
                fd
            }
            #[no_mangle]
            pub unsafe extern "C" fn mkdirat(d: c_int, a: *const c_char, m: mode_t) -> c_int {
                let xa = at_path(d, a);
                let pa = xa.as_ref().map(|c| c.as_ptr()).unwrap_or(a);
                if let Pre::FailEio = pre("mkdir", pa, std::ptr::null(), true) {
                    return eio();
                }
                let f = realfn!("mkdirat", unsafe extern "C" fn(c_int, *const c_char, mode_t) -> c_int);
                f(d, a, m)
            }
            #[no_mangle]
            pub unsafe extern "C" fn symlinkat(a: *const c_char, d: c_int, b: *const c_char) -> c_int {
                let xb = at_path(d, b);
                let pb = xb.as_ref().map(|c| c.as_ptr()).unwrap_or(b);
                if let Pre::FailEio = pre("symlink", std::ptr::null(), pb, true) {
                    return eio();
                }
                let f = realfn!("symlinkat", unsafe extern "C" fn(*const c_char, c_int, *const c_char) -> c_int);
                f(a, d, b)
            }
            #[no_mangle]
            pub unsafe extern "C" fn fchmodat(d: c_int, a: *const c_char, m: mode_t, fl: c_int) -> c_int {
                let xa = at_path(d, a);
                let pa = xa.as_ref().map(|c| c.as_ptr()).unwrap_or(a);
                if let Pre::FailEio = pre("chmod", pa, std::ptr::null(), true) {
                    return eio();
                }
                let f = realfn!("fchmodat", unsafe extern "C" fn(c_int, *const c_char, mode_t, c_int) -> c_int);
                f(d, a, m, fl)
            }
            #[no_mangle]
            pub unsafe extern "C" fn chown(a: *const c_char, u: libc::uid_t, g: libc::gid_t) -> c_int {
                if let Pre::FailEio = pre("chown", a, std::ptr::null(), true) {
                    return eio();
                }
                let f = realfn!("chown", unsafe extern "C" fn(*const c_char, libc::uid_t, libc::gid_t) -> c_int);
                f(a, u, g)
            }
            #[no_mangle]
            pub unsafe extern "C" fn lchown(a: *const c_char, u: libc::uid_t, g: libc::gid_t) -> c_int {
                if let Pre::FailEio = pre("chown", a, std::ptr::null(), true) {
                    return eio();
                }
                let f = realfn!("lchown", unsafe extern "C" fn(*const c_char, libc::uid_t, libc::gid_t) -> c_int);
                f(a, u, g)
            }
            #[no_mangle]
            pub unsafe extern "C" fn fchownat(d: c_int, a: *const c_char, u: libc::uid_t, g: libc::gid_t, fl: c_int) -> c_int {
                let xa = at_path(d, a);
                let pa = xa.as_ref().map(|c| c.as_ptr()).unwrap_or(a);
                if let Pre::FailEio = pre("chown", pa, std::ptr::null(), true) {
                    return eio();
                }
                let f = realfn!("fchownat", unsafe extern "C" fn(c_int, *const c_char, libc::uid_t, libc::gid_t, c_int) -> c_int);
                f(d, a, u, g, fl)
            }
            #[no_mangle]
            pub unsafe extern "C" fn fchown(fd: c_int, u: libc::uid_t, g: libc::gid_t) -> c_int {
                if let Pre::FailEio = pre_fd("fchown", fd, 0) {
                    return eio();
                }
                let f = realfn!("fchown", unsafe extern "C" fn(c_int, libc::uid_t, libc::gid_t) -> c_int);
                f(fd, u, g)
            }
            #[no_mangle]
            pub unsafe extern "C" fn truncate(a: *const c_char, len: libc::off_t) -> c_int {
                if let Pre::FailEio = pre("truncate", a, std::ptr::null(), true) {
                    return eio();
                }
                let f = realfn!("truncate", unsafe extern "C" fn(*const c_char, libc::off_t) -> c_int);
                f(a, len)
            }
            #[no_mangle]
            pub unsafe extern "C" fn truncate64(a: *const c_char, len: off64_t) -> c_int {
                if let Pre::FailEio = pre("truncate", a, std::ptr::null(), true) {
                    return eio();
                }
                let f = realfn!("truncate64", unsafe extern "C" fn(*const c_char, off64_t) -> c_int);
                f(a, len)
            }
            // the non-LFS names are what statically linked C code (LMDB) calls on x86_64
            #[no_mangle]
            pub unsafe extern "C" fn ftruncate(fd: c_int, len: libc::off_t) -> c_int {
                if let Pre::FailEio = pre_fd("ftruncate", fd, len as usize) {
                    return eio();
                }
                let f = realfn!("ftruncate", unsafe extern "C" fn(c_int, libc::off_t) -> c_int);
                f(fd, len)
            }
            #[no_mangle]
            pub unsafe extern "C" fn pwrite(fd: c_int, b: *const c_void, n: size_t, o: libc::off_t) -> ssize_t {
                if let Pre::FailEio = pre_fd("pwrite", fd, n) {
                    return eio() as ssize_t;
                }
                let f = realfn!("pwrite", unsafe extern "C" fn(c_int, *const c_void, size_t, libc::off_t) -> ssize_t);
                f(fd, b, n, o)
            }
            #[no_mangle]
            pub unsafe extern "C" fn pwritev(fd: c_int, iov: *const libc::iovec, cnt: c_int, o: libc::off_t) -> ssize_t {
                if let Pre::FailEio = pre_fd("pwritev", fd, cnt as usize) {
                    return eio() as ssize_t;
                }
                let f = realfn!("pwritev", unsafe extern "C" fn(c_int, *const libc::iovec, c_int, libc::off_t) -> ssize_t);
                f(fd, iov, cnt, o)
            }
            #[no_mangle]
            pub unsafe extern "C" fn pwritev64(fd: c_int, iov: *const libc::iovec, cnt: c_int, o: off64_t) -> ssize_t {
                if let Pre::FailEio = pre_fd("pwritev", fd, cnt as usize) {
                    return eio() as ssize_t;
                }
                let f = realfn!("pwritev64", unsafe extern "C" fn(c_int, *const libc::iovec, c_int, off64_t) -> ssize_t);
                f(fd, iov, cnt, o)
            }
            #[no_mangle]
            pub unsafe extern "C" fn fallocate(fd: c_int, mode: c_int, o: libc::off_t, len: libc::off_t) -> c_int {
                if let Pre::FailEio = pre_fd("fallocate", fd, len as usize) {
                    return eio();
                }
                let f = realfn!("fallocate", unsafe extern "C" fn(c_int, c_int, libc::off_t, libc::off_t) -> c_int);
                f(fd, mode, o, len)
            }
            #[no_mangle]
            pub unsafe extern "C" fn posix_fallocate(fd: c_int, o: libc::off_t, len: libc::off_t) -> c_int {
                if let Pre::FailEio = pre_fd("fallocate", fd, len as usize) {
                    return libc::EIO;
                }
                let f = realfn!("posix_fallocate", unsafe extern "C" fn(c_int, libc::off_t, libc::off_t) -> c_int);
                f(fd, o, len)
            }
            #[no_mangle]
            pub unsafe extern "C" fn clock_gettime(clk: libc::clockid_t, ts: *mut libc::timespec) -> c_int {
                if clk == libc::CLOCK_REALTIME {
                    if let Some((s, n)) = $crate::vfs::fake_clock() {
                        if !ts.is_null() {
                            (*ts).tv_sec = s as libc::time_t;
                            (*ts).tv_nsec = n as _;
                        }
                        return 0;
                    }
                }
                let f = realfn!("clock_gettime", unsafe extern "C" fn(libc::clockid_t, *mut libc::timespec) -> c_int);
                f(clk, ts)
            }
        }
    };
}

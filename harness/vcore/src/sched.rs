//! E1: cooperative scheduler over real OS threads + stateless, preemption-bounded DFS.
//!
//! Exactly one controlled thread holds the baton.  A thread can lose it only at a switch
//! point: `point()` (hooked lock acquisitions, interposed path-based file-system calls),
//! a `Pending` poll inside `block_on`, `join`, or thread exit.  `choose()` is an environment
//! decision (cost 0).  Every decision with more than one option is recorded; an execution is
//! identified by its list of choices, and can be replayed from any prefix.
//!
//! A second, thread-less mode (`with_script`) serves sequential labs: `controlled()` is true,
//! `point()` is a no-op and `choose()` reads a script, so environment choices (eviction victim)
//! can be enumerated for single-threaded histories as well.

use std::any::Any;
use std::cell::RefCell;
use std::collections::BTreeMap;
use std::future::Future;
use std::panic::{catch_unwind, resume_unwind, AssertUnwindSafe};
use std::pin::pin;
use std::sync::{Arc, Condvar, Mutex};
use std::task::{Context, Poll, Wake, Waker};
use std::time::{Duration, Instant};

#[derive(Clone, Copy, PartialEq, Debug)]
enum St {
    Enabled,
    Blocked,
    Finished,
}

#[derive(Clone, Debug)]
pub struct Decision {
    pub n: usize,
    pub chosen: usize,
    /// the deciding thread was still enabled (so a non-default choice is a preemption)
    pub cur_enabled: bool,
    pub env: bool,
    pub label: &'static str,
    pub tid: usize,
}

struct State {
    st: Vec<St>,
    woken: Vec<bool>,
    joiners: Vec<Vec<usize>>,
    running: usize,
    prefix: Vec<usize>,
    trace: Vec<Decision>,
    aborted: Option<String>,
    steps: usize,
    live_os_threads: usize,
    log: Vec<String>,
    horizon: usize,
    last_progress: Instant,
    /// one condvar per logical thread (all used with `Exec::m`): a hand-off wakes only its target
    cvs: Vec<Arc<Condvar>>,
    /// threads waiting for a lock held elsewhere: re-enabled as soon as another thread takes a step
    retry: Vec<bool>,
    /// see `set_fine_points`
    fine_points: bool,
}

pub struct Exec {
    m: Mutex<State>,
    /// the thread that started the execution waits here for it to end
    cv: Condvar,
}
struct AbortExec;

struct Script {
    choices: Vec<usize>,
    pos: usize,
    seen: Vec<(usize, usize, &'static str)>,
}

#[derive(Clone)]
enum Ctl {
    Sched(Arc<Exec>, usize),
    Script(Arc<Mutex<Script>>),
}

thread_local! { static CUR: RefCell<Option<Ctl>> = const { RefCell::new(None) }; }
fn cur() -> Option<Ctl> {
    CUR.with(|c| c.borrow().clone())
}
fn cur_sched() -> Option<(Arc<Exec>, usize)> {
    match cur() {
        Some(Ctl::Sched(e, t)) => Some((e, t)),
        _ => None,
    }
}
pub fn controlled() -> bool {
    cur().is_some()
}
/// True only on a scheduler-controlled thread (not in script mode).
pub fn scheduled() -> bool {
    cur_sched().is_some()
}
pub fn my_tid() -> Option<usize> {
    cur_sched().map(|x| x.1)
}
/// Observation log of the current execution (compared byte-for-byte on replay).
pub fn log(s: impl Into<String>) {
    if let Some((e, t)) = cur_sched() {
        e.m.lock().unwrap().log.push(format!("t{t}:{}", s.into()));
    }
}

impl Exec {
    /// Pick the next thread to run; called by the running thread `me` while it holds the baton.
    fn schedule(&self, g: &mut State, me: usize, label: &'static str) {
        self.schedule_x(g, me, label, false)
    }

    /// `voluntary`: the thread offers the baton (a yield); switching away is not a preemption.
    fn schedule_x(&self, g: &mut State, me: usize, label: &'static str, voluntary: bool) {
        // `me` has just taken a step: threads that wait for a lock held elsewhere may try again
        // (a thread that is itself only re-trying a lock has made no progress and wakes nobody,
        // otherwise two waiters would keep waking each other and starve the lock holder)
        for t in 0..g.st.len() {
            if !g.retry[me] && t != me && g.retry[t] {
                g.retry[t] = false;
                if g.st[t] == St::Blocked {
                    g.st[t] = St::Enabled;
                }
            }
        }
        let cur_enabled = g.st[me] == St::Enabled;
        let mut opts: Vec<usize> = Vec::new();
        if cur_enabled {
            opts.push(me);
        }
        for (i, s) in g.st.iter().enumerate() {
            if *s == St::Enabled && i != me {
                opts.push(i);
            }
        }
        g.steps += 1;
        g.last_progress = Instant::now();
        if g.steps > g.horizon {
            g.aborted = Some(format!("horizon: more than {} scheduling steps (livelock?)", g.horizon));
        }
        if opts.is_empty() {
            if g.st.iter().any(|s| *s == St::Blocked) {
                let b: Vec<usize> = g.st.iter().enumerate().filter(|(_, s)| **s == St::Blocked).map(|(i, _)| i).collect();
                g.aborted = Some(format!("deadlock: no enabled thread, blocked={b:?}"));
            }
            g.running = usize::MAX;
            return;
        }
        let choice = if opts.len() == 1 {
            0
        } else {
            let pos = g.trace.len();
            let c = if pos < g.prefix.len() { g.prefix[pos] } else { 0 };
            if c >= opts.len() {
                g.aborted = Some(format!("replay-divergence: decision {pos} wants option {c} of {}", opts.len()));
                g.running = usize::MAX;
                return;
            }
            g.trace.push(Decision {
                n: opts.len(),
                chosen: c,
                cur_enabled: cur_enabled && !voluntary,
                env: false,
                label,
                tid: me,
            });
            c
        };
        g.running = opts[choice];
    }

    /// Wakes whoever has to act next: the thread holding the baton, or everybody after an abort.
    fn wake(&self, g: &State) {
        if g.aborted.is_some() {
            for c in &g.cvs {
                c.notify_all();
            }
        } else if g.running != usize::MAX {
            g.cvs[g.running].notify_all();
        }
        self.cv.notify_all();
    }

    fn wait_for_baton(&self, me: usize) {
        let mut g = self.m.lock().unwrap();
        loop {
            if g.aborted.is_some() {
                drop(g);
                resume_unwind(Box::new(AbortExec));
            }
            if g.running == me {
                return;
            }
            let cv = g.cvs[me].clone();
            g = cv.wait(g).unwrap();
        }
    }
}

/// A switch point.  No-op on uncontrolled threads and in script mode.
pub fn point(label: &'static str) {
    let Some((e, me)) = cur_sched() else { return };
    {
        let mut g = e.m.lock().unwrap();
        if g.aborted.is_some() || std::thread::panicking() {
            // unwinding after an abort / panic: let destructors run freely
            return;
        }
        e.schedule(&mut g, me, label);
        e.wake(&g);
    }
    e.wait_for_baton(me);
}

/// The calling thread cannot progress until another thread has taken a step (it found a lock
/// held by a thread that is suspended inside its critical section): it is disabled until then.
/// With no other enabled thread this is a deadlock, as it would be for real.
pub fn wait_for_others(label: &'static str) {
    let Some((e, me)) = cur_sched() else {
        std::thread::yield_now();
        return;
    };
    {
        let mut g = e.m.lock().unwrap();
        if g.aborted.is_some() {
            drop(g);
            resume_unwind(Box::new(AbortExec));
        }
        g.st[me] = St::Blocked;
        g.retry[me] = true;
        e.schedule(&mut g, me, label);
        e.wake(&g);
    }
    e.wait_for_baton(me);
}

/// A voluntary yield: a switch point whose alternatives cost no preemption.
pub fn yield_now(label: &'static str) {
    let Some((e, me)) = cur_sched() else { return };
    {
        let mut g = e.m.lock().unwrap();
        if g.aborted.is_some() || std::thread::panicking() {
            return;
        }
        e.schedule_x(&mut g, me, label, true);
        e.wake(&g);
    }
    e.wait_for_baton(me);
}

/// An environment choice (cost 0 in the preemption bound).
pub fn choose(label: &'static str, n: usize) -> usize {
    if n <= 1 {
        return 0;
    }
    match cur() {
        None => 0,
        Some(Ctl::Script(s)) => {
            let mut s = s.lock().unwrap();
            let c = if s.pos < s.choices.len() { s.choices[s.pos] } else { 0 };
            let c = if c < n { c } else { n - 1 };
            s.pos += 1;
            s.seen.push((n, c, label));
            c
        },
        Some(Ctl::Sched(e, me)) => {
            let mut g = e.m.lock().unwrap();
            if g.aborted.is_some() {
                return 0;
            }
            let pos = g.trace.len();
            let c = if pos < g.prefix.len() { g.prefix[pos] } else { 0 };
            if c >= n {
                g.aborted = Some(format!("replay-divergence: env decision {pos} wants {c} of {n}"));
                e.wake(&g);
                drop(g);
                resume_unwind(Box::new(AbortExec));
            }
            g.trace.push(Decision {
                n,
                chosen: c,
                cur_enabled: true,
                env: true,
                label,
                tid: me,
            });
            c
        },
    }
}

struct W {
    e: Arc<Exec>,
    tid: usize,
}
impl Wake for W {
    fn wake(self: Arc<Self>) {
        let mut g = self.e.m.lock().unwrap();
        g.woken[self.tid] = true;
        if g.st[self.tid] == St::Blocked {
            g.st[self.tid] = St::Enabled;
        }
    }
}

/// Our own poll loop: `Pending` disables the thread until its waker fires.
pub fn block_on<F: Future>(f: F) -> F::Output {
    let (e, me) = cur_sched().expect("block_on outside controlled thread");
    let waker = Waker::from(Arc::new(W { e: e.clone(), tid: me }));
    let mut cx = Context::from_waker(&waker);
    let mut f = pin!(f);
    loop {
        {
            e.m.lock().unwrap().woken[me] = false;
        }
        if let Poll::Ready(v) = f.as_mut().poll(&mut cx) {
            return v;
        }
        {
            let mut g = e.m.lock().unwrap();
            if !g.woken[me] {
                g.st[me] = St::Blocked;
            }
            e.schedule(&mut g, me, "pending");
            e.wake(&g);
        }
        e.wait_for_baton(me);
    }
}

/// Polls a future exactly once on the calling controlled thread (a parent that then turns to something else).
/// The waker only marks the thread as woken, which `block_on` consults when the future is driven again later.
pub fn poll_once<F: Future + Unpin>(f: &mut F) -> Poll<F::Output> {
    let (e, me) = cur_sched().expect("poll_once outside controlled thread");
    let waker = Waker::from(Arc::new(W { e: e.clone(), tid: me }));
    let mut cx = Context::from_waker(&waker);
    std::pin::Pin::new(f).poll(&mut cx)
}

pub struct JoinHandle<T> {
    tid: usize,
    res: Arc<Mutex<Option<std::thread::Result<T>>>>,
}
impl<T> JoinHandle<T> {
    pub fn join(self) -> std::thread::Result<T> {
        let (e, me) = cur_sched().expect("join outside controlled thread");
        loop {
            {
                let mut g = e.m.lock().unwrap();
                if g.st[self.tid] == St::Finished {
                    break;
                }
                g.st[me] = St::Blocked;
                g.joiners[self.tid].push(me);
                e.schedule(&mut g, me, "join");
                e.wake(&g);
            }
            e.wait_for_baton(me);
        }
        self.res.lock().unwrap().take().expect("joined thread left no result")
    }
}

fn start_thread<T: Send + 'static>(
    e: Arc<Exec>,
    tid: usize,
    f: impl FnOnce() -> T + Send + 'static,
) -> Arc<Mutex<Option<std::thread::Result<T>>>> {
    let res = Arc::new(Mutex::new(None));
    let res2 = res.clone();
    e.m.lock().unwrap().live_os_threads += 1;
    std::thread::Builder::new()
        .stack_size(1 << 20)
        .spawn(move || {
            CUR.with(|c| *c.borrow_mut() = Some(Ctl::Sched(e.clone(), tid)));
            let r = catch_unwind(AssertUnwindSafe(|| {
                e.wait_for_baton(tid);
                f()
            }));
            let aborted = matches!(&r, Err(p) if p.is::<AbortExec>());
            let mut g = e.m.lock().unwrap();
            if !aborted {
                *res2.lock().unwrap() = Some(r);
            }
            g.st[tid] = St::Finished;
            let js = std::mem::take(&mut g.joiners[tid]);
            for j in js {
                if g.st[j] == St::Blocked {
                    g.st[j] = St::Enabled;
                }
            }
            if !aborted && g.aborted.is_none() {
                e.schedule(&mut g, tid, "exit");
            }
            g.live_os_threads -= 1;
            e.wake(&g);
        })
        .expect("spawn OS thread");
    res
}

/// Spawn a new controlled thread (enabled at once; runs when the scheduler picks it).
pub fn spawn<T: Send + 'static>(f: impl FnOnce() -> T + Send + 'static) -> JoinHandle<T> {
    let (e, _me) = cur_sched().expect("spawn outside controlled thread");
    let tid = {
        let mut g = e.m.lock().unwrap();
        g.st.push(St::Enabled);
        g.woken.push(false);
        g.joiners.push(vec![]);
        g.cvs.push(Arc::new(Condvar::new()));
        g.retry.push(false);
        g.st.len() - 1
    };
    let res = start_thread(e.clone(), tid, f);
    JoinHandle { tid, res }
}

pub struct RunResult {
    pub trace: Vec<Decision>,
    /// deadlock / horizon / replay-divergence text
    pub aborted: Option<String>,
    pub log: Vec<String>,
    /// panic of the root thread body
    pub panic: Option<String>,
    pub steps: usize,
    /// the run stopped making progress (a controlled thread blocked outside the scheduler)
    pub stuck: bool,
}
impl RunResult {
    pub fn choices(&self) -> Vec<usize> {
        self.trace.iter().map(|d| d.chosen).collect()
    }
    pub fn describe(&self) -> Vec<String> {
        self.trace
            .iter()
            .map(|d| format!("t{}@{}:{}/{}{}", d.tid, d.label, d.chosen, d.n, if d.env { "e" } else { "" }))
            .collect()
    }
}

pub const DEFAULT_HORIZON: usize = 20_000;

pub fn run_one(prefix: &[usize], body: impl FnOnce() + Send + 'static) -> RunResult {
    run_one_h(prefix, DEFAULT_HORIZON, body)
}

pub fn run_one_h(prefix: &[usize], horizon: usize, body: impl FnOnce() + Send + 'static) -> RunResult {
    let e = Arc::new(Exec {
        m: Mutex::new(State {
            st: vec![St::Enabled],
            woken: vec![false],
            joiners: vec![vec![]],
            running: 0,
            prefix: prefix.to_vec(),
            trace: vec![],
            aborted: None,
            steps: 0,
            live_os_threads: 0,
            log: vec![],
            horizon,
            last_progress: Instant::now(),
            cvs: vec![Arc::new(Condvar::new())],
            retry: vec![false],
            fine_points: false,
        }),
        cv: Condvar::new(),
    });
    let res = start_thread(e.clone(), 0, body);
    let mut g = e.m.lock().unwrap();
    let mut stuck = false;
    while g.live_os_threads > 0 {
        let (g2, to) = e.cv.wait_timeout(g, Duration::from_millis(500)).unwrap();
        g = g2;
        if to.timed_out() && g.live_os_threads > 0 && g.last_progress.elapsed() > Duration::from_secs(20) {
            stuck = true;
            break;
        }
    }
    let panic = match res.lock().unwrap().take() {
        Some(Err(p)) => Some(panic_msg(&p)),
        _ => None,
    };
    RunResult {
        trace: g.trace.clone(),
        aborted: g.aborted.clone(),
        log: g.log.clone(),
        panic,
        steps: g.steps,
        stuck,
    }
}

fn panic_msg(p: &Box<dyn Any + Send>) -> String {
    p.downcast_ref::<String>()
        .cloned()
        .or_else(|| p.downcast_ref::<&str>().map(|s| s.to_string()))
        .unwrap_or_else(|| "panic".into())
}

#[derive(Default)]
pub struct Stats {
    pub executions: usize,
    pub steps: usize,
    pub decisions: usize,
    pub max_trace: usize,
    /// (choices, readable trace, message)
    pub violations: Vec<(Vec<usize>, Vec<String>, String)>,
    pub outcomes: BTreeMap<String, usize>,
    pub replays_checked: usize,
    pub machinery: Vec<String>,
    pub capped: bool,
    pub max_preemptions_used: usize,
}

pub struct ExploreCfg {
    pub bound: usize,
    pub max_exec: usize,
    pub deadline: Option<Instant>,
    pub horizon: usize,
    /// replay one in `replay_every` passing schedules and compare outcome + trace
    pub replay_every: usize,
    pub stop_after_violations: usize,
    /// delay bounding instead of preemption bounding: *every* departure from the default
    /// scheduler (keep running the current thread, else the lowest enabled id) costs 1, also at
    /// points where the current thread is blocked or finished.  Polynomial in the number of
    /// decisions, where preemption bounding explodes with the number of blocking events.
    pub delay_bounded: bool,
}
impl Default for ExploreCfg {
    fn default() -> Self {
        ExploreCfg {
            bound: 2,
            max_exec: 5_000_000,
            deadline: None,
            horizon: DEFAULT_HORIZON,
            replay_every: 64,
            stop_after_violations: 2,
            delay_bounded: false,
        }
    }
}

/// Stateless DFS with a preemption bound.  `check` maps a finished run to `Ok(outcome)` or
/// `Err(message)`; it also sees aborted runs (deadlock, horizon).
pub fn explore<B>(cfg: &ExploreCfg, body: B, check: &dyn Fn(&RunResult) -> Result<String, String>) -> Stats
where
    B: Fn() + Send + Sync + Clone + 'static,
{
    let mut stats = Stats::default();
    let mut stack: Vec<Vec<usize>> = vec![vec![]];
    while let Some(prefix) = stack.pop() {
        if stats.executions >= cfg.max_exec || cfg.deadline.map(|d| Instant::now() > d).unwrap_or(false) {
            stats.capped = true;
            break;
        }
        let b = body.clone();
        let r = run_one_h(&prefix, cfg.horizon, move || b());
        stats.executions += 1;
        stats.steps += r.steps;
        stats.decisions += r.trace.len();
        stats.max_trace = stats.max_trace.max(r.trace.len());
        if r.stuck {
            stats.machinery.push(format!("execution stuck (no scheduling progress for 20 s) at prefix {prefix:?}"));
            break;
        }
        if let Some(a) = &r.aborted {
            if a.starts_with("replay-divergence") {
                stats.machinery.push(format!("{a} at prefix {prefix:?}"));
                break;
            }
        }
        let verdict = check(&r);
        let need_replay = verdict.is_err() || (cfg.replay_every > 0 && stats.executions % cfg.replay_every == 1);
        if need_replay {
            let b = body.clone();
            let r2 = run_one_h(&r.choices(), cfg.horizon, move || b());
            stats.replays_checked += 1;
            let v2 = check(&r2);
            if r2.choices() != r.choices() || r2.log != r.log || v2 != verdict {
                stats.machinery.push(format!(
                    "nondeterministic replay of {:?}: verdict {:?} vs {:?}, log equal: {}",
                    r.choices(),
                    verdict,
                    v2,
                    r2.log == r.log
                ));
                break;
            }
        }
        match verdict {
            Ok(o) => *stats.outcomes.entry(o).or_default() += 1,
            Err(m) => {
                stats.violations.push((r.choices(), r.describe(), m));
                if stats.violations.len() >= cfg.stop_after_violations {
                    break;
                }
            },
        }
        let mut used = 0usize;
        for (i, d) in r.trace.iter().enumerate() {
            if i >= prefix.len() {
                for alt in 1..d.n {
                    let cost = used + if !d.env && (d.cur_enabled || cfg.delay_bounded) { 1 } else { 0 };
                    if cost > cfg.bound {
                        continue;
                    }
                    let mut p: Vec<usize> = r.trace[..i].iter().map(|x| x.chosen).collect();
                    p.push(alt);
                    stack.push(p);
                }
            }
            if !d.env && d.chosen != 0 && (d.cur_enabled || cfg.delay_bounded) {
                used += 1;
            }
        }
        stats.max_preemptions_used = stats.max_preemptions_used.max(used);
    }
    stats
}

// ---------------------------------------------------------------- script mode

/// Runs `f` on the current thread with environment choices answered from `choices`
/// (0 beyond its end).  Returns f's value and the (n, chosen, label) of every choice asked.
pub fn with_script<T>(choices: &[usize], f: impl FnOnce() -> T) -> (T, Vec<(usize, usize, &'static str)>) {
    let s = Arc::new(Mutex::new(Script {
        choices: choices.to_vec(),
        pos: 0,
        seen: vec![],
    }));
    let prev = CUR.with(|c| c.borrow_mut().replace(Ctl::Script(s.clone())));
    struct Restore(Option<Ctl>);
    impl Drop for Restore {
        fn drop(&mut self) {
            let p = self.0.take();
            CUR.with(|c| *c.borrow_mut() = p);
        }
    }
    let _r = Restore(prev);
    let v = f();
    let seen = s.lock().unwrap().seen.clone();
    (v, seen)
}

/// Enumerates every choice script of `f` depth-first (all environment answers), calling
/// `visit(script, value)` for each complete run.
pub fn for_all_scripts<T>(mut f: impl FnMut() -> T, mut visit: impl FnMut(&[usize], T)) -> usize {
    let mut stack: Vec<Vec<usize>> = vec![vec![]];
    let mut runs = 0;
    while let Some(prefix) = stack.pop() {
        let (v, seen) = with_script(&prefix, &mut f);
        runs += 1;
        let script: Vec<usize> = seen.iter().map(|s| s.1).collect();
        for i in prefix.len()..seen.len() {
            for alt in 1..seen[i].0 {
                let mut p = script[..i].to_vec();
                p.push(alt);
                stack.push(p);
            }
        }
        visit(&script, v);
    }
    runs
}

// ---------------------------------------------------------------- verif_hooks bridge

/// Schedule points that are switched on per execution (they multiply the schedule space of every other harness):
/// the points inside singleflight's map-lock sections.  Called by the body of a harness before it spawns threads.
pub fn set_fine_points(on: bool) {
    if let Some((e, _)) = cur_sched() {
        e.m.lock().unwrap().fine_points = on;
    }
}
fn fine_points() -> bool {
    cur_sched().map(|(e, _)| e.m.lock().unwrap().fine_points).unwrap_or(false)
}

struct Bridge;
impl verif_hooks::Handler for Bridge {
    fn controlled(&self) -> bool {
        controlled()
    }
    fn point(&self, label: &'static str) {
        if label.starts_with("sf.map.locked") && !fine_points() {
            return;
        }
        point(label)
    }
    fn choose(&self, label: &'static str, n: usize) -> usize {
        choose(label, n)
    }
    fn spawn(&self, task: verif_hooks::BoxedTask) {
        let _ = spawn(move || block_on(task));
    }
    fn wait_for_others(&self, label: &'static str) {
        wait_for_others(label)
    }
}

/// Installs this scheduler as the process-wide `verif_hooks` handler (idempotent).
pub fn install_hooks() {
    let _ = verif_hooks::install(Box::new(Bridge));
}

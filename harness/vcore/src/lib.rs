//! Shared machinery of the /verif harness: reporting (evidence, findings, replays),
//! worker fan-out, E1 `sched` (cooperative scheduler + preemption-bounded DFS),
//! E2 `vfs` (libc interposition macro, crash snapshots, fake clock), small utilities.

pub mod report;
pub mod sched;
pub mod util;
pub mod vfs;

pub use report::{Run, Tier};
pub use serde_json::{json, Map, Value};

//! Reference models ("boring", independent of the code under test) and helpers shared by labs.

pub mod refmodel;
pub mod atoms;
pub mod session;
pub mod session_oracles;

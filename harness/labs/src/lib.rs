//! Reference models and helpers shared by the lab binaries.

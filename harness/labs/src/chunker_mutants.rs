//! Subject abstraction for the chunker lab plus a *local, deliberately broken* copy of the
//! chunker state machine.  The copy is never part of a verdict: `lab_chunker --selftest` runs the
//! lab's oracles against each mutant to show that every oracle can fail (the real chunker cannot
//! be broken for that purpose because /repo is read-only for the harness).
//!
//! Included with `#[path]` by labs/src/bin/lab_chunker.rs.

use deduplication::Chunk;
use merklehash::compute_data_hash;

/// What the lab drives: the real `deduplication::Chunker`, or a mutant.
pub trait Subject: Sized {
    fn make(target: usize) -> Self;
    fn next(&mut self, data: &[u8], is_final: bool) -> (Option<Chunk>, usize);
    fn finish(self) -> Option<Chunk>;
    fn next_block(&mut self, data: &[u8], is_final: bool) -> Vec<Chunk>;
}

impl Subject for deduplication::Chunker {
    fn make(target: usize) -> Self {
        deduplication::Chunker::new(target)
    }
    fn next(&mut self, data: &[u8], is_final: bool) -> (Option<Chunk>, usize) {
        deduplication::Chunker::next(self, data, is_final)
    }
    fn finish(self) -> Option<Chunk> {
        deduplication::Chunker::finish(self)
    }
    fn next_block(&mut self, data: &[u8], is_final: bool) -> Vec<Chunk> {
        deduplication::Chunker::next_block(self, data, is_final)
    }
}

pub const MUTANTS: [(u8, &str); 6] = [
    (1, "skips minimum-64 bytes instead of minimum-64-1"),
    (2, "resumed skip ignores the bytes already consumed into the open chunk"),
    (3, "rolling hash is not carried across calls"),
    (4, "forced cut compares with > instead of >="),
    (5, "rolling hash is not reset at a cut"),
    (6, "the chunk buffer misses the bytes of a call that ends inside the skip region"),
];

/// Same state machine as deduplication/src/chunking.rs with defect `M` planted.
pub struct Mutant<const M: u8> {
    hash: u64,
    minimum_chunk: usize,
    maximum_chunk: usize,
    mask: u64,
    chunkbuf: Vec<u8>,
    cur_chunk_len: usize,
}

impl<const M: u8> Subject for Mutant<M> {
    fn make(target: usize) -> Self {
        let mask = (target - 1) as u64;
        let mask = mask << mask.leading_zeros();
        Mutant {
            hash: 0,
            minimum_chunk: target / 8,
            maximum_chunk: target * 2,
            mask,
            chunkbuf: Vec::new(),
            cur_chunk_len: 0,
        }
    }

    fn next(&mut self, data: &[u8], is_final: bool) -> (Option<Chunk>, usize) {
        const W: usize = 64;
        let n_bytes = data.len();
        let mut create_chunk = false;
        let mut consume_len = 0;
        if M == 3 {
            self.hash = 0;
        }
        if n_bytes != 0 {
            if self.cur_chunk_len + W < self.minimum_chunk {
                let want = match M {
                    1 => self.minimum_chunk - self.cur_chunk_len - W,
                    2 => self.minimum_chunk - W - 1,
                    _ => self.minimum_chunk - self.cur_chunk_len - W - 1,
                };
                let max_advance = want.min(n_bytes - consume_len);
                consume_len += max_advance;
                self.cur_chunk_len += max_advance;
            }
            let read_end = n_bytes.min(consume_len + self.maximum_chunk.saturating_sub(self.cur_chunk_len));
            let mut bytes_to_next_boundary = read_end - consume_len;
            let t = &gearhash::DEFAULT_TABLE;
            for (i, b) in data[consume_len..read_end].iter().enumerate() {
                self.hash = (self.hash << 1).wrapping_add(t[*b as usize]);
                if self.hash & self.mask == 0 {
                    bytes_to_next_boundary = i + 1;
                    create_chunk = true;
                    break;
                }
            }
            let forced = if M == 4 {
                bytes_to_next_boundary + self.cur_chunk_len > self.maximum_chunk
            } else {
                bytes_to_next_boundary + self.cur_chunk_len >= self.maximum_chunk
            };
            if forced {
                bytes_to_next_boundary = self.maximum_chunk - self.cur_chunk_len;
                create_chunk = true;
            }
            self.cur_chunk_len += bytes_to_next_boundary;
            let skipped_only = bytes_to_next_boundary == 0 && !create_chunk;
            consume_len += bytes_to_next_boundary;
            if !(M == 6 && skipped_only && consume_len == n_bytes && n_bytes > 1) {
                self.chunkbuf.extend_from_slice(&data[0..consume_len]);
            }
        }
        if create_chunk || (is_final && !self.chunkbuf.is_empty()) {
            let chunk = Chunk {
                hash: compute_data_hash(&self.chunkbuf[..]),
                data: std::mem::take(&mut self.chunkbuf).into(),
            };
            self.cur_chunk_len = 0;
            if M != 5 {
                self.hash = 0;
            }
            (Some(chunk), consume_len)
        } else {
            if consume_len != n_bytes {
                panic!("mutant: no chunk and {consume_len} of {n_bytes} bytes consumed");
            }
            (None, consume_len)
        }
    }

    fn next_block(&mut self, data: &[u8], is_final: bool) -> Vec<Chunk> {
        let mut ret = Vec::new();
        let mut pos = 0;
        loop {
            if pos == data.len() {
                return ret;
            }
            let (c, n) = self.next(&data[pos..], is_final);
            if let Some(c) = c {
                ret.push(c);
            }
            pos += n;
        }
    }

    fn finish(mut self) -> Option<Chunk> {
        self.next(&[], true).0
    }
}

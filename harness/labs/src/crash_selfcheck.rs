//! Crash lab (C19), part 3: proof obligation of the machinery.  One history of every operation
//! kind is executed in a sub-process under `strace -f -y`; the ordered list of mutating system
//! calls under the watched root that the kernel saw is compared with the interposer's log.  A
//! call the interposer did not see is a MACHINERY error, never a verdict.
//!
//! Included by `labs/src/bin/lab_crash.rs` with `#[path]`.

#![allow(dead_code)]

use std::collections::BTreeMap;
use std::path::Path;

use serde_json::{json, Value};

use crate::crash_ops::*;
use crate::CaseSpec;

pub const MARK_BEGIN: &str = "/verif-crash-selfcheck-mark-begin";
pub const MARK_END: &str = "/verif-crash-selfcheck-mark-end";

const TRACE: &str = "trace=%file,write,pwrite64,writev,pwritev,pwritev2,ftruncate,fchmod,fchown,fallocate,copy_file_range,sendfile,mmap";

/// Sub-process side: run the case with marks around the recorded window, hand back root + log.
pub fn worker_side(ctx: &Ctx, scratch: &Path, case: &CaseSpec, out: &Path) {
    let case_dir = scratch.join("selfcheck-case");
    std::fs::create_dir_all(&case_dir).expect("case dir");
    let v = match crate::record_case(ctx, &case_dir, case, true) {
        Ok(r) => json!({"root": r.root.to_string_lossy(), "log": r.log, "n": r.n}),
        Err(e) => json!({"error": e}),
    };
    std::fs::write(out, serde_json::to_vec(&v).unwrap()).expect("write selfcheck result");
}

#[derive(Clone, Debug, PartialEq, Eq, PartialOrd, Ord)]
pub struct Ev {
    pub kind: String,
    pub a: String,
    pub b: String,
}
impl Ev {
    fn text(&self) -> String {
        if self.b.is_empty() {
            format!("{} {}", self.kind, self.a)
        } else {
            format!("{} {} -> {}", self.kind, self.a, self.b)
        }
    }
}

/// Splits the argument text of one strace line at top-level commas.
fn split_args(s: &str) -> Vec<String> {
    let mut out = vec![];
    let mut cur = String::new();
    let (mut inq, mut esc, mut angle, mut depth) = (false, false, 0i32, 0i32);
    for c in s.chars() {
        if inq {
            cur.push(c);
            if esc {
                esc = false;
            } else if c == '\\' {
                esc = true;
            } else if c == '"' {
                inq = false;
            }
            continue;
        }
        match c {
            '"' => {
                inq = true;
                cur.push(c);
            },
            '<' => {
                angle += 1;
                cur.push(c);
            },
            '>' => {
                angle -= 1;
                cur.push(c);
            },
            '[' | '{' => {
                depth += 1;
                cur.push(c);
            },
            ']' | '}' => {
                depth -= 1;
                cur.push(c);
            },
            ',' if angle <= 0 && depth <= 0 => {
                out.push(cur.trim().to_string());
                cur.clear();
            },
            _ => cur.push(c),
        }
    }
    if !cur.trim().is_empty() {
        out.push(cur.trim().to_string());
    }
    out
}

fn quoted(tok: &str) -> Option<String> {
    let t = tok.trim();
    if t.starts_with('"') {
        let end = t.rfind('"')?;
        if end == 0 {
            return None;
        }
        return Some(t[1..end].to_string());
    }
    None
}
/// path annotation of an fd token `5</path>` (strace -y)
fn fd_path(tok: &str) -> Option<String> {
    let t = tok.trim();
    let a = t.find('<')?;
    let b = t.rfind('>')?;
    if b <= a {
        return None;
    }
    Some(t[a + 1..b].trim_end_matches(" (deleted)").to_string())
}
fn at(dirfd: &str, path: &str) -> String {
    if path.starts_with('/') {
        return path.to_string();
    }
    match fd_path(dirfd) {
        Some(d) => {
            if path.is_empty() || path == "." {
                d
            } else {
                format!("{d}/{path}")
            }
        },
        None => path.to_string(),
    }
}

/// Mutating events under `root` between the marks, in completion order; .1 = the call succeeded.
pub fn parse_strace(text: &str, root: &str) -> (Vec<(Ev, bool)>, u64, Vec<String>) {
    let mut pending: BTreeMap<String, String> = BTreeMap::new();
    let mut evs = vec![];
    let mut inside = false;
    let mut mmaps = 0u64;
    let mut unparsed = vec![];
    let under = |p: &str| p == root || p.starts_with(&format!("{root}/"));
    let rel = |p: &str| p[root.len().min(p.len())..].to_string();
    for line in text.lines() {
        let Some((pid, rest)) = line.split_once(' ') else { continue };
        let rest = rest.trim_start();
        let full: String;
        if let Some(pos) = rest.find(" <unfinished ...>") {
            pending.insert(pid.to_string(), rest[..pos].to_string());
            continue;
        } else if rest.starts_with("<... ") {
            let Some(p) = rest.find(" resumed>") else { continue };
            let head = pending.remove(pid).unwrap_or_default();
            full = format!("{head}{}", &rest[p + " resumed>".len()..]);
        } else {
            full = rest.to_string();
        }
        if full.starts_with("---") || full.starts_with("+++") {
            continue;
        }
        let Some(lp) = full.find('(') else { continue };
        let name = &full[..lp];
        // "name(args) = ret"; resumed lines pad between ')' and '='
        let Some(eq) = full.rfind(" = ") else { continue };
        let before = full[..eq].trim_end();
        if !before.ends_with(')') || before.len() <= lp + 1 {
            continue;
        }
        let argtext = &before[lp + 1..before.len() - 1];
        let ret = full[eq + 3..].trim();
        let ok = !ret.starts_with("-1");
        if full.contains(MARK_BEGIN) {
            inside = true;
            continue;
        }
        if full.contains(MARK_END) {
            inside = false;
            continue;
        }
        if !inside {
            continue;
        }
        let a = split_args(argtext);
        let arg = |i: usize| a.get(i).cloned().unwrap_or_default();
        let mut push = |kind: &str, p1: String, p2: String| {
            if under(&p1) || (!p2.is_empty() && under(&p2)) {
                evs.push((
                    Ev {
                        kind: kind.to_string(),
                        a: rel(&p1),
                        b: if p2.is_empty() { String::new() } else { rel(&p2) },
                    },
                    ok,
                ));
            }
        };
        let q = |i: usize| quoted(&arg(i)).unwrap_or_default();
        match name {
            "open" => {
                if arg(1).contains("O_CREAT") || arg(1).contains("O_TRUNC") {
                    push("open", q(0), String::new());
                }
            },
            "openat" | "openat2" => {
                if arg(2).contains("O_CREAT") || arg(2).contains("O_TRUNC") {
                    push("open", at(&arg(0), &q(1)), String::new());
                }
            },
            "creat" => push("open", q(0), String::new()),
            "write" => push("write", fd_path(&arg(0)).unwrap_or_default(), String::new()),
            "pwrite64" => push("pwrite", fd_path(&arg(0)).unwrap_or_default(), String::new()),
            "writev" => push("writev", fd_path(&arg(0)).unwrap_or_default(), String::new()),
            "pwritev" | "pwritev2" => push("pwritev", fd_path(&arg(0)).unwrap_or_default(), String::new()),
            "rename" => push("rename", q(0), q(1)),
            "renameat" | "renameat2" => push("rename", at(&arg(0), &q(1)), at(&arg(2), &q(3))),
            "unlink" => push("unlink", q(0), String::new()),
            "unlinkat" => push(if arg(2).contains("AT_REMOVEDIR") { "rmdir" } else { "unlink" }, at(&arg(0), &q(1)), String::new()),
            "rmdir" => push("rmdir", q(0), String::new()),
            "mkdir" => push("mkdir", q(0), String::new()),
            "mkdirat" => push("mkdir", at(&arg(0), &q(1)), String::new()),
            "chmod" => push("chmod", q(0), String::new()),
            "fchmodat" | "fchmodat2" => push("chmod", at(&arg(0), &q(1)), String::new()),
            "fchmod" => push("fchmod", fd_path(&arg(0)).unwrap_or_default(), String::new()),
            "chown" | "lchown" => push("chown", q(0), String::new()),
            "fchownat" => push("chown", at(&arg(0), &q(1)), String::new()),
            "fchown" => push("fchown", fd_path(&arg(0)).unwrap_or_default(), String::new()),
            "link" => push("link", q(0), q(1)),
            "linkat" => push("link", at(&arg(0), &q(1)), at(&arg(2), &q(3))),
            "symlink" => push("symlink", q(1), String::new()),
            "symlinkat" => push("symlink", at(&arg(1), &q(2)), String::new()),
            "truncate" => push("truncate", q(0), String::new()),
            "ftruncate" => push("ftruncate", fd_path(&arg(0)).unwrap_or_default(), String::new()),
            "fallocate" => push("fallocate", fd_path(&arg(0)).unwrap_or_default(), String::new()),
            "copy_file_range" => push("copy_file_range", fd_path(&arg(2)).unwrap_or_default(), String::new()),
            "sendfile" => push("sendfile", fd_path(&arg(0)).unwrap_or_default(), String::new()),
            "utimensat" => push("utime", at(&arg(0), &q(1)), String::new()),
            "utimes" | "utime" | "futimesat" => push("utime", q(0), String::new()),
            "setxattr" | "lsetxattr" | "removexattr" | "lremovexattr" | "mknod" | "mknodat" => push(name, q(0), String::new()),
            "mmap" => {
                if arg(2).contains("PROT_WRITE") && arg(3).contains("MAP_SHARED") {
                    if let Some(p) = fd_path(&arg(4)) {
                        if under(&p) {
                            mmaps += 1;
                        }
                    }
                }
            },
            // read-only path calls
            "stat" | "lstat" | "newfstatat" | "statx" | "access" | "faccessat" | "faccessat2" | "readlink" | "readlinkat" | "getcwd" | "chdir" | "execve" | "statfs"
            | "getxattr" | "lgetxattr" | "listxattr" | "llistxattr" | "inotify_add_watch" => {},
            other => {
                if unparsed.len() < 10 && argtext.contains(root) {
                    unparsed.push(format!("{other}({argtext})"));
                }
            },
        }
    }
    (evs, mmaps, unparsed)
}

pub fn parse_interposer_log(log: &[String]) -> Vec<Ev> {
    log.iter()
        .map(|l| {
            let (kind, rest) = l.split_once(' ').unwrap_or((l.as_str(), ""));
            let rest = match rest.rfind(" len=") {
                Some(p) if rest[p + 5..].chars().all(|c| c.is_ascii_digit()) => &rest[..p],
                _ => rest,
            };
            let (a, b) = match rest.split_once(" -> ") {
                Some((a, b)) => (a.to_string(), b.to_string()),
                None => (rest.to_string(), String::new()),
            };
            Ev {
                kind: kind.to_string(),
                a,
                b,
            }
        })
        .collect()
}

fn selfcheck_cases() -> Vec<(&'static str, CaseSpec, bool)> {
    let mk = |domain: Domain, param: u8, history: Vec<Op>, op: Op| CaseSpec {
        domain,
        param,
        history: history.into_iter().map(crate::Step::Done).collect(),
        op,
        only_k: None,
        expect_effect: None,
    };
    vec![
        ("shard flush (ShardFileManager)", mk(Domain::Shard, 0, vec![Op::Flush(0)], Op::Flush(3)), true),
        ("write_to_directory", mk(Domain::Shard, 0, vec![], Op::WriteDir(1)), true),
        ("consolidation (merge of 3)", mk(Domain::Shard, 0, vec![Op::Flush(0), Op::Flush(1), Op::Flush(3)], Op::Cons(2)), true),
        ("LocalClient first open + put", mk(Domain::Store, 0, vec![], Op::Put(0)), true),
        ("LocalClient put (> 8 KiB)", mk(Domain::Store, 0, vec![Op::Put(0)], Op::Put(2)), true),
        ("DiskCache put (subsuming)", mk(Domain::Cache, 0, vec![Op::CachePut(0, 0), Op::CachePut(1, 0)], Op::CachePut(2, 0)), true),
        ("DiskCache put (evicting)", mk(Domain::Cache, 1, vec![Op::CachePut(0, 0), Op::CachePut(1, 0)], Op::CachePut(3, 1)), true),
        ("DiskCache put (> 8 KiB, new key)", mk(Domain::Cache, 0, vec![Op::CachePut(0, 0)], Op::CachePut(4, 0)), true),
        // sessions run shard uploads on two runtime threads: the order of calls of different threads is not fixed
        ("upload session (several session shards)", mk(Domain::Session, 1, vec![Op::Sess(0)], Op::Sess(1)), false),
        ("upload session (one session shard)", mk(Domain::Session, 0, vec![], Op::Sess(2)), false),
    ]
}

/// Parent side.  Returns (all ok, one line per operation kind).
pub fn run_all(scratch: &Path) -> (bool, Vec<String>) {
    use std::process::{Command, Stdio};
    std::fs::create_dir_all(scratch).ok();
    let exe = std::env::current_exe().expect("current_exe");
    let cases = selfcheck_cases();
    let results: Vec<(bool, String)> = std::thread::scope(|sc| {
        let hs: Vec<_> = cases
            .iter()
            .enumerate()
            .map(|(i, (name, case, ordered))| {
                let exe = exe.clone();
                let scratch = scratch.to_path_buf();
                sc.spawn(move || -> (bool, String) {
                    let trace = scratch.join(format!("strace{i}.txt"));
                    let out = scratch.join(format!("selfcheck{i}.json"));
                    let spec = json!({"cases": [case.to_json()], "selfcheck": true});
                    let mut cmd = Command::new("strace");
                    cmd.arg("-f").arg("-y").arg("-s").arg("0").arg("-e").arg(TRACE).arg("-o").arg(&trace);
                    cmd.arg(&exe).arg("--worker").arg(spec.to_string()).arg("--out").arg(&out);
                    if case.domain == Domain::Session {
                        for (k, v) in session_cfg(case.param).env() {
                            cmd.env(k, v);
                        }
                    }
                    cmd.stdin(Stdio::null()).stdout(Stdio::null()).stderr(Stdio::null());
                    match cmd.status() {
                        Ok(s) if s.success() => {},
                        other => return (false, format!("selfcheck {name}: FAILED to run under strace: {other:?}")),
                    }
                    let Ok(res) = std::fs::read(&out).map_err(|e| e.to_string()).and_then(|b| serde_json::from_slice::<Value>(&b).map_err(|e| e.to_string())) else {
                        return (false, format!("selfcheck {name}: FAILED, no result file"));
                    };
                    if let Some(e) = res["error"].as_str() {
                        return (false, format!("selfcheck {name}: FAILED, {e}"));
                    }
                    let root = res["root"].as_str().unwrap_or("").to_string();
                    let log: Vec<String> = res["log"].as_array().map(|a| a.iter().filter_map(|x| x.as_str().map(|s| s.to_string())).collect()).unwrap_or_default();
                    let text = std::fs::read_to_string(&trace).unwrap_or_default();
                    let (kernel, mmaps, unparsed) = parse_strace(&text, &root);
                    let seen = parse_interposer_log(&log);
                    let kernel_evs: Vec<Ev> = kernel.iter().map(|x| x.0.clone()).collect();
                    let _ = std::fs::remove_file(&trace);
                    let _ = std::fs::remove_file(&out);
                    if kernel_evs.is_empty() {
                        return (false, format!("selfcheck {name}: FAILED, strace shows no mutating call under {root}"));
                    }
                    if !unparsed.is_empty() {
                        return (false, format!("selfcheck {name}: FAILED, system calls naming the root that the checker does not classify: {unparsed:?}"));
                    }
                    if kernel_evs == seen {
                        return (true, format!("selfcheck {name}: ok, {} mutating calls, same order in strace and interposer ({} shared writable mmaps)", seen.len(), mmaps));
                    }
                    // multiset difference
                    let mut bag: BTreeMap<Ev, i64> = BTreeMap::new();
                    for e in &seen {
                        *bag.entry(e.clone()).or_default() += 1;
                    }
                    let mut missed = vec![];
                    for (e, ok) in &kernel {
                        let c = bag.entry(e.clone()).or_default();
                        if *c > 0 {
                            *c -= 1;
                        } else if *ok {
                            missed.push(e.text());
                        } else {
                            // a failing call the interposer did not log changes nothing
                        }
                    }
                    let extra: Vec<String> = bag.iter().filter(|(_, c)| **c > 0).map(|(e, c)| format!("{} x{c}", e.text())).collect();
                    if !missed.is_empty() {
                        return (false, format!("selfcheck {name}: MISSED by the interposer: {:?} (strace {} calls, interposer {})", &missed[..missed.len().min(8)], kernel.len(), seen.len()));
                    }
                    if !extra.is_empty() {
                        return (false, format!("selfcheck {name}: FAILED, the interposer logged calls strace did not see: {:?}", &extra[..extra.len().min(8)]));
                    }
                    if *ordered {
                        let pos = kernel_evs.iter().zip(seen.iter()).position(|(a, b)| a != b).unwrap_or(0);
                        return (
                            false,
                            format!(
                                "selfcheck {name}: FAILED, same calls but different order from position {pos}: strace {:?} / interposer {:?}",
                                kernel_evs.get(pos).map(|e| e.text()),
                                seen.get(pos).map(|e| e.text())
                            ),
                        );
                    }
                    (true, format!("selfcheck {name}: ok, {} mutating calls, same multiset (calls of concurrent threads interleave differently; {} shared writable mmaps)", seen.len(), mmaps))
                })
            })
            .collect();
        hs.into_iter().map(|h| h.join().unwrap_or((false, "selfcheck thread panicked: FAILED".to_string()))).collect()
    });
    let ok = results.iter().all(|r| r.0);
    (ok, results.into_iter().map(|r| r.1).collect())
}

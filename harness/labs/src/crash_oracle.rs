//! Crash lab (C19), part 2: observation of a tree (harness-side scan that never trusts a name),
//! and the restart checks of one crash state (re-open with the real code, retrieval of everything
//! that was retrievable before the interrupted operation, re-run of the operation).
//!
//! Included by `labs/src/bin/lab_crash.rs` with `#[path]`.

#![allow(dead_code)]

use std::collections::{BTreeMap, BTreeSet};
use std::panic::{catch_unwind, AssertUnwindSafe};
use std::path::Path;

use base64::Engine;
use cas_client::{LocalClient, UploadClient};
use chunk_cache::{CacheConfig, ChunkCache, DiskCache};
use cas_types::ChunkRange;
use mdb_shard::shard_file_reconstructor::FileReconstructor;
use mdb_shard::{MDBShardFile, ShardFileManager};

use crate::crash_ops::*;
use crate::shard_checks::scan_to_model;
use crate::shard_model::*;

/// (signature, text)
pub type Fail = (String, String);

/// What a harness-side scan of a tree sees.
#[derive(Default, Clone, Debug)]
pub struct Obs {
    /// file records reachable through any complete shard file: (file hash, record text)
    pub files: BTreeSet<(K, String)>,
    /// xorb records reachable through any complete shard file
    pub xorb_recs: BTreeSet<(K, String)>,
    /// hex hashes of complete xorb files in a store
    pub store_xorbs: BTreeSet<String>,
    /// complete cache items: (key dir, start, end)
    pub cache_items: BTreeSet<(String, u32, u32)>,
    /// names that are final but whose content does not fit them
    pub bad: Vec<Fail>,
    /// shard files (relative path, length)
    pub shards: Vec<(String, u64)>,
    /// temp files (relative path, length)
    pub temps: Vec<(String, u64)>,
    /// empty directories
    pub empty_dirs: Vec<String>,
    /// normalized listing (random parts of temp names replaced)
    pub listing: Vec<String>,
    /// xorb files whose mode still has a write bit
    pub writable_xorbs: usize,
    /// complete shards in the private directory of a session
    pub leftover_session_shards: usize,
}

fn is_hex64(s: &str) -> bool {
    s.len() == 64 && s.bytes().all(|b| b.is_ascii_hexdigit())
}

pub fn is_temp_name(n: &str) -> bool {
    n.ends_with("mdb_temp") || (n.starts_with('.') && n.ends_with(".tmp"))
}

/// Replaces the random parts of temp names so that listings of two runs compare equal.
pub fn normalize_rel(rel: &str) -> String {
    rel.split('/')
        .map(|c| {
            if c.ends_with(".mdb_temp") {
                ".UUID.mdb_temp".to_string()
            } else if c.starts_with('.') && c.ends_with(".tmp") {
                // .<dirname>.<10 random>.tmp
                let inner = &c[1..c.len() - 4];
                match inner.rfind('.') {
                    Some(p) => format!(".{}.RAND.tmp", &inner[..p]),
                    None => ".RAND.tmp".to_string(),
                }
            } else if c.starts_with(".tmp") && c.len() == 10 {
                ".tmpRANDOM".to_string()
            } else {
                c.to_string()
            }
        })
        .collect::<Vec<_>>()
        .join("/")
}

/// `normalize_rel` applied to every path of an interposer log line.
pub fn normalize_line(line: &str) -> String {
    line.split(' ').map(normalize_rel).collect::<Vec<_>>().join(" ")
}

/// (start, end, len, crc) encoded by a cache item file name
pub fn parse_cache_item_name(n: &str) -> Option<(u32, u32, u64, u32)> {
    let buf = base64::engine::general_purpose::URL_SAFE.decode(n.as_bytes()).ok()?;
    if buf.len() != 20 {
        return None;
    }
    let start = u32::from_le_bytes(buf[0..4].try_into().unwrap());
    let end = u32::from_le_bytes(buf[4..8].try_into().unwrap());
    let len = u64::from_le_bytes(buf[8..16].try_into().unwrap());
    let crc = u32::from_le_bytes(buf[16..20].try_into().unwrap());
    if start >= end {
        return None;
    }
    Some((start, end, len, crc))
}

/// Harness-side scan of `root`.  The LMDB directory of a LocalClient is skipped.
pub fn scan_tree(root: &Path, domain: Domain) -> Obs {
    use std::os::unix::fs::PermissionsExt;
    let mut o = Obs::default();
    let list = vcore::util::list_tree(root);
    let dirs_with_children: BTreeSet<String> = list
        .iter()
        .filter_map(|(rel, _, _)| Path::new(rel).parent().map(|p| p.to_string_lossy().to_string()))
        .collect();
    for (rel, is_dir, len) in &list {
        if rel.contains("global_dedup_lookup.db") {
            continue;
        }
        let name = Path::new(rel).file_name().map(|n| n.to_string_lossy().to_string()).unwrap_or_default();
        if *is_dir {
            if !dirs_with_children.contains(rel) {
                o.empty_dirs.push(normalize_rel(rel));
            }
            o.listing.push(format!("{}/", normalize_rel(rel)));
            continue;
        }
        o.listing.push(format!("{} [{}]", normalize_rel(rel), len));
        let path = root.join(rel);
        if is_temp_name(&name) {
            o.temps.push((rel.clone(), *len));
            continue;
        }
        if let Some(stem) = name.strip_suffix(".mdb") {
            if is_hex64(stem) {
                o.shards.push((rel.clone(), *len));
                let bytes = std::fs::read(&path).unwrap_or_default();
                let want = shard_file_name_of(&bytes);
                if want != name.to_ascii_lowercase() {
                    o.bad.push((
                        "C19/partial-shard-under-final-name".into(),
                        format!("{rel} ({len} bytes) does not hash to its name (content hashes to {want})"),
                    ));
                    continue;
                }
                match catch_unwind(|| scan_to_model(&bytes)) {
                    Ok(Ok((s, _, _))) => {
                        // shards left behind in the private directory of a dead session are complete
                        // files, but nothing reads them again: their records are not "retrievable"
                        if domain == Domain::Session && rel.contains("shard-session/") {
                            o.leftover_session_shards += 1;
                            continue;
                        }
                        for (k, f) in &s.files {
                            o.files.insert((*k, format!("{f:?}")));
                        }
                        for (k, x) in &s.xorbs {
                            o.xorb_recs.insert((*k, format!("{x:?}")));
                        }
                    },
                    Ok(Err(e)) => o.bad.push(("C19/partial-shard-under-final-name".into(), format!("{rel} ({len} bytes) hashes to its name but cannot be scanned: {e}"))),
                    Err(p) => o.bad.push((
                        "C19/partial-shard-under-final-name".into(),
                        format!("{rel} ({len} bytes) hashes to its name but scanning panics: {}", vcore::util::panic_text(&p)),
                    )),
                }
                continue;
            }
        }
        if let Some(hex) = name.strip_prefix("default.") {
            if is_hex64(hex) && (domain == Domain::Store || domain == Domain::Session) {
                let mode = std::fs::metadata(&path).map(|m| m.permissions().mode()).unwrap_or(0);
                if mode & 0o222 != 0 {
                    o.writable_xorbs += 1;
                }
                match labs::session::read_store_xorb(&path) {
                    Some(x) if x.validator_ok == Some(true) && x.repo_decode_err.is_none() => {
                        o.store_xorbs.insert(hex.to_ascii_lowercase());
                    },
                    Some(x) => o.bad.push((
                        "C19/xorb-invalid-under-final-name".into(),
                        format!("{rel} ({len} bytes): validate_cas_object -> {:?}, decode -> {:?}", x.validator_ok, x.repo_decode_err),
                    )),
                    None => o.bad.push(("C19/xorb-invalid-under-final-name".into(), format!("{rel} ({len} bytes) cannot be read"))),
                }
                continue;
            }
        }
        if domain == Domain::Cache {
            let comps: Vec<&str> = rel.split('/').collect();
            if comps.len() == 3 {
                if let Some((s, e, l, crc)) = parse_cache_item_name(&name) {
                    let bytes = std::fs::read(&path).unwrap_or_default();
                    let got = crc32fast::hash(&bytes);
                    if bytes.len() as u64 != l || got != crc {
                        o.bad.push((
                            "C19/cache-item-name-mismatch".into(),
                            format!("{rel}: name encodes range [{s},{e}) len {l} crc {crc:08x}; file has len {} crc {got:08x}", bytes.len()),
                        ));
                    } else {
                        o.cache_items.insert((comps[1].to_string(), s, e));
                    }
                }
            }
        }
    }
    // random temp names sort differently from run to run
    o.listing.sort();
    o.empty_dirs.sort();
    o
}

fn loc_short(loc: &str) -> String {
    loc.trim_start_matches("/repo/").to_string()
}

fn guarded<T>(f: impl FnOnce() -> T) -> Result<T, (String, String)> {
    match catch_unwind(AssertUnwindSafe(f)) {
        Ok(v) => Ok(v),
        Err(p) => Err((vcore::util::panic_text(&p), loc_short(&vcore::util::last_panic_loc()))),
    }
}

fn is_lmdb_text(e: &str) -> bool {
    // errors of the shard layer ("MDBShardError", names ending in ".mdb" / ".mdb_temp") are NOT LMDB's
    if e.contains("MDBShardError") || e.contains(".mdb") {
        return false;
    }
    let l = e.to_ascii_lowercase();
    l.contains("heed") || l.contains("lmdb") || e.contains("MDB_") || e.contains("Mdb(") || l.contains("opening db")
}

/// Everything the restart checks of one crash state need to know.
pub struct Restart<'a> {
    pub ctx: &'a Ctx,
    pub domain: Domain,
    pub history: &'a [Op],
    pub op: &'a Op,
    /// scan of the tree as it was just before the operation
    pub before: &'a Obs,
    /// scan of the tree after the uninterrupted operation
    pub after: &'a Obs,
    /// chunk-cache domain: the (key, start, end) ranges a cache opened on the tree just before the operation
    /// answers with a hit
    pub cache_hits_before: &'a BTreeSet<(u8, u32, u32)>,
}

/// The ranges (of the menu ranges named by history and operation, and their single chunks) that a cache opened on
/// `dir` answers with a hit.
pub fn cache_hits_on(ctx: &Ctx, dir: &Path, history: &[Op], op: &Op) -> BTreeSet<(u8, u32, u32)> {
    let cfg = CacheConfig {
        cache_directory: dir.to_path_buf(),
        cache_size: cache_capacity(ctx.param),
    };
    let mut hits = BTreeSet::new();
    let res = guarded(|| -> Result<(), String> {
        let c = DiskCache::initialize(&cfg).map_err(|e| format!("{e:?}"))?;
        for h in history.iter().chain(std::iter::once(op)) {
            if let Op::CachePut(i, _) = h {
                let (k, s, e) = cache_menu_range(*i);
                let mut rs = vec![(k, s, e)];
                rs.extend((s..e).map(|c| (k, c, c + 1)));
                for (k, s, e) in rs {
                    if let Ok(Some(_)) = c.get(&cache_key(k), &ChunkRange { start: s, end: e }) {
                        hits.insert((k, s, e));
                    }
                }
            }
        }
        Ok(())
    });
    let _ = res;
    hits
}

#[derive(Default)]
pub struct RestartStats {
    pub lmdb_retries: u64,
    pub cache_gets: u64,
    pub cache_hits: u64,
    pub cache_misses: u64,
    pub retrievals: u64,
    pub rerun_extra: u64,
}

/// The copy at `dir` (a path never used before in this process) is "restarted".
pub fn restart_checks(r: &Restart, dir: &Path, st: &mut RestartStats) -> Vec<Fail> {
    let mut fails: Vec<Fail> = vec![];
    let kind = r.op.kind();
    // 1. names are consistent with contents (harness-side, trusts nothing)
    let now = scan_tree(dir, r.domain);
    fails.extend(now.bad.iter().cloned());
    // 2. nothing that was retrievable is lost (harness-side)
    for (k, rec) in &r.before.files {
        if !now.files.contains(&(*k, rec.clone())) {
            fails.push((format!("C19/record-lost:{kind}"), format!("file record {} was in a complete shard before the operation and is in none now", khex(k))));
        }
    }
    for (k, rec) in &r.before.xorb_recs {
        if !now.xorb_recs.contains(&(*k, rec.clone())) {
            fails.push((format!("C19/record-lost:{kind}"), format!("xorb record {} was in a complete shard before the operation and is in none now", khex(k))));
        }
    }
    for h in &r.before.store_xorbs {
        if !now.store_xorbs.contains(h) {
            fails.push((format!("C19/record-lost:{kind}"), format!("xorb {h} was complete in the store before the operation and is not now")));
        }
    }
    // 3. re-open with the real code + retrieval through it (also when 1/2 failed: the report
    //    then says what the real code makes of the state)
    match r.domain {
        Domain::Shard => reopen_shard_dir(r, dir, st, &mut fails),
        Domain::Store => reopen_store(r, dir, st, &mut fails),
        Domain::Cache => reopen_cache(r, dir, st, &mut fails, false),
        Domain::Session => reopen_session(r, dir, st, &mut fails),
    }
    if !fails.is_empty() {
        return fails;
    }
    // 4. re-run the interrupted operation to completion
    if matches!(r.op, Op::Bad(_)) {
        return fails;
    }
    let mut res = guarded(|| run_op(r.ctx, dir, r.op));
    if let Ok(o) = &res {
        if let Some(e) = &o.err {
            if is_lmdb_text(e) && (r.domain == Domain::Store || r.domain == Domain::Session) {
                // the LMDB environment is not part of the property: retry without it
                st.lmdb_retries += 1;
                remove_lmdb(dir);
                res = guarded(|| run_op(r.ctx, dir, r.op));
            }
        }
    }
    match res {
        Err((text, loc)) => {
            fails.push((format!("C19/rerun-panics:{loc}"), format!("re-running {} on the restarted copy panicked: {}", r.op.label(), text.chars().take(300).collect::<String>())));
            return fails;
        },
        Ok(o) => {
            if let Some(e) = o.err {
                if e.starts_with("panic: ") {
                    let loc = e.rsplit(" @ ").next().unwrap_or("").to_string();
                    fails.push((format!("C19/rerun-panics:{}", loc_short(&loc)), format!("re-running {} on the restarted copy panicked: {}", r.op.label(), e.chars().take(300).collect::<String>())));
                } else if is_lmdb_text(&e) && e.contains("os error 11") {
                    fails.push(("MACHINERY/lmdb-environment".into(), format!("re-run: {e}")));
                } else {
                    fails.push((format!("C19/rerun-fails:{kind}"), format!("re-running {} on the restarted copy failed: {}", r.op.label(), e.chars().take(300).collect::<String>())));
                }
                return fails;
            }
        },
    }
    let fin = scan_tree(dir, r.domain);
    fails.extend(fin.bad.iter().cloned());
    match r.domain {
        Domain::Shard => {
            if fin.files != r.after.files || fin.xorb_recs != r.after.xorb_recs {
                fails.push((
                    format!("C19/rerun-differs:{kind}"),
                    format!(
                        "after the re-run the directory holds {} file / {} xorb records; after the uninterrupted run {} / {}",
                        fin.files.len(),
                        fin.xorb_recs.len(),
                        r.after.files.len(),
                        r.after.xorb_recs.len()
                    ),
                ));
            }
        },
        Domain::Store => {
            if fin.store_xorbs != r.after.store_xorbs {
                fails.push((format!("C19/rerun-differs:{kind}"), format!("after the re-run the store holds xorbs {:?}; after the uninterrupted run {:?}", fin.store_xorbs, r.after.store_xorbs)));
            }
        },
        Domain::Cache => reopen_cache(r, dir, st, &mut fails, true),
        Domain::Session => {
            let fk: BTreeSet<K> = fin.files.iter().map(|x| x.0).collect();
            let ak: BTreeSet<K> = r.after.files.iter().map(|x| x.0).collect();
            for k in &ak {
                if !fk.contains(k) {
                    fails.push((format!("C19/rerun-differs:{kind}"), format!("file {} is retrievable after the uninterrupted session and not after the re-run", khex(k))));
                }
            }
            for h in &r.after.store_xorbs {
                if !fin.store_xorbs.contains(h) {
                    fails.push((format!("C19/rerun-differs:{kind}"), format!("xorb {h} is in the store after the uninterrupted session and not after the re-run")));
                }
            }
            st.rerun_extra += fk.difference(&ak).count() as u64 + fin.store_xorbs.difference(&r.after.store_xorbs).count() as u64;
        },
    }
    fails
}

pub fn remove_lmdb(dir: &Path) {
    for (rel, is_dir, _) in vcore::util::list_tree(dir) {
        if is_dir && rel.ends_with("global_dedup_lookup.db") {
            let _ = std::fs::remove_dir_all(dir.join(rel));
        }
    }
}

fn reopen_shard_dir(r: &Restart, dir: &Path, st: &mut RestartStats, fails: &mut Vec<Fail>) {
    let kind = r.op.kind();
    // the records of the history, by key
    let mut want_files: BTreeMap<K, RFile> = BTreeMap::new();
    let mut want_xorbs: BTreeMap<K, RXorb> = BTreeMap::new();
    for h in r.history.iter().chain(std::iter::once(r.op)) {
        if let Op::Flush(i) | Op::WriteDir(i) = h {
            let s = shard_menu(*i);
            want_files.extend(s.files);
            want_xorbs.extend(s.xorbs);
        }
    }
    let before_files: BTreeSet<K> = r.before.files.iter().map(|x| x.0).collect();
    let before_xorbs: BTreeSet<K> = r.before.xorb_recs.iter().map(|x| x.0).collect();
    let res = guarded(|| -> Result<Vec<Fail>, String> {
        let mut v = vec![];
        let all = MDBShardFile::load_all_valid(dir).map_err(|e| format!("MDBShardFile::load_all_valid: {e:?}"))?;
        for s in &all {
            s.read_all_file_info_sections().map_err(|e| format!("read_all_file_info_sections({:?}): {e:?}", s.path))?;
            s.read_all_cas_blocks().map_err(|e| format!("read_all_cas_blocks({:?}): {e:?}", s.path))?;
        }
        r.ctx.rt.block_on(async {
            let m = ShardFileManager::new_in_session_directory(dir).await.map_err(|e| format!("ShardFileManager::new_in_session_directory: {e:?}"))?;
            for k in &before_files {
                st.retrievals += 1;
                match m.get_file_reconstruction_info(&mh(k)).await.map_err(|e| format!("get_file_reconstruction_info: {e:?}"))? {
                    None => v.push((format!("C19/record-lost:{kind}"), format!("file {} was retrievable before the operation; the re-opened shard manager does not find it", khex(k)))),
                    Some((fi, _)) => {
                        if let Some(w) = want_files.get(k) {
                            if !file_matches(&from_real_file(&fi), w) {
                                v.push((format!("C19/record-lost:{kind}"), format!("file {}: the re-opened shard manager returns a different record", khex(k))));
                            }
                        }
                    },
                }
            }
            for k in &before_xorbs {
                st.retrievals += 1;
                let Some(x) = want_xorbs.get(k) else { continue };
                let q: Vec<merklehash::MerkleHash> = x.chunks.iter().map(|c| mh(&c.hash)).collect();
                match m.chunk_hash_dedup_query(&q).await.map_err(|e| format!("chunk_hash_dedup_query: {e:?}"))? {
                    Some((n, e)) if n == q.len() && e.cas_hash == mh(k) => {},
                    other => v.push((
                        format!("C19/record-lost:{kind}"),
                        format!("xorb {} was retrievable before the operation; the re-opened shard manager answers its chunks with {:?}", khex(k), other.map(|o| o.0)),
                    )),
                }
            }
            Ok::<(), String>(())
        })?;
        Ok(v)
    });
    match res {
        Err((text, loc)) => fails.push((format!("C19/reopen-panics:{loc}"), format!("re-opening the shard directory panicked: {}", text.chars().take(300).collect::<String>()))),
        Ok(Err(e)) => fails.push((format!("C19/reopen-fails:{kind}"), format!("re-opening the shard directory failed: {e}"))),
        Ok(Ok(v)) => fails.extend(v),
    }
}

fn store_dir_of(r: &Restart, dir: &Path) -> std::path::PathBuf {
    if r.domain == Domain::Session {
        dir.join("xet").join("xorbs")
    } else {
        dir.to_path_buf()
    }
}

fn reopen_store(r: &Restart, dir: &Path, st: &mut RestartStats, fails: &mut Vec<Fail>) {
    let kind = r.op.kind();
    let base = store_dir_of(r, dir);
    if !base.exists() {
        return;
    }
    let menu: BTreeMap<String, Vec<u8>> = (0..N_XORB_MENU)
        .map(|i| {
            let x = xorb_menu(i);
            (x.hash.hex(), x.data)
        })
        .collect();
    let mut attempt = 0;
    loop {
        attempt += 1;
        let res = guarded(|| -> Result<Vec<Fail>, String> {
            r.ctx.rt.block_on(async {
                let mut v = vec![];
                let c = LocalClient::new(&base, None).map_err(|e| format!("LocalClient::new: {e:?}"))?;
                let entries: BTreeSet<String> = c.get_all_entries().map_err(|e| format!("get_all_entries: {e:?}"))?.iter().map(|k| k.hash.hex()).collect();
                for h in &r.before.store_xorbs {
                    st.retrievals += 1;
                    let mhash = merklehash::MerkleHash::from_hex(h).map_err(|e| format!("{e:?}"))?;
                    if !entries.contains(h) {
                        v.push((format!("C19/record-lost:{kind}"), format!("xorb {h} is not listed by the re-opened store")));
                    }
                    match c.exists("default", &mhash).await {
                        Ok(true) => {},
                        other => v.push((format!("C19/record-lost:{kind}"), format!("xorb {h}: exists() on the re-opened store -> {other:?}"))),
                    }
                    match c.get(&mhash) {
                        Ok(bytes) => {
                            if let Some(w) = menu.get(h) {
                                if &bytes != w {
                                    v.push((format!("C19/record-lost:{kind}"), format!("xorb {h}: the re-opened store returns different bytes")));
                                }
                            }
                        },
                        Err(e) => v.push((format!("C19/record-lost:{kind}"), format!("xorb {h}: get() on the re-opened store -> {e:?}"))),
                    }
                }
                Ok(v)
            })
        });
        match res {
            Err((text, loc)) => fails.push((format!("C19/reopen-panics:{loc}"), format!("re-opening the store panicked: {}", text.chars().take(300).collect::<String>()))),
            Ok(Err(e)) => {
                if is_lmdb_text(&e) && attempt == 1 {
                    st.lmdb_retries += 1;
                    remove_lmdb(dir);
                    continue;
                }
                if is_lmdb_text(&e) {
                    // a fresh LMDB directory cannot be opened either: this process ran out of LMDB environments
                    fails.push(("MACHINERY/lmdb-environment".into(), format!("LocalClient::new fails on a fresh LMDB directory: {e}")));
                } else {
                    fails.push((format!("C19/reopen-fails:{kind}"), format!("re-opening the store failed: {e}")));
                }
            },
            Ok(Ok(v)) => fails.extend(v),
        }
        break;
    }
}

/// Item files under a cache root whose name (range, length, crc) fits their content and that are not larger than the
/// capacity (the scan leaves a file longer than the whole capacity alone).
fn complete_cache_item_files(root: &Path, capacity: u64) -> usize {
    use base64::Engine;
    let mut n = 0;
    let rd = |p: &Path| std::fs::read_dir(p).map(|r| r.filter_map(|e| e.ok()).map(|e| e.path()).collect::<Vec<_>>()).unwrap_or_default();
    for pre in rd(root) {
        for keydir in rd(&pre) {
            for f in rd(&keydir) {
                let Some(name) = f.file_name().map(|x| x.to_string_lossy().to_string()) else { continue };
                let Ok(raw) = base64::engine::general_purpose::URL_SAFE.decode(name.as_bytes()) else { continue };
                if raw.len() != 20 {
                    continue;
                }
                let len = u64::from_le_bytes(raw[8..16].try_into().unwrap());
                let crc = u32::from_le_bytes(raw[16..20].try_into().unwrap());
                if let Ok(bytes) = std::fs::read(&f) {
                    if bytes.len() as u64 == len && len <= capacity && crc32fast::hash(&bytes) == crc {
                        n += 1;
                    }
                }
            }
        }
    }
    n
}

fn reopen_cache(r: &Restart, dir: &Path, st: &mut RestartStats, fails: &mut Vec<Fail>, after_rerun: bool) {
    let kind = r.op.kind();
    let cfg = CacheConfig {
        cache_directory: dir.to_path_buf(),
        cache_size: cache_capacity(r.ctx.param),
    };
    let mut ranges: BTreeSet<(u8, u32, u32)> = BTreeSet::new();
    for h in r.history.iter().chain(std::iter::once(r.op)) {
        if let Op::CachePut(i, _) = h {
            let (k, s, e) = cache_menu_range(*i);
            ranges.insert((k, s, e));
            for c in s..e {
                ranges.insert((k, c, c + 1));
            }
        }
    }
    let res = guarded(|| -> Result<Vec<Fail>, String> {
        let mut v = vec![];
        let c = DiskCache::initialize(&cfg).map_err(|e| format!("DiskCache::initialize: {e:?}"))?;
        for (k, s, e) in &ranges {
            st.cache_gets += 1;
            match c.get(&cache_key(*k), &ChunkRange { start: *s, end: *e }) {
                Ok(None) => {
                    st.cache_misses += 1;
                    // with the capacity never reached nothing is evicted: what a cache on the tree before the
                    // operation answered is still answered after a stop anywhere inside the operation
                    if r.ctx.param == 0 && r.cache_hits_before.contains(&(*k, *s, *e)) {
                        v.push((format!("C19/record-lost:{kind}"), format!("get(key {k}, [{s},{e})) was a hit before the interrupted put and is a miss on the re-opened cache")));
                    }
                },
                Ok(Some(cr)) => {
                    st.cache_hits += 1;
                    let (idx, data) = cache_range_bytes(*k, *s, *e);
                    if cr.data.as_ref() != data.as_slice() || cr.offsets.as_ref() != idx.as_slice() {
                        v.push(("C19/cache-wrong-bytes".into(), format!("get(key {k}, [{s},{e})) on the re-opened cache returns wrong bytes or offsets")));
                    }
                },
                Err(e2) => v.push(("C19/cache-get-error".into(), format!("get(key {k}, [{s},{e})) on the re-opened cache -> {e2:?}"))),
            }
        }
        // every complete item file that the re-opened cache leaves on disk belongs to a tracked entry: a file
        // that is neither tracked nor cleaned up is a record lost to the cache and space it never gives back
        // (files longer than the whole capacity are not counted; a stop inside one put leaves at most the capacity
        // plus one item on disk)
        if !after_rerun {
            let on_disk = complete_cache_item_files(dir, cache_capacity(r.ctx.param));
            match c.num_items() {
                Ok(n) if n < on_disk => v.push((
                    format!("C19/record-lost:{kind}"),
                    format!("the re-opened cache tracks {n} items but {on_disk} complete item files are on disk: files left behind untracked"),
                )),
                Ok(_) => st.cache_gets += 0,
                Err(e2) => v.push(("C19/cache-get-error".into(), format!("num_items on the re-opened cache -> {e2:?}"))),
            }
        }
        if after_rerun && r.ctx.param == 0 {
            if let Op::CachePut(i, _) = r.op {
                let (k, s, e) = cache_menu_range(*i);
                if !matches!(c.get(&cache_key(k), &ChunkRange { start: s, end: e }), Ok(Some(_))) {
                    v.push((format!("C19/rerun-differs:{kind}"), format!("after the re-run of the put (capacity never reached) the range [{s},{e}) of key {k} is not a hit")));
                }
            }
        }
        Ok(v)
    });
    match res {
        Err((text, loc)) => fails.push((format!("C19/reopen-panics:{loc}"), format!("re-opening the chunk cache panicked: {}", text.chars().take(300).collect::<String>()))),
        Ok(Err(e)) => fails.push((format!("C19/reopen-fails:{kind}"), format!("re-opening the chunk cache failed: {e}"))),
        Ok(Ok(v)) => fails.extend(v),
    }
}

fn reopen_session(r: &Restart, dir: &Path, st: &mut RestartStats, fails: &mut Vec<Fail>) {
    let kind = r.op.kind();
    reopen_store(r, dir, st, fails);
    let cache_dir = labs::session::shard_cache_dir(dir);
    let store_shards = labs::session::store_shard_dir(dir);
    let before_files: BTreeSet<K> = r.before.files.iter().map(|x| x.0).collect();
    let res = guarded(|| -> Result<Vec<Fail>, String> {
        let mut v = vec![];
        let mut found: BTreeSet<K> = BTreeSet::new();
        for d in [&cache_dir, &store_shards] {
            if !d.exists() {
                continue;
            }
            let all = MDBShardFile::load_all_valid(d).map_err(|e| format!("MDBShardFile::load_all_valid({d:?}): {e:?}"))?;
            for s in &all {
                for f in s.read_all_file_info_sections().map_err(|e| format!("read_all_file_info_sections({:?}): {e:?}", s.path))? {
                    found.insert(kk(&f.metadata.file_hash));
                }
            }
        }
        if cache_dir.exists() {
            r.ctx.rt.block_on(async {
                let m = ShardFileManager::new_in_cache_directory(&cache_dir).await.map_err(|e| format!("ShardFileManager::new_in_cache_directory: {e:?}"))?;
                for k in &before_files {
                    if m.get_file_reconstruction_info(&mh(k)).await.map_err(|e| format!("get_file_reconstruction_info: {e:?}"))?.is_some() {
                        found.insert(*k);
                    }
                }
                Ok::<(), String>(())
            })?;
        }
        for k in &before_files {
            st.retrievals += 1;
            if !found.contains(k) {
                v.push((format!("C19/record-lost:{kind}"), format!("file {} was retrievable before the session; no shard of the re-opened shard cache or store has it", khex(k))));
            }
        }
        Ok(v)
    });
    match res {
        Err((text, loc)) => fails.push((format!("C19/reopen-panics:{loc}"), format!("re-opening the shard cache / store shards panicked: {}", text.chars().take(300).collect::<String>()))),
        Ok(Err(e)) => fails.push((format!("C19/reopen-fails:{kind}"), format!("re-opening the shard cache / store shards failed: {e}"))),
        Ok(Ok(v)) => fails.extend(v),
    }
}

//! C09 part of lab_shard_store: case descriptors, exhaustive generators and the per-case check.
//! Included by the lab binary with `#[path]`.

#![allow(dead_code)]

use std::io::{Cursor, Read, Seek, SeekFrom};
use std::path::Path;

use mdb_shard::MDBShardFile;
use serde_json::{json, Value};
use vcore::report::{Partial, Tier};

use crate::shard_checks::*;
use crate::shard_model::*;

pub const MAXW: u64 = u64::MAX;

thread_local! { static STAGE: std::cell::Cell<&'static str> = const { std::cell::Cell::new("start") }; }
pub fn stage(s: &'static str) {
    STAGE.with(|c| c.set(s));
}
pub fn current_stage() -> &'static str {
    STAGE.with(|c| c.get())
}

// ------------------------------------------------------------------ record builders

pub fn mk_file(id: u64, key: K, nseg: usize, flags: u8) -> RFile {
    RFile {
        hash: key,
        segs: (0..nseg as u64)
            .map(|j| RSeg {
                cas: [((id + j) % 3) * 5, j, 0, 1],
                flags: (j % 2) as u32,
                bytes: (10 * (j + 1) + id) as u32,
                start: j as u32,
                end: (j + 1 + id) as u32,
            })
            .collect(),
        verif: if flags & 1 != 0 { Some((0..nseg as u64).map(|j| [0xAA00 + id, j, 1, 2]).collect()) } else { None },
        sha: if flags & 2 != 0 { Some([0x5A00 + id, 3, 4, 5]) } else { None },
    }
}

pub fn mk_xorb(id: u64, key: K, nchunks: usize, pattern: u8) -> RXorb {
    let mut pos = 0u32;
    let mut chunks = vec![];
    for j in 0..nchunks as u64 {
        let hash = match pattern {
            0 => [((id + j) % 3) * 7, (id * j) % 2, 0, 9],
            _ => [100 + id * 10 + j, j, id, 9],
        };
        let bytes = 100 + j as u32;
        chunks.push(RChunk { hash, bytes, start: pos });
        pos += bytes;
    }
    RXorb {
        hash: key,
        flags: (id & 1) as u32,
        bytes_in_cas: pos,
        bytes_on_disk: pos / 2 + id as u32,
        chunks,
    }
}

/// Key alphabet: extreme truncated keys 0 and 2^64-1, a middle one, several keys per truncated key.
pub fn alphabet(n: usize) -> Vec<K> {
    let all: Vec<K> = vec![
        [0, 0, 0, 0],
        [5, 0, 0, 0],
        [5, 0, 0, 1],
        [MAXW, 0, 0, 0],
        [MAXW, MAXW, MAXW, MAXW - 1],
        [0, 0, 0, 1],
        [5, MAXW, MAXW, MAXW],
    ];
    all[..n].to_vec()
}

pub fn never_present() -> Vec<K> {
    vec![[5, 1, 0, 0], [4, MAXW, MAXW, MAXW], [6, 0, 0, 0], [MAXW, MAXW, MAXW, 0], [1, 0, 0, 0], [MAXW - 1, 0, 0, 0], [0, 1, 0, 0]]
}

// ------------------------------------------------------------------ descriptors

#[derive(Clone, Debug, PartialEq)]
pub enum Desc {
    /// files = alphabet keys in `mask`; p-th chosen file has segs[p] segments and flags[p]
    FileSide { alpha: u8, mask: u32, segs: [u8; 3], flags: [u8; 3], cascfg: u8 },
    /// xorbs = alphabet keys in `mask`; p-th has chunks[p] chunks
    CasSide { alpha: u8, mask: u32, chunks: [u8; 3], pattern: u8, filecfg: u8 },
    /// `run` records of one table sharing truncated key number `prefix`
    Collide { table: u8, prefix: u8, run: u8, around: u8 },
    /// interpolation regime: table of n entries, background bg, run of `run` equal keys at `start`
    Interp { n: u32, bg: u8, run: u8, start: u32, table: u8 },
    /// many chunks with duplicated (truncated) chunk hashes, through the file API
    BigDup { variant: u8 },
    /// an explicit shard (replay of foreign cases)
    Explicit { shard: RShard, reverse: bool, file_api: bool },
}

impl Desc {
    pub fn to_json(&self) -> Value {
        match self {
            Desc::FileSide { alpha, mask, segs, flags, cascfg } => json!({"d": "fileside", "alpha": alpha, "mask": mask, "segs": segs, "flags": flags, "cascfg": cascfg}),
            Desc::CasSide { alpha, mask, chunks, pattern, filecfg } => json!({"d": "casside", "alpha": alpha, "mask": mask, "chunks": chunks, "pattern": pattern, "filecfg": filecfg}),
            Desc::Collide { table, prefix, run, around } => json!({"d": "collide", "table": table, "prefix": prefix, "run": run, "around": around}),
            Desc::Interp { n, bg, run, start, table } => json!({"d": "interp", "n": n, "bg": bg, "run": run, "start": start, "table": table}),
            Desc::BigDup { variant } => json!({"d": "bigdup", "variant": variant}),
            Desc::Explicit { shard, reverse, file_api } => json!({"d": "explicit", "shard": shard.to_json(), "reverse": reverse, "file_api": file_api}),
        }
    }
    pub fn from_json(v: &Value) -> Option<Desc> {
        let u = |k: &str| v[k].as_u64().unwrap_or(0);
        let a3 = |k: &str| {
            let mut a = [0u8; 3];
            for (i, x) in a.iter_mut().enumerate() {
                *x = v[k][i].as_u64().unwrap_or(0) as u8;
            }
            a
        };
        Some(match v["d"].as_str()? {
            "fileside" => Desc::FileSide { alpha: u("alpha") as u8, mask: u("mask") as u32, segs: a3("segs"), flags: a3("flags"), cascfg: u("cascfg") as u8 },
            "casside" => Desc::CasSide { alpha: u("alpha") as u8, mask: u("mask") as u32, chunks: a3("chunks"), pattern: u("pattern") as u8, filecfg: u("filecfg") as u8 },
            "collide" => Desc::Collide { table: u("table") as u8, prefix: u("prefix") as u8, run: u("run") as u8, around: u("around") as u8 },
            "interp" => Desc::Interp { n: u("n") as u32, bg: u("bg") as u8, run: u("run") as u8, start: u("start") as u32, table: u("table") as u8 },
            "bigdup" => Desc::BigDup { variant: u("variant") as u8 },
            "explicit" => Desc::Explicit { shard: RShard::from_json(&v["shard"]), reverse: v["reverse"].as_bool().unwrap_or(false), file_api: v["file_api"].as_bool().unwrap_or(false) },
            _ => return None,
        })
    }
}

pub struct Case {
    pub shard: RShard,
    pub qf: Vec<K>,
    pub qx: Vec<K>,
    pub full: bool,
}

fn chosen(mask: u32, alpha: &[K]) -> Vec<(usize, K)> {
    (0..alpha.len()).filter(|i| mask & (1 << i) != 0).map(|i| (i, alpha[i])).collect()
}

pub fn build_small(d: &Desc) -> Option<Case> {
    let mut s = RShard::default();
    match d {
        Desc::FileSide { alpha, mask, segs, flags, cascfg } => {
            let al = alphabet(*alpha as usize);
            for (p, (i, k)) in chosen(*mask, &al).into_iter().enumerate() {
                s.add_file(mk_file(i as u64, k, segs[p] as usize, flags[p]));
            }
            match cascfg {
                1 => s.add_xorb(mk_xorb(1, al[1], 1, 0)),
                2 => {
                    s.add_xorb(mk_xorb(1, al[1], 2, 0));
                    s.add_xorb(mk_xorb(2, al[2], 0, 0));
                    s.add_xorb(mk_xorb(4, al[4], 3, 0));
                },
                _ => {},
            }
            let mut q = al.clone();
            q.extend(never_present());
            Some(Case { shard: s, qf: q.clone(), qx: q, full: true })
        },
        Desc::CasSide { alpha, mask, chunks, pattern, filecfg } => {
            let al = alphabet(*alpha as usize);
            for (p, (i, k)) in chosen(*mask, &al).into_iter().enumerate() {
                s.add_xorb(mk_xorb(i as u64, k, chunks[p] as usize, *pattern));
            }
            match filecfg {
                1 => s.add_file(mk_file(0, al[0], 1, 3)),
                2 => {
                    s.add_file(mk_file(1, al[1], 2, 1));
                    s.add_file(mk_file(2, al[2], 0, 2));
                    s.add_file(mk_file(3, al[3], 3, 0));
                },
                _ => {},
            }
            let mut q = al.clone();
            q.extend(never_present());
            Some(Case { shard: s, qf: q.clone(), qx: q, full: true })
        },
        Desc::Collide { table, prefix, run, around } => {
            let p = [0u64, 5, MAXW][*prefix as usize % 3];
            let mut keys: Vec<K> = (0..*run as u64).map(|j| [p, j + 1, 0, 0]).collect();
            if around & 1 != 0 && p > 0 {
                keys.push([p - 1, 0, 0, 0]);
            }
            if around & 2 != 0 && p < MAXW {
                keys.push([p + 1, 0, 0, 0]);
            }
            for (j, k) in keys.iter().enumerate() {
                if *table == 0 {
                    s.add_file(mk_file(j as u64, *k, j % 3, (j % 4) as u8));
                } else {
                    s.add_xorb(mk_xorb(j as u64, *k, j % 3, (j % 2) as u8));
                }
            }
            if *table == 0 {
                s.add_xorb(mk_xorb(0, [p, 1, 0, 0], 1, 0));
            } else {
                s.add_file(mk_file(0, [p, 1, 0, 0], 1, 3));
            }
            let mut q = keys.clone();
            q.push([p, 99, 0, 0]);
            q.push([p, 0, 0, 0]);
            q.extend(never_present());
            Some(Case { shard: s, qf: q.clone(), qx: q, full: true })
        },
        Desc::BigDup { variant } => {
            match variant {
                0 => {
                    let mut x = mk_xorb(1, [3, 0, 0, 0], 24, 1);
                    for (j, c) in x.chunks.iter_mut().enumerate() {
                        c.hash = [(j % 3) as u64, j as u64, 0, 0];
                    }
                    s.add_xorb(x);
                },
                1 => {
                    for i in 0..3u64 {
                        let mut x = mk_xorb(i, [10 + i, 0, 0, 0], 8, 1);
                        for c in x.chunks.iter_mut() {
                            c.hash = [7, 7, 7, 7];
                        }
                        s.add_xorb(x);
                    }
                },
                2 => s.add_xorb(mk_xorb(1, [3, 0, 0, 0], 30, 1)),
                3 => {
                    for i in 0..2u64 {
                        let mut x = mk_xorb(i, [10 + i, 0, 0, 0], 11, 1);
                        for (j, c) in x.chunks.iter_mut().enumerate() {
                            c.hash = [j as u64, i, 0, 0];
                        }
                        s.add_xorb(x);
                    }
                },
                5 | 6 => {
                    // byte totals beyond 32 bits: per-record fields are u32, the shard's totals are u64
                    // (a shard describing more than 4 GiB: e.g. 65+ full xorbs, or one 5 GiB file)
                    for i in 0..3u64 {
                        let mut x = mk_xorb(i, [30 + i, 0, 0, 0], 2, 1);
                        x.bytes_in_cas = 3_000_000_000;
                        x.bytes_on_disk = if *variant == 5 { 2_900_000_000 } else { 17 };
                        x.chunks[0].bytes = 1_400_000_000;
                        x.chunks[0].start = 0;
                        x.chunks[1].bytes = 1_600_000_000;
                        x.chunks[1].start = 1_400_000_000;
                        s.add_xorb(x);
                    }
                    let mut f = mk_file(1, [2, 0, 0, 0], 3, if *variant == 5 { 3 } else { 0 });
                    for sg in f.segs.iter_mut() {
                        sg.bytes = 3_000_000_000;
                    }
                    s.add_file(f);
                },
                _ => {
                    // the same chunk list stored in two xorbs (a re-packed duplicate), 40 chunks each
                    for i in 0..2u64 {
                        let mut x = mk_xorb(i, [20 + i, 0, 0, 0], 40, 1);
                        for (j, c) in x.chunks.iter_mut().enumerate() {
                            c.hash = [1000 + j as u64, 1, 2, 3];
                        }
                        s.add_xorb(x);
                    }
                },
            }
            s.add_file(mk_file(0, [1, 0, 0, 0], 2, 3));
            let q: Vec<K> = s.xorbs.keys().cloned().chain(s.files.keys().cloned()).chain(never_present()).collect();
            Some(Case { shard: s, qf: q.clone(), qx: q, full: true })
        },
        Desc::Explicit { shard, .. } => {
            let mut q: Vec<K> = shard.files.keys().cloned().chain(shard.xorbs.keys().cloned()).collect();
            q.extend(never_present());
            q.extend(alphabet(7));
            Some(Case { shard: shard.clone(), qf: q.clone(), qx: q, full: true })
        },
        Desc::Interp { .. } => None,
    }
}

// ------------------------------------------------------------------ interpolation tables

pub const BG_NAMES: [&str; 10] =
    ["flat-mid", "flat-lowq", "flat-highq", "extreme-q0", "extreme-qmax", "even", "skew-lowq", "skew-highq", "packed-high", "geometric"];

/// Sorted table of `n` truncated keys with exactly `run` copies of the query key at `start`.
pub fn interp_table(n: u32, bg: u8, run: u8, start: u32) -> Option<(Vec<u64>, u64)> {
    let n = n as u64;
    let l = run as u64;
    let s = start as u64;
    if s + l > n {
        return None;
    }
    let hi_cnt = n - s - l;
    let step = MAXW / (n + 1);
    let geo = |i: u64| -> u64 { ((1u64 << (1 + (61 * (i + 1)) / (n + 1))) + i) * 2 };
    let (q, f): (u64, Box<dyn Fn(u64) -> u64>) = match bg {
        0 => (1 << 63, Box::new(move |i| if i < s { 1 } else { MAXW - 1 })),
        1 => (1, Box::new(move |i| if i < s { 0 } else { MAXW })),
        2 => (MAXW - 1, Box::new(move |i| if i < s { 0 } else { MAXW })),
        3 => (0, Box::new(move |_| MAXW)),
        4 => (MAXW, Box::new(move |_| 0)),
        5 => ((if s == 0 { 0 } else { s * step }) + step / 2, Box::new(move |i| (i + 1) * step)),
        6 => (s + 1, Box::new(move |i| if i < s { i + 1 } else { MAXW - (n - i) })),
        7 => (MAXW - hi_cnt - 1, Box::new(move |i| if i < s { i + 1 } else { MAXW - (n - i) })),
        8 => ((1 << 63) + (1 << 31), Box::new(move |i| if i < s { (1u64 << 63) + i } else { (1u64 << 63) + (1u64 << 32) + i })),
        9 => (if s == 0 { 1 } else { geo(s - 1) + 1 }, Box::new(geo)),
        _ => return None,
    };
    let mut t = Vec::with_capacity(n as usize);
    for i in 0..n {
        t.push(if i >= s && i < s + l { q } else { f(i) });
    }
    // the run must be exactly `run` long and the table sorted
    if s > 0 && t[(s - 1) as usize] >= q {
        return None;
    }
    if s + l < n && t[(s + l) as usize] <= q {
        return None;
    }
    if t.windows(2).any(|w| w[0] > w[1]) {
        return None;
    }
    Some((t, q))
}

pub struct CountingCursor<'a> {
    pub c: Cursor<&'a [u8]>,
    pub seeks: u64,
    pub reads: u64,
}
impl Read for CountingCursor<'_> {
    fn read(&mut self, buf: &mut [u8]) -> std::io::Result<usize> {
        self.reads += 1;
        self.c.read(buf)
    }
}
impl Seek for CountingCursor<'_> {
    fn seek(&mut self, pos: SeekFrom) -> std::io::Result<u64> {
        self.seeks += 1;
        self.c.seek(pos)
    }
}

fn check_interp_direct(out: &mut Partial, d: &Desc, keys: &[u64], q: u64, run: u8, start: u32) {
    let mut data = vec![0xEEu8; 16];
    for (i, k) in keys.iter().enumerate() {
        data.extend_from_slice(&k.to_le_bytes());
        data.extend_from_slice(&(i as u32).to_le_bytes());
    }
    let l = run as usize;
    let read_val = |r: &mut CountingCursor| -> Result<u32, std::io::Error> {
        let mut b = [0u8; 4];
        r.read_exact(&mut b)?;
        Ok(u32::from_le_bytes(b))
    };
    let mut probes: Vec<(u64, usize)> = vec![(q, 8), (q, 1), (q, l.max(1)), (q, l + 1), (q, 0)];
    // neighbours that are absent from the table
    if q > 0 && !keys.contains(&(q - 1)) {
        probes.push((q - 1, 8));
    }
    if q < MAXW && !keys.contains(&(q + 1)) {
        probes.push((q + 1, 8));
    }
    for (key, cap) in probes {
        let mut res = vec![u32::MAX; cap];
        let mut cur = CountingCursor { c: Cursor::new(&data[..]), seeks: 0, reads: 0 };
        let r = mdb_shard::interpolation_search::search_on_sorted_u64s(&mut cur, 16, keys.len() as u64, key, read_val, &mut res);
        out.count("interp_direct_searches", 1);
        if cur.seeks >= 2 {
            out.count("vac:interp_probe_loop_iterated", 1);
            out.max("max:interp_seeks_in_one_search", cur.seeks);
        }
        let exp_n = if key == q { l.min(cap) } else { 0 };
        match r {
            Ok(n) => {
                let mut got: Vec<u32> = res[..n.min(cap)].to_vec();
                got.sort();
                let before = got.len();
                got.dedup();
                let in_run = got.iter().all(|&p| key == q && p >= start && (p as usize) < start as usize + l);
                if n != exp_n || before != got.len() || !in_run {
                    out.violation(
                        "C09/interpolation-search-wrong",
                        format!(
                            "search_on_sorted_u64s over {} keys ({}), key {key:#x} with {l} copies at position {start}, result buffer of {cap}: returned {n} values {:?}, expected {exp_n} distinct positions inside the run",
                            keys.len(),
                            BG_NAMES[match d {
                                Desc::Interp { bg, .. } => *bg as usize,
                                _ => 0,
                            }],
                            &res[..n.min(cap)]
                        ),
                        json!({"lab": "shard_store", "kind": "c09", "desc": d.to_json()}),
                    );
                }
            },
            Err(e) => out.violation(
                "C09/interpolation-search-error",
                format!("search_on_sorted_u64s over {} keys failed for key {key:#x}: {e:?}", keys.len()),
                json!({"lab": "shard_store", "kind": "c09", "desc": d.to_json()}),
            ),
        }
    }
}

fn build_interp(n: u32, keys: &[u64], q: u64, run: u8, start: u32, table: u8) -> Case {
    let mut s = RShard::default();
    for (i, k) in keys.iter().enumerate() {
        let key = [*k, i as u64, 0, 0];
        if table == 0 {
            s.add_file(RFile { hash: key, segs: vec![], verif: None, sha: Some([i as u64, 7, 7, 7]) });
        } else {
            s.add_xorb(RXorb { hash: key, flags: 0, bytes_in_cas: i as u32, bytes_on_disk: 1, chunks: vec![] });
        }
    }
    let mut q_keys: Vec<K> = (0..run as u64).map(|j| [q, start as u64 + j, 0, 0]).collect();
    q_keys.push([q, n as u64 + 5, 0, 0]);
    q_keys.push([q, 0, 0, 1]);
    // neighbours and ends, when their truncated key is not massively duplicated
    let mut cand = vec![0usize, keys.len() - 1];
    if start > 0 {
        cand.push(start as usize - 1);
    }
    if (start as usize + run as usize) < keys.len() {
        cand.push(start as usize + run as usize);
    }
    for c in cand {
        q_keys.push([keys[c], c as u64, 0, 0]);
    }
    let (qf, qx) = if table == 0 { (q_keys, vec![]) } else { (vec![], q_keys) };
    Case { shard: s, qf, qx, full: start == 0 && run <= 1 }
}

// ------------------------------------------------------------------ enumeration

fn pow(b: usize, e: usize) -> usize {
    b.pow(e as u32)
}

pub fn enumerate(tier: Tier) -> Vec<Desc> {
    let mut v = vec![];
    let alpha = tier.pick(5usize, 7usize);
    // file side: every subset of <= 3 alphabet keys x every segment-count tuple x flag tuples
    for mask in 0u32..(1 << alpha) {
        let k = mask.count_ones() as usize;
        if k > 3 {
            continue;
        }
        for sc in 0..pow(4, k) {
            let segs = [(sc % 4) as u8, (sc / 4 % 4) as u8, (sc / 16 % 4) as u8];
            let flag_tuples: Vec<[u8; 3]> = match tier {
                Tier::Thorough => (0..pow(4, k)).map(|fc| [(fc % 4) as u8, (fc / 4 % 4) as u8, (fc / 16 % 4) as u8]).collect(),
                Tier::Quick => {
                    let mut t: Vec<[u8; 3]> = (0..4u8).map(|f| [f, f, f]).collect();
                    if k >= 2 {
                        t.push([1, 2, 3]);
                        t.push([2, 0, 1]);
                    }
                    if k == 0 {
                        t.truncate(1);
                    }
                    t
                },
            };
            for flags in flag_tuples {
                for cascfg in 0..3u8 {
                    if tier == Tier::Quick && k == 3 && cascfg == 1 {
                        continue;
                    }
                    v.push(Desc::FileSide { alpha: alpha as u8, mask, segs, flags, cascfg });
                }
            }
        }
    }
    // xorb side
    for mask in 0u32..(1 << alpha) {
        let k = mask.count_ones() as usize;
        if k > 3 {
            continue;
        }
        for cc in 0..pow(4, k) {
            let chunks = [(cc % 4) as u8, (cc / 4 % 4) as u8, (cc / 16 % 4) as u8];
            for pattern in 0..2u8 {
                for filecfg in 0..3u8 {
                    v.push(Desc::CasSide { alpha: alpha as u8, mask, chunks, pattern, filecfg });
                }
            }
        }
    }
    // truncated-key collisions: 1..=8 records per truncated key, both tables
    for table in 0..2u8 {
        for prefix in 0..3u8 {
            for run in 1..=8u8 {
                for around in 0..4u8 {
                    v.push(Desc::Collide { table, prefix, run, around });
                }
            }
        }
    }
    for variant in 0..7u8 {
        v.push(Desc::BigDup { variant });
    }
    // interpolation regime
    let ns: Vec<u32> = match tier {
        Tier::Quick => vec![255, 256, 257, 258, 300, 513, 600],
        Tier::Thorough => vec![255, 256, 257, 258, 259, 300, 511, 512, 513, 600, 1025],
    };
    for n in ns {
        for bg in 0..10u8 {
            for run in 0..=8u8 {
                let last = n - run as u32;
                let starts: Vec<u32> = match tier {
                    Tier::Thorough => (0..=last).collect(),
                    Tier::Quick => {
                        let mut s: Vec<u32> = vec![0, 1, 2, 3, 127, 128, 250, 251, 252, 253, 254, 255, 256, 257];
                        s.extend((0..=last).step_by(41));
                        s.extend([last.saturating_sub(3), last.saturating_sub(2), last.saturating_sub(1), last]);
                        s.retain(|x| *x <= last);
                        s.sort();
                        s.dedup();
                        s
                    },
                };
                for start in starts {
                    if interp_table(n, bg, run, start).is_none() {
                        continue;
                    }
                    for table in 0..3u8 {
                        if tier == Tier::Quick && table == 1 && start % 2 == 1 {
                            continue;
                        }
                        // the extra table sizes of the thorough tier drive the search function directly only
                        if table != 2 && [259u32, 511, 512, 1025].contains(&n) {
                            continue;
                        }
                        v.push(Desc::Interp { n, bg, run, start, table });
                    }
                }
            }
        }
    }
    v
}

// ------------------------------------------------------------------ the per-case check

fn sig(shape: &str) -> String {
    format!("C09/{shape}")
}

pub fn check_case(d: &Desc, idx: usize, dir: &Path, out: &mut Partial) {
    let replay = json!({"lab": "shard_store", "kind": "c09", "desc": d.to_json(), "index": idx});
    let r = std::panic::catch_unwind(std::panic::AssertUnwindSafe(|| {
        let mut local = Partial::default();
        check_case_inner(d, idx, dir, &mut local);
        local
    }));
    match r {
        Ok(p) => out.merge(p),
        Err(p) => {
            let loc = vcore::util::last_panic_loc();
            let file = loc.rsplit('/').next().unwrap_or("").split(':').next().unwrap_or("").to_string();
            out.violation(
                &format!("C09/panic:{}@{file}", current_stage()),
                format!("panic at {loc} during stage {} of case {}: {}", current_stage(), d.to_json(), vcore::util::panic_text(&p).chars().take(500).collect::<String>()),
                replay,
            );
        },
    }
    out.count("cases", 1);
}

fn check_case_inner(d: &Desc, idx: usize, dir: &Path, out: &mut Partial) {
    let replay = json!({"lab": "shard_store", "kind": "c09", "desc": d.to_json(), "index": idx});
    let (case, reverse, file_api, light) = match d {
        Desc::Interp { n, bg, run, start, table } => {
            let Some((keys, q)) = interp_table(*n, *bg, *run, *start) else { return };
            out.count("vac:interp_tables_over_256_entries", (keys.len() > 256) as u64);
            if *table == 2 {
                check_interp_direct(out, d, &keys, q, *run, *start);
                out.distinct(format!("interp-direct:{n}:{bg}:{run}:{start}"));
                return;
            }
            (build_interp(*n, &keys, q, *run, *start, *table), false, false, true)
        },
        Desc::Explicit { reverse, file_api, .. } => (build_small(d).unwrap(), *reverse, *file_api, false),
        Desc::BigDup { .. } => (build_small(d).unwrap(), false, true, false),
        _ => (build_small(d).unwrap(), idx % 2 == 1, idx % 61 == 0, false),
    };
    let want = &case.shard;
    stage("build-in-memory");
    let mem = build_mem(want, reverse);
    stage("serialize_from");
    let (bytes, info) = match serialize_mem(&mem) {
        Ok(x) => x,
        Err(e) => {
            out.violation(&sig("serialize-error"), format!("{e} for {}", want.describe()), replay);
            return;
        },
    };
    let mut st = Stats::default();
    let mut fails = vec![];
    stage("accounting");
    fails.extend(check_accounting(want, &mem, &bytes, &info));
    if !want.is_empty() && want.files.len() + want.xorbs.len() <= 12 {
        stage("records-added-twice");
        fails.extend(check_readded(want, &bytes));
        out.count("vac:shards_rebuilt_with_records_added_twice", 1);
    }
    stage("seekable-reader");
    fails.extend(check_seekable(want, &bytes, &case.qf, &case.qx, &mut st, !light || case.full));
    if !light || case.full {
        stage("streaming-and-minimal-readers");
        fails.extend(check_streaming_and_minimal(want, &bytes, &mut st));
    }
    if file_api {
        fails.extend(check_file_api(want, &mem, &bytes, &case, dir, idx, out));
    }
    out.count("lookups", st.lookups);
    out.count("lookups_present_found", st.present_found);
    out.count("lookups_absent_not_found", st.absent_not_found);
    out.count("vac:lookups_past_colliding_prefix", st.past_collision);
    out.count("vac:refused_8_colliding_prefixes", st.refused);
    out.count("info:not_found_under_8_colliding_prefixes", st.refused_quiet);
    out.count("reader_passes", st.scans);
    if matches!(d, Desc::FileSide { flags, .. } if flags.iter().any(|f| *f & 1 != 0)) {
        out.count("vac:shards_with_verification", 1);
    }
    if matches!(d, Desc::FileSide { flags, .. } if flags.iter().any(|f| *f & 2 != 0)) {
        out.count("vac:shards_with_metadata_ext", 1);
    }
    if want.is_empty() {
        out.count("vac:empty_shards", 1);
    }
    if want.files.values().any(|f| f.segs.is_empty()) || want.xorbs.values().any(|x| x.chunks.is_empty()) {
        out.count("vac:shards_with_empty_records", 1);
    }
    if !want.is_empty() {
        let h = blake3::hash(&bytes);
        out.distinct(vcore::util::hex(&h.as_bytes()[..8]));
    }
    if idx % 9973 == 0 || matches!(d, Desc::BigDup { variant: 0 }) {
        out.sample(json!({"case": d.to_json(), "shard": want.describe().chars().take(300).collect::<String>(), "serialized_bytes": bytes.len(), "file_keys_queried": case.qf.len(), "xorb_keys_queried": case.qx.len()}));
    }
    for (shape, what) in fails {
        let shape = match shape.as_str() {
            "reader-error" | "scan-misses-record" | "scan-invents-record" | "scan-record-differs" | "scan-duplicates-record" | "scan-differs" if what.contains("minimal") || what.contains("streaming") => {
                "readers-disagree".to_string()
            },
            _ => shape,
        };
        out.violation(&sig(&shape), format!("{what} [shard {}]", want.describe().chars().take(400).collect::<String>()), replay.clone());
    }
}

/// write_to_directory + MDBShardFile (file handle API) on one shard.
fn check_file_api(want: &RShard, mem: &mdb_shard::shard_in_memory::MDBInMemoryShard, bytes: &[u8], case: &Case, dir: &Path, idx: usize, out: &mut Partial) -> Vec<Fail> {
    let mut v: Vec<Fail> = vec![];
    let d = dir.join(format!("c{idx}"));
    std::fs::create_dir_all(&d).expect("mkdir");
    out.count("file_api_cases", 1);
    stage("write_to_directory");
    let res = (|| -> Result<(), String> {
        let path = mem.write_to_directory(&d).map_err(|e| format!("write_to_directory: {e:?}"))?;
        let on_disk = std::fs::read(&path).map_err(|e| format!("written shard missing: {e}"))?;
        if on_disk != bytes {
            out.count("info:file_bytes_differ_from_serialize_from", 1);
        }
        let name = path.file_name().unwrap().to_string_lossy().to_string();
        if name != shard_file_name_of(&on_disk) {
            v.push(("file-name-not-hash".into(), format!("write_to_directory named the shard {name}, its content hashes to {}", shard_file_name_of(&on_disk))));
        }
        stage("file-handle-reader");
        let sf = MDBShardFile::load_from_file(&path).map_err(|e| format!("load_from_file: {e:?}"))?;
        if sf.shard_hash.hex() + ".mdb" != name {
            v.push(("file-name-not-hash".into(), format!("load_from_file reports hash {} for {name}", sf.shard_hash.hex())));
        }
        for k in &case.qf {
            let run = want.file_prefix_run(k);
            match sf.get_file_reconstruction_info(&mh(k)) {
                Ok(Some(r)) => match want.files.get(k) {
                    Some(w) if file_matches(&from_real_file(&r), w) => {},
                    w => v.push(("record-differs".into(), format!("file handle lookup of {} returned {:?}, stored {:?}", khex(k), from_real_file(&r).rec, w))),
                },
                Ok(None) if want.files.contains_key(k) && run <= 7 => v.push(("present-key-not-found".into(), format!("file handle lookup of stored file {} returned not-found", khex(k)))),
                Ok(None) => {},
                Err(_) if run >= 8 => {},
                Err(e) => v.push(("lookup-error".into(), format!("file handle lookup of {}: {e:?}", khex(k)))),
            }
        }
        let all = MDBShardFile::load_all_valid(&d).map_err(|e| format!("load_all_valid: {e:?}"))?;
        if all.len() != 1 || all[0].path != sf.path {
            v.push(("scan-differs".into(), format!("load_all_valid lists {} shard files in a directory holding one", all.len())));
        }
        let files = sf.read_all_file_info_sections().map_err(|e| format!("file handle scan: {e:?}"))?;
        let mut got: Vec<RFile> = files.iter().map(|f| from_real_file(f).rec).collect();
        got.sort();
        let exp: Vec<RFile> = want.files.values().cloned().collect();
        if got != exp {
            v.push(("scan-differs".into(), format!("file handle scan lists {} files, stored {}", got.len(), exp.len())));
        }
        let mut lk = sf.read_full_cas_lookup().map_err(|e| format!("file handle cas lookup: {e:?}"))?;
        lk.sort();
        let xi = want.xorb_index();
        let mut exp: Vec<(u64, u32)> = want.xorbs.keys().map(|k| (k[0], xi[k])).collect();
        exp.sort();
        if lk != exp {
            v.push(("lookup-table-wrong".into(), format!("file handle xorb lookup table {lk:?}, expected {exp:?}")));
        }
        let mut th = sf.read_all_truncated_hashes().map_err(|e| format!("file handle chunk table: {e:?}"))?;
        th.sort();
        if th != want.chunk_table() {
            v.push(("lookup-table-wrong".into(), "file handle chunk lookup table differs from the stored chunks".to_string()));
        }
        Ok(())
    })();
    if let Err(e) = res {
        v.push(("file-api-error".into(), e));
    }
    let _ = std::fs::remove_dir_all(&d);
    v
}

//! Cache lab: C12 (a hit returns exactly what was put; damage turns into miss/error, never wrong
//! data or a panic) and C13 (accounting exact, capacity respected) on the real
//! `chunk_cache::DiskCache`:
//!  (a) explicit-state BFS over sequential put/get/reopen histories, every eviction victim;
//!  (b) E1: every schedule (preemption-bounded) of 2-3 thread harnesses, switch points at the
//!      hooked state-lock acquisitions and at every path-based file-system call (E2 interposer);
//!  (c) fault enumeration: single faults applied to a closed cache directory (or behind an open
//!      cache's back), then every (key, range) is read.

vcore::interpose!();

use std::collections::{BTreeMap, BTreeSet, VecDeque};
use std::panic::{catch_unwind, AssertUnwindSafe};
use std::path::{Path, PathBuf};
use std::sync::atomic::{AtomicUsize, Ordering};
use std::sync::{Arc, Mutex};
use std::time::{Duration, Instant};

use base64::Engine;
use cas_types::{ChunkRange, Key};
use chunk_cache::{CacheConfig, ChunkCache, DiskCache};
use merklehash::MerkleHash;
use vcore::report::{machinery_error, Args, Partial, Run, Tier};
use vcore::sched::{self, ExploreCfg, RunResult};
use vcore::util::{self, Scratch};
use vcore::vfs::HookGuard;
use vcore::{json, Value};

const B64: base64::engine::GeneralPurpose = base64::engine::general_purpose::URL_SAFE;
const NK: usize = 2;

// ------------------------------------------------------------------ universe

fn key(k: usize) -> Key {
    Key {
        prefix: "default".to_string(),
        hash: MerkleHash::from([0x1111_1111_1111_1111u64 * (k as u64 + 1), 7 + k as u64, 0xABCD, 0x42 + 1000 * k as u64]),
    }
}
/// Chunks 0..EQ have pairwise different lengths (so that a range is recognisable by its layout); chunks EQ.. all
/// have the same length, so that two different ranges of a key have byte-identical headers and total lengths and
/// differ in their data only - the case in which nothing but the data itself can tell a mixed-up item from a good one.
const EQ: usize = 8;
fn chunk_bytes(k: usize, c: usize) -> Vec<u8> {
    let len = if c >= EQ { 4 } else { 2 + c + 3 * k };
    (0..len).map(|i| (k * 64 + c * 16 + i) as u8).collect()
}
fn range_data(k: usize, i: usize, j: usize) -> (Vec<u32>, Vec<u8>) {
    let mut off = vec![0u32];
    let mut data = vec![];
    for c in i..j {
        data.extend_from_slice(&chunk_bytes(k, c));
        off.push(data.len() as u32);
    }
    (off, data)
}
fn item_len(k: usize, i: usize, j: usize) -> u64 {
    let (off, data) = range_data(k, i, j);
    ((off.len() + 1) * 4 + data.len()) as u64
}
fn key_dir_name(k: &Key) -> String {
    let mut buf = k.hash.as_bytes().to_vec();
    buf.extend_from_slice(k.prefix.as_bytes());
    B64.encode(buf)
}
fn item_file_name(range: &ChunkRange, len: u64, crc: u32) -> String {
    let mut buf = vec![];
    buf.extend_from_slice(&range.start.to_le_bytes());
    buf.extend_from_slice(&range.end.to_le_bytes());
    buf.extend_from_slice(&len.to_le_bytes());
    buf.extend_from_slice(&crc.to_le_bytes());
    B64.encode(buf)
}

#[derive(Clone, Debug, PartialEq, Eq, PartialOrd, Ord)]
enum Op {
    Put(usize, usize, usize),
    Get(usize, usize, usize),
    Reopen,
    /// delete the file of the tracked item (k, i, j) behind the open cache's back
    DeleteFile(usize, usize, usize),
    /// flip one bit in the data region of the file of item (k, i, j) (length unchanged), then re-open:
    /// the item is tracked but unverified and its CRC no longer matches
    DamageAndReopen(usize, usize, usize),
}
impl Op {
    fn to_json(&self) -> Value {
        match self {
            Op::Put(k, i, j) => json!({"put": [k, i, j]}),
            Op::Get(k, i, j) => json!({"get": [k, i, j]}),
            Op::Reopen => json!("reopen"),
            Op::DeleteFile(k, i, j) => json!({"delete_file": [k, i, j]}),
            Op::DamageAndReopen(k, i, j) => json!({"damage_and_reopen": [k, i, j]}),
        }
    }
    fn from_json(v: &Value) -> Op {
        let t = |a: &Value| -> (usize, usize, usize) { (a[0].as_u64().unwrap() as usize, a[1].as_u64().unwrap() as usize, a[2].as_u64().unwrap() as usize) };
        if v.is_string() {
            return Op::Reopen;
        }
        if v["put"].is_array() {
            let (k, i, j) = t(&v["put"]);
            return Op::Put(k, i, j);
        }
        if v["get"].is_array() {
            let (k, i, j) = t(&v["get"]);
            return Op::Get(k, i, j);
        }
        if v["damage_and_reopen"].is_array() {
            let (k, i, j) = t(&v["damage_and_reopen"]);
            return Op::DamageAndReopen(k, i, j);
        }
        let (k, i, j) = t(&v["delete_file"]);
        Op::DeleteFile(k, i, j)
    }
}

/// Capacity classes; the concrete byte value depends on the chunk universe size `nc`.
fn capacity(class: usize, nc: usize) -> u64 {
    let biggest = item_len(NK - 1, 0, nc);
    match class {
        0 => 10 << 30,
        1 => 2 * biggest,
        // exactly two one-chunk items of the two keys: inserting a two-chunk item has to evict both
        3 => item_len(0, 0, 1) + item_len(NK - 1, 0, 1),
        _ => biggest,
    }
}

// ------------------------------------------------------------------ observing one cache

struct Snap {
    n: usize,
    total: u64,
    /// (key index or 99, start, end, len, crc) in per-key order
    items: Vec<(usize, u32, u32, u64, u32)>,
}

fn key_index(k: &Key) -> usize {
    (0..NK).find(|i| &key(*i) == k).unwrap_or(99)
}

fn snapshot(c: &DiskCache) -> Result<Snap, String> {
    let (n, total, raw) = c.verif_snapshot().map_err(|e| format!("{e:?}"))?;
    // group by key (sorted), preserving the order within a key
    let mut by: BTreeMap<usize, Vec<(usize, u32, u32, u64, u32)>> = BTreeMap::new();
    for (k, r, len, crc) in raw {
        let ki = key_index(&k);
        by.entry(ki).or_default().push((ki, r.start, r.end, len, crc));
    }
    Ok(Snap {
        n,
        total,
        items: by.into_values().flatten().collect(),
    })
}

/// files under root at depth 3: (relative path, len)
fn cache_files(root: &Path) -> Vec<(String, u64)> {
    let _g = HookGuard::enter();
    util::list_tree(root).into_iter().filter(|(p, d, _)| !*d && p.matches('/').count() == 2).map(|(p, _, l)| (p, l)).collect()
}
fn all_entries(root: &Path) -> Vec<(String, bool, u64)> {
    let _g = HookGuard::enter();
    util::list_tree(root)
}

/// Invariants that must hold at every quiescent point (C13), from the snapshot and the directory.
fn check_accounting(s: &Snap, root: &Path, out: &mut Vec<(String, String)>) {
    if s.n != s.items.len() {
        out.push(("C13/num-items".into(), format!("num_items = {} but {} entries are tracked", s.n, s.items.len())));
    }
    let sum: u64 = s.items.iter().map(|i| i.3).sum();
    if s.total != sum {
        out.push(("C13/total-bytes".into(), format!("total_bytes = {} but the tracked entries sum to {sum}", s.total)));
    }
    let mut expected: BTreeSet<String> = BTreeSet::new();
    for (ki, a, b, len, crc) in &s.items {
        if *ki < NK {
            let kd = key_dir_name(&key(*ki));
            expected.insert(format!("{}/{}/{}", &kd[..2], kd, item_file_name(&ChunkRange { start: *a, end: *b }, *len, *crc)));
        }
    }
    for (p, _) in cache_files(root) {
        if !expected.contains(&p) {
            out.push(("C13/untracked-file-on-disk".into(), format!("file {p} belongs to no tracked entry")));
        }
    }
}

/// After reading every tracked entry back once, totals must equal the directory listing.
fn check_after_readback(c: &DiskCache, root: &Path, out: &mut Vec<(String, String)>) {
    let Ok(s) = snapshot(c) else { return };
    for (ki, a, b, _, _) in &s.items {
        if *ki < NK {
            let _ = catch_unwind(AssertUnwindSafe(|| c.get(&key(*ki), &ChunkRange { start: *a, end: *b })));
        }
    }
    let Ok(s2) = snapshot(c) else { return };
    check_accounting(&s2, root, out);
    let files = cache_files(root);
    let disk_total: u64 = files.iter().map(|f| f.1).sum();
    if files.len() != s2.n || disk_total != s2.total {
        out.push((
            "C13/totals-differ-from-disk-after-readback".into(),
            format!("after read-back: num_items {} total_bytes {}, on disk {} files {} bytes", s2.n, s2.total, files.len(), disk_total),
        ));
    }
}

#[derive(Debug, Clone, PartialEq)]
enum Res {
    Hit,
    WrongHit(String),
    Miss,
    Err(String),
    PutOk,
    Panic(String),
    Reopened,
    ReopenErr(String),
}

fn do_get(c: &DiskCache, k: usize, i: usize, j: usize) -> Res {
    let r = catch_unwind(AssertUnwindSafe(|| c.get(&key(k), &ChunkRange { start: i as u32, end: j as u32 })));
    match r {
        Err(p) => Res::Panic(format!("{} @ {}", util::panic_text(&p), util::last_panic_loc())),
        Ok(Err(e)) => Res::Err(format!("{e:?}")),
        Ok(Ok(None)) => Res::Miss,
        Ok(Ok(Some(cr))) => {
            let (off, data) = range_data(k, i, j);
            if cr.data.as_ref() != &data[..] {
                Res::WrongHit(format!("data differs: got {} bytes {:?}, want {:?}", cr.data.len(), &cr.data[..cr.data.len().min(12)], &data[..data.len().min(12)]))
            } else if cr.offsets.as_ref() != &off[..] {
                Res::WrongHit(format!("offsets {:?}, want {off:?}", cr.offsets))
            } else if cr.range.start != i as u32 || cr.range.end != j as u32 {
                Res::WrongHit(format!("range {:?}", cr.range))
            } else {
                Res::Hit
            }
        },
    }
}
fn do_put(c: &DiskCache, k: usize, i: usize, j: usize) -> Res {
    let (off, data) = range_data(k, i, j);
    let r = catch_unwind(AssertUnwindSafe(|| c.put(&key(k), &ChunkRange { start: i as u32, end: j as u32 }, &off, &data)));
    match r {
        Err(p) => Res::Panic(format!("{} @ {}", util::panic_text(&p), util::last_panic_loc())),
        Ok(Err(e)) => Res::Err(format!("{e:?}")),
        Ok(Ok(())) => Res::PutOk,
    }
}
fn open(root: &Path, cap: u64) -> Result<DiskCache, Res> {
    let r = catch_unwind(AssertUnwindSafe(|| {
        DiskCache::initialize(&CacheConfig {
            cache_directory: root.to_path_buf(),
            cache_size: cap,
        })
    }));
    match r {
        Err(p) => Err(Res::Panic(format!("{} @ {}", util::panic_text(&p), util::last_panic_loc()))),
        Ok(Err(e)) => Err(Res::ReopenErr(format!("{e:?}"))),
        Ok(Ok(c)) => Ok(c),
    }
}

fn res_violation(op: &Op, r: &Res) -> Option<(String, String)> {
    match r {
        Res::WrongHit(w) => Some(("C12/hit-returns-wrong-data".into(), format!("{op:?}: {w}"))),
        Res::Panic(p) => {
            let loc = p.rsplit(" @ ").next().unwrap_or("").replace("/repo/", "");
            Some((format!("C12/panic:{loc}"), format!("{op:?} panicked: {p}")))
        },
        _ => None,
    }
}

// ------------------------------------------------------------------ (a) sequential BFS

type Step = (Op, Vec<usize>);

struct SeqOutcome {
    canon: String,
    violations: Vec<(String, String)>,
    last_seen: Vec<(usize, usize, &'static str)>,
    evicted: bool,
}

/// Replays `hist` on a fresh directory (each step under its recorded script) and checks every step.
fn run_seq(dir: &Path, cap: u64, hist: &[Step]) -> SeqOutcome {
    {
        let _g = HookGuard::enter();
        let _ = std::fs::remove_dir_all(dir);
        std::fs::create_dir_all(dir).unwrap();
    }
    let mut vio = vec![];
    let mut last_seen = vec![];
    let mut evicted = false;
    let mut cache = match open(dir, cap) {
        Ok(c) => c,
        Err(r) => {
            return SeqOutcome {
                canon: "open-failed".into(),
                violations: vec![("C12/initialize-fails-on-empty-dir".into(), format!("{r:?}"))],
                last_seen,
                evicted,
            }
        },
    };
    for (si, (op, script)) in hist.iter().enumerate() {
        let before = snapshot(&cache).ok();
        let (res, seen) = sched::with_script(script, || match op {
            Op::Put(k, i, j) => do_put(&cache, *k, *i, *j),
            Op::Get(k, i, j) => do_get(&cache, *k, *i, *j),
            Op::DeleteFile(k, i, j) => {
                let _g = HookGuard::enter();
                let kd = key_dir_name(&key(*k));
                if let Some(s) = &before {
                    for (ki, a, b, len, crc) in &s.items {
                        if ki == k && *a == *i as u32 && *b == *j as u32 {
                            let p = dir.join(&kd[..2]).join(&kd).join(item_file_name(&ChunkRange { start: *a, end: *b }, *len, *crc));
                            let _ = std::fs::remove_file(p);
                        }
                    }
                }
                Res::PutOk
            },
            Op::Reopen => Res::Reopened,
            Op::DamageAndReopen(..) => Res::Reopened, // only used in the pre-history of concurrent harnesses
        });
        if let Op::Reopen = op {
            drop(cache);
            match open(dir, cap) {
                Ok(c) => cache = c,
                Err(r) => {
                    let sig = if let Res::Panic(p) = &r { format!("C12/panic:{}", p.rsplit(" @ ").next().unwrap_or("").replace("/repo/", "")) } else { "C12/reopen-fails".to_string() };
                    vio.push((sig, format!("step {si} reopen: {r:?}")));
                    return SeqOutcome {
                        canon: "reopen-failed".into(),
                        violations: vio,
                        last_seen,
                        evicted,
                    };
                },
            }
            // equal after re-opening with the same capacity
            let deleted_before = hist[..si].iter().any(|(o, _)| matches!(o, Op::DeleteFile(..)));
            if let (false, Some(b), Ok(a)) = (deleted_before, &before, snapshot(&cache)) {
                let mut x = b.items.clone();
                let mut y = a.items.clone();
                x.sort();
                y.sort();
                if x != y || b.n != a.n || b.total != a.total {
                    vio.push(("C13/reopen-differs".into(), format!("step {si}: before reopen {} items/{} bytes, after {} items/{} bytes", b.n, b.total, a.n, a.total)));
                }
            }
        }
        if si + 1 == hist.len() {
            last_seen = seen;
        }
        if let Some(v) = res_violation(op, &res) {
            vio.push((v.0, format!("step {si}: {}", v.1)));
        }
        if let Ok(s) = snapshot(&cache) {
            if !matches!(op, Op::DeleteFile(..)) {
                let mut v = vec![];
                check_accounting(&s, dir, &mut v);
                for (sig, w) in v {
                    // a file deleted behind the cache's back is "racing deletion": tracked but absent is allowed
                    vio.push((sig, format!("step {si} ({op:?}): {w}")));
                }
            }
            if let (Op::Put(..), Res::PutOk) = (op, &res) {
                if s.total > cap {
                    vio.push(("C13/capacity-exceeded".into(), format!("step {si} ({op:?}): total_bytes {} > capacity {cap}", s.total)));
                }
                if let Some(b) = &before {
                    if b.items.iter().any(|x| !s.items.contains(x)) {
                        evicted = true;
                    }
                }
            }
        }
    }
    // canonical state before the read-back (which may mutate)
    let canon = match snapshot(&cache) {
        Ok(s) => format!("{:?}|{}|{}|{:?}", s.items, s.n, s.total, all_entries(dir)),
        Err(e) => format!("snapshot-error {e}"),
    };
    if !hist.iter().any(|(o, _)| matches!(o, Op::DeleteFile(..))) {
        let mut v = vec![];
        check_after_readback(&cache, dir, &mut v);
        for (sig, w) in v {
            vio.push((sig, format!("at the end: {w}")));
        }
    }
    SeqOutcome {
        canon,
        violations: vio,
        last_seen,
        evicted,
    }
}

fn seq_ops(nc: usize, with_delete: bool) -> Vec<Op> {
    let mut v = vec![];
    for k in 0..NK {
        for i in 0..nc {
            for j in i + 1..=nc {
                v.push(Op::Put(k, i, j));
            }
        }
    }
    for k in 0..NK {
        for i in 0..nc {
            for j in i + 1..=nc {
                v.push(Op::Get(k, i, j));
            }
        }
    }
    v.push(Op::Reopen);
    if with_delete {
        for k in 0..NK {
            v.push(Op::DeleteFile(k, 0, nc));
            v.push(Op::DeleteFile(k, 0, 1));
        }
    }
    v
}

fn hist_json(cap_class: usize, nc: usize, hist: &[Step]) -> Value {
    json!({"part": "seq", "cap_class": cap_class, "nc": nc, "history": hist.iter().map(|(o, s)| json!({"op": o.to_json(), "script": s})).collect::<Vec<_>>()})
}

/// BFS over histories for one capacity class; returns (states, transitions).
fn bfs(cap_class: usize, nc: usize, depth: usize, with_delete: bool, scratch: &Path, out: &mut Partial, deadline: Instant) -> (u64, u64, bool) {
    let cap = capacity(cap_class, nc);
    let ops = seq_ops(nc, with_delete);
    let mut seen: BTreeSet<String> = BTreeSet::new();
    let mut frontier: VecDeque<Vec<Step>> = VecDeque::new();
    frontier.push_back(vec![]);
    let mut transitions = 0u64;
    let mut complete = true;
    // parallel expansion of one BFS level at a time
    for d in 0..depth {
        let level: Vec<Vec<Step>> = frontier.drain(..).collect();
        if level.is_empty() {
            break;
        }
        let next_hists: Mutex<Vec<(String, Vec<Step>)>> = Mutex::new(vec![]);
        let parts: Mutex<Vec<Partial>> = Mutex::new(vec![]);
        let idx = AtomicUsize::new(0);
        let tcount = AtomicUsize::new(0);
        let timed_out = std::sync::atomic::AtomicBool::new(false);
        std::thread::scope(|sc| {
            for t in 0..16 {
                let (level, ops, next_hists, parts, idx, tcount, timed_out) = (&level, &ops, &next_hists, &parts, &idx, &tcount, &timed_out);
                let dir = scratch.join(format!("bfs-c{cap_class}-t{t}"));
                sc.spawn(move || {
                    util::quiet_panics();
                    let mut p = Partial::default();
                    loop {
                        let i = idx.fetch_add(1, Ordering::SeqCst);
                        if i >= level.len() {
                            break;
                        }
                        if Instant::now() > deadline {
                            timed_out.store(true, Ordering::SeqCst);
                            break;
                        }
                        for op in ops.iter() {
                            // enumerate every script (eviction victim choices) of the new last step
                            let mut stack: Vec<Vec<usize>> = vec![vec![]];
                            while let Some(script) = stack.pop() {
                                let mut h = level[i].clone();
                                h.push((op.clone(), script.clone()));
                                let o = run_seq(&dir, cap, &h);
                                tcount.fetch_add(1, Ordering::Relaxed);
                                let full: Vec<usize> = o.last_seen.iter().map(|s| s.1).collect();
                                for q in script.len()..o.last_seen.len() {
                                    for alt in 1..o.last_seen[q].0 {
                                        let mut s2 = full[..q].to_vec();
                                        s2.push(alt);
                                        stack.push(s2);
                                    }
                                }
                                h.last_mut().unwrap().1 = full;
                                if o.evicted {
                                    p.count("vac:seq_puts_that_evicted", 1);
                                }
                                if o.last_seen.len() > 0 {
                                    p.count("vac:seq_eviction_choices_asked", 1);
                                }
                                for (sig, w) in o.violations {
                                    p.violation(&sig, format!("sequential history (capacity class {cap_class}): {w}"), hist_json(cap_class, nc, &h));
                                }
                                next_hists.lock().unwrap().push((o.canon, h));
                            }
                        }
                    }
                    parts.lock().unwrap().push(p);
                });
            }
        });
        transitions += tcount.load(Ordering::SeqCst) as u64;
        for p in parts.into_inner().unwrap() {
            out.merge(p);
        }
        if timed_out.load(Ordering::SeqCst) {
            complete = false;
            out.notes.push(format!("BFS capacity class {cap_class}: depth {} not completed within the time budget", d + 1));
            break;
        }
        let mut nh = next_hists.into_inner().unwrap();
        nh.sort(); // deterministic representative per state
        for (canon, h) in nh {
            if seen.insert(canon) {
                if seen.len() <= 3 {
                    out.sample(hist_json(cap_class, nc, &h));
                }
                frontier.push_back(h);
            }
        }
        out.max(&format!("max:bfs_depth_completed_cap{cap_class}"), (d + 1) as u64);
    }
    for s in &seen {
        out.distinct(format!("seq|{cap_class}|{:x}", fxhash(s)));
    }
    (seen.len() as u64, transitions, complete)
}

fn fxhash(s: &str) -> u64 {
    let mut h = 0xcbf29ce484222325u64;
    for b in s.bytes() {
        h ^= b as u64;
        h = h.wrapping_mul(0x100000001b3);
    }
    h
}

// ------------------------------------------------------------------ (b) E1 concurrent harnesses

#[derive(Clone, Debug)]
struct Harness {
    name: String,
    cap_class: usize,
    nc: usize,
    pre: Vec<Op>,
    threads: Vec<Vec<Op>>,
}
impl Harness {
    fn to_json(&self) -> Value {
        json!({"name": self.name, "cap_class": self.cap_class, "nc": self.nc,
            "pre": self.pre.iter().map(|o| o.to_json()).collect::<Vec<_>>(),
            "threads": self.threads.iter().map(|t| t.iter().map(|o| o.to_json()).collect::<Vec<_>>()).collect::<Vec<_>>()})
    }
    fn from_json(v: &Value) -> Harness {
        Harness {
            name: v["name"].as_str().unwrap_or("replay").into(),
            cap_class: v["cap_class"].as_u64().unwrap_or(0) as usize,
            nc: v["nc"].as_u64().unwrap_or(3) as usize,
            pre: v["pre"].as_array().map(|a| a.iter().map(Op::from_json).collect()).unwrap_or_default(),
            threads: v["threads"].as_array().map(|a| a.iter().map(|t| t.as_array().map(|x| x.iter().map(Op::from_json).collect()).unwrap_or_default()).collect()).unwrap_or_default(),
        }
    }
}

fn harnesses(tier: Tier) -> Vec<Harness> {
    use Op::*;
    let h = |name: &str, cap: usize, pre: Vec<Op>, threads: Vec<Vec<Op>>| Harness {
        name: name.into(),
        cap_class: cap,
        nc: 3,
        pre,
        threads,
    };
    let mut v = vec![
        h("put||put identical", 0, vec![], vec![vec![Put(0, 0, 2)], vec![Put(0, 0, 2)]]),
        h("put||put nested", 0, vec![], vec![vec![Put(0, 0, 3)], vec![Put(0, 1, 2)]]),
        h("get||subsuming put", 0, vec![Put(0, 1, 2)], vec![vec![Get(0, 1, 2)], vec![Put(0, 0, 3)]]),
        h("get||evicting put (cap 1)", 2, vec![Put(0, 0, 2)], vec![vec![Get(0, 0, 2)], vec![Put(1, 0, 3)]]),
        h("put||put that evicts it (cap 1)", 2, vec![], vec![vec![Put(0, 0, 2)], vec![Put(1, 0, 2)]]),
        h("put into key dir being emptied (cap 1)", 2, vec![Put(0, 0, 1)], vec![vec![Put(1, 0, 3)], vec![Put(0, 1, 2)]]),
        h("put,get||put,get identical", 0, vec![], vec![vec![Put(0, 0, 2), Get(0, 0, 2)], vec![Put(0, 0, 2), Get(0, 1, 2)]]),
        h("get||get unverified after reopen", 0, vec![Put(0, 0, 3), Reopen], vec![vec![Get(0, 0, 3)], vec![Get(0, 1, 2)]]),
        h("get||get of an item damaged while closed", 0, vec![Put(0, 0, 3), DamageAndReopen(0, 0, 3)], vec![vec![Get(0, 0, 3)], vec![Get(0, 2, 3)]]),
        h("get||put over an item damaged while closed", 0, vec![Put(0, 0, 3), DamageAndReopen(0, 0, 3)], vec![vec![Get(0, 2, 3)], vec![Put(0, 2, 3)]]),
        h("get||identical put over an item damaged while closed", 0, vec![Put(0, 0, 3), DamageAndReopen(0, 0, 3)], vec![vec![Get(0, 0, 3)], vec![Put(0, 0, 3)]]),
        h("put,put||put identical then nested", 0, vec![], vec![vec![Put(0, 0, 2), Put(0, 0, 3)], vec![Put(0, 0, 2)]]),
        h("put evicting two keys||put into one of their directories", 3, vec![Put(0, 0, 1), Put(1, 0, 1)], vec![vec![Put(1, 1, 3)], vec![Put(0, 1, 2)]]),
        h("put,get||put,get disjoint ranges of equal layout", 0, vec![], vec![vec![Put(0, EQ, EQ + 1), Get(0, EQ, EQ + 1)], vec![Put(0, EQ + 1, EQ + 2), Get(0, EQ + 1, EQ + 2)]]),
        h("put,get||put,get overlapping ranges of equal layout", 0, vec![], vec![vec![Put(0, EQ, EQ + 2), Get(0, EQ, EQ + 2)], vec![Put(0, EQ + 1, EQ + 3), Get(0, EQ + 1, EQ + 3)]]),
    ];
    if tier == Tier::Thorough {
        v.extend(vec![
            h("put||put||put identical", 0, vec![], vec![vec![Put(0, 0, 2)], vec![Put(0, 0, 2)], vec![Put(0, 0, 2)]]),
            h("put||put overlapping", 0, vec![], vec![vec![Put(0, 0, 2)], vec![Put(0, 1, 3)]]),
            h("put||put disjoint", 0, vec![], vec![vec![Put(0, 0, 1)], vec![Put(0, 2, 3)]]),
            h("put||put different keys", 0, vec![], vec![vec![Put(0, 0, 2)], vec![Put(1, 0, 2)]]),
            h("get||evicting put (cap 2, two victims)", 1, vec![Put(0, 0, 1), Put(1, 0, 1)], vec![vec![Get(0, 0, 1)], vec![Put(1, 0, 3)]]),
            h("put||evicting put (cap 2)", 1, vec![Put(0, 0, 2), Put(1, 0, 2)], vec![vec![Put(0, 2, 3)], vec![Put(1, 0, 3)]]),
            h("identical puts||get", 0, vec![], vec![vec![Put(0, 0, 2)], vec![Put(0, 0, 2)], vec![Get(0, 0, 2)]]),
            h("subsuming put||subsumed put||get", 0, vec![], vec![vec![Put(0, 0, 3)], vec![Put(0, 0, 1)], vec![Get(0, 0, 1)]]),
            h("put||put identical after reopen", 0, vec![Put(0, 0, 2), Reopen], vec![vec![Put(0, 0, 2)], vec![Put(0, 0, 2)]]),
            h("evicting put||evicting put (cap 1)", 2, vec![Put(0, 0, 1)], vec![vec![Put(1, 0, 2)], vec![Put(1, 1, 3)]]),
            h("get||get||subsuming put", 0, vec![Put(0, 1, 2)], vec![vec![Get(0, 1, 2)], vec![Get(0, 1, 2)], vec![Put(0, 0, 3)]]),
            h("get||get||get of an item damaged while closed", 0, vec![Put(0, 0, 3), DamageAndReopen(0, 0, 3)], vec![vec![Get(0, 0, 3)], vec![Get(0, 2, 3)], vec![Get(0, 1, 3)]]),
            h("put,get||put,get one range of two keys, equal layout", 0, vec![], vec![vec![Put(0, EQ, EQ + 1), Get(0, EQ, EQ + 1)], vec![Put(1, EQ, EQ + 1), Get(1, EQ, EQ + 1)]]),
            h("put||put||get,get disjoint ranges of equal layout", 0, vec![], vec![vec![Put(0, EQ, EQ + 1)], vec![Put(0, EQ + 1, EQ + 2)], vec![Get(0, EQ, EQ + 1), Get(0, EQ + 1, EQ + 2)]]),
            h("get||get of a damaged item with an intact fallback", 0, vec![Put(0, 2, 3), Put(0, 0, 2), Put(0, 1, 3), DamageAndReopen(0, 1, 3)], vec![vec![Get(0, 2, 3)], vec![Get(0, 2, 3)]]),
        ]);
    }
    v
}

struct ConcObs {
    results: Vec<(usize, Op, Res)>,
    final_violations: Vec<(String, String)>,
}

static DIR_COUNTER: AtomicUsize = AtomicUsize::new(0);

fn conc_body(h: Harness, scratch: PathBuf, slot: Arc<Mutex<Option<ConcObs>>>) {
    let cap = capacity(h.cap_class, h.nc);
    let dir = scratch.join(format!("x{}", DIR_COUNTER.fetch_add(1, Ordering::SeqCst)));
    {
        let _g = HookGuard::enter();
        let _ = std::fs::remove_dir_all(&dir);
        std::fs::create_dir_all(&dir).unwrap();
    }
    let results: Arc<Mutex<Vec<(usize, Op, Res)>>> = Arc::new(Mutex::new(vec![]));
    let mut cache = open(&dir, cap).expect("open fresh cache");
    // pre-history runs on the root thread before the others exist (no scheduling decisions)
    for op in &h.pre {
        match op {
            Op::Put(k, i, j) => {
                let r = do_put(&cache, *k, *i, *j);
                results.lock().unwrap().push((99, op.clone(), r));
            },
            Op::Reopen => {
                drop(cache);
                cache = open(&dir, cap).expect("reopen in pre-history");
            },
            Op::DamageAndReopen(k, i, j) => {
                drop(cache);
                {
                    let _g = HookGuard::enter();
                    for (p, _) in cache_files(&dir) {
                        let name = p.rsplit('/').next().unwrap_or("");
                        if let Ok(buf) = B64.decode(name) {
                            if buf.len() == 20 && u32::from_le_bytes(buf[0..4].try_into().unwrap()) == *i as u32 && u32::from_le_bytes(buf[4..8].try_into().unwrap()) == *j as u32 && p.contains(&key_dir_name(&key(*k))) {
                                let mut b = std::fs::read(dir.join(&p)).unwrap();
                                let last = b.len() - 1;
                                b[last] ^= 0x10;
                                std::fs::write(dir.join(&p), b).unwrap();
                            }
                        }
                    }
                }
                cache = open(&dir, cap).expect("reopen after damage in pre-history");
            },
            _ => {},
        }
    }
    let cache = Arc::new(cache);
    let mut hs = vec![];
    for (t, ops) in h.threads.iter().enumerate() {
        let (cache, ops, results) = (cache.clone(), ops.clone(), results.clone());
        hs.push(sched::spawn(move || {
            for op in ops {
                let r = match &op {
                    Op::Put(k, i, j) => do_put(&cache, *k, *i, *j),
                    Op::Get(k, i, j) => do_get(&cache, *k, *i, *j),
                    _ => Res::Miss,
                };
                sched::log(format!("{op:?} -> {}", short(&r)));
                results.lock().unwrap().push((t, op, r));
            }
        }));
    }
    for hd in hs {
        let _ = hd.join();
    }
    // quiescent: accounting, capacity, read-back
    let mut fv = vec![];
    match snapshot(&cache) {
        Ok(s) => {
            check_accounting(&s, &dir, &mut fv);
            if s.total > cap {
                fv.push(("C13/capacity-exceeded".into(), format!("total_bytes {} > capacity {cap} at the quiescent end", s.total)));
            }
            sched::log(format!("final n={} total={} items={:?}", s.n, s.total, s.items));
        },
        Err(e) => fv.push(("C13/snapshot-error".into(), e)),
    }
    check_after_readback(&cache, &dir, &mut fv);
    let r = results.lock().unwrap().clone();
    *slot.lock().unwrap() = Some(ConcObs {
        results: r,
        final_violations: fv,
    });
    drop(cache);
    let _g = HookGuard::enter();
    let _ = std::fs::remove_dir_all(&dir);
}

fn short(r: &Res) -> String {
    match r {
        Res::Err(e) => format!("Err({})", &e[..e.len().min(40)]),
        Res::Panic(p) => format!("Panic({})", &p[..p.len().min(60)]),
        Res::WrongHit(_) => "WrongHit".into(),
        o => format!("{o:?}"),
    }
}

fn explore_harness(h: &Harness, bound: usize, scratch: &Path, deadline: Instant, out: &mut Partial, machinery: &mut Vec<String>) -> (usize, usize, bool) {
    let cfg = ExploreCfg {
        bound,
        deadline: Some(deadline),
        ..Default::default()
    };
    let slot: Arc<Mutex<Option<ConcObs>>> = Arc::new(Mutex::new(None));
    let (h2, s2, sc2) = (h.clone(), slot.clone(), scratch.to_path_buf());
    let body = move || conc_body(h2.clone(), sc2.clone(), s2.clone());
    let s3 = slot.clone();
    let check = move |r: &RunResult| -> Result<String, String> {
        if let Some(a) = &r.aborted {
            let sig = if a.starts_with("deadlock") { "C12/deadlock" } else { "C12/livelock" };
            return Err(format!("{sig}|{a}"));
        }
        if let Some(p) = &r.panic {
            return Err(format!("C12/harness-panic|{p}"));
        }
        let obs = s3.lock().unwrap().take().ok_or_else(|| "C12/harness-panic|no observation".to_string())?;
        for (t, op, res) in &obs.results {
            if let Some((sig, w)) = res_violation(op, res) {
                return Err(format!("{sig}|thread {t}: {w}"));
            }
        }
        if let Some((sig, w)) = obs.final_violations.first() {
            return Err(format!("{sig}|{w}"));
        }
        Ok(r.log.join(";"))
    };
    let st = sched::explore(&cfg, body, &check);
    out.count("conc_schedules", st.executions as u64);
    out.count("conc_decisions", st.decisions as u64);
    out.count("conc_steps", st.steps as u64);
    out.count("conc_replays_checked", st.replays_checked as u64);
    out.max("max:conc_trace_len", st.max_trace as u64);
    for m in st.machinery {
        machinery.push(format!("{}: {m}", h.name));
    }
    for (choices, trace, msg) in st.violations {
        let (sig, text) = msg.split_once('|').unwrap_or(("C12/violation", &msg));
        // shape-specific signature: the harness name is part of it (so a different race is still reported)
        let sig = format!("{sig}@{}", h.name.replace(' ', "_"));
        out.violation(&sig, format!("harness '{}' bound {bound}: {text}", h.name), json!({"part": "conc", "harness": h.to_json(), "bound": bound, "choices": choices, "trace": trace}));
    }
    for o in st.outcomes.keys() {
        out.distinct(format!("conc|{}|{:x}", h.name, fxhash(o)));
    }
    let hits = st.outcomes.keys().filter(|o| o.contains("Hit")).count();
    out.count("vac:conc_outcomes_with_a_hit", hits as u64);
    (st.executions, st.outcomes.len(), st.capped)
}

// ------------------------------------------------------------------ (c) damage

#[derive(Clone, Debug)]
enum Fault {
    FlipBits { file: String, bit: usize, len: usize },
    Truncate { file: String, to: usize },
    Extend { file: String, by: usize },
    Delete { path: String },
    Rename { path: String, to: String },
    /// rename an item file to the well-formed name of another range with the SAME start, keeping the length and crc
    /// fields (the one kind of forged name the code can tell: the chunk table inside no longer fits the range)
    RenameRange { path: String, to: String },
    /// rename an item file to the well-formed name of a range with ANOTHER start (same width, length and crc fields),
    /// or move it unchanged into the directory of another key: the format checksums header and data, not key or
    /// range, so these the code cannot tell (recorded as a known finding: a hit returns the other range's / key's bytes)
    RenameShift { path: String, to: String },
    MoveToKey { path: String, to: String },
    PlantFile { path: String, size: usize },
    PlantDir { path: String },
}
impl Fault {
    fn to_json(&self) -> Value {
        json!(format!("{self:?}"))
    }
}

fn apply_fault(root: &Path, f: &Fault) {
    let _g = HookGuard::enter();
    match f {
        Fault::FlipBits { file, bit, len } => {
            let p = root.join(file);
            let mut b = std::fs::read(&p).unwrap();
            for q in *bit..(*bit + *len).min(b.len() * 8) {
                b[q / 8] ^= 1 << (q % 8);
            }
            std::fs::write(&p, b).unwrap();
        },
        Fault::Truncate { file, to } => {
            let p = root.join(file);
            let b = std::fs::read(&p).unwrap();
            std::fs::write(&p, &b[..*to]).unwrap();
        },
        Fault::Extend { file, by } => {
            let p = root.join(file);
            let mut b = std::fs::read(&p).unwrap();
            b.extend(std::iter::repeat(0xA5).take(*by));
            std::fs::write(&p, b).unwrap();
        },
        Fault::Delete { path } => {
            let p = root.join(path);
            if p.is_dir() {
                let _ = std::fs::remove_dir_all(&p);
            } else {
                let _ = std::fs::remove_file(&p);
            }
        },
        Fault::Rename { path, to } | Fault::RenameRange { path, to } | Fault::RenameShift { path, to } | Fault::MoveToKey { path, to } => {
            if let Some(parent) = root.join(to).parent() {
                let _ = std::fs::create_dir_all(parent);
            }
            let _ = std::fs::rename(root.join(path), root.join(to));
        },
        Fault::PlantFile { path, size } => {
            let p = root.join(path);
            if let Some(d) = p.parent() {
                let _ = std::fs::create_dir_all(d);
            }
            let _ = std::fs::write(p, vec![0x5Au8; *size]);
        },
        Fault::PlantDir { path } => {
            let _ = std::fs::create_dir_all(root.join(path));
        },
    }
}

fn faults_for(template: &Path, tier: Tier) -> Vec<Fault> {
    let entries = util::list_tree(template);
    let mut v = vec![];
    let files: Vec<(String, u64)> = entries.iter().filter(|e| !e.1).map(|e| (e.0.clone(), e.2)).collect();
    let dirs: Vec<String> = entries.iter().filter(|e| e.1).map(|e| e.0.clone()).collect();
    for (f, len) in &files {
        let bits = *len as usize * 8;
        let bit_step = tier.pick(3, 1);
        for blen in [1usize, 2, 8, 31, 32] {
            let mut b = 0;
            while b < bits {
                v.push(Fault::FlipBits { file: f.clone(), bit: b, len: blen });
                b += bit_step;
            }
        }
        for to in 0..*len as usize {
            v.push(Fault::Truncate { file: f.clone(), to });
        }
        for by in 1..=8 {
            v.push(Fault::Extend { file: f.clone(), by });
        }
        v.push(Fault::Delete { path: f.clone() });
        let parent = Path::new(f).parent().unwrap().to_string_lossy().to_string();
        for junk in ["junk", "AAAA", "not-base64-!!", ".leftover.tmp"] {
            v.push(Fault::Rename { path: f.clone(), to: format!("{parent}/{junk}") });
        }
        // the same item under the name of a narrower or wider range (same start, same length and crc fields)
        if let Some(raw) = Path::new(f).file_name().and_then(|n| B64.decode(n.to_string_lossy().as_bytes()).ok()).filter(|r| r.len() == 20) {
            let start = u32::from_le_bytes(raw[0..4].try_into().unwrap());
            let end = u32::from_le_bytes(raw[4..8].try_into().unwrap());
            let len = u64::from_le_bytes(raw[8..16].try_into().unwrap());
            let crc = u32::from_le_bytes(raw[16..20].try_into().unwrap());
            for new_end in start + 1..=4 {
                if new_end != end {
                    v.push(Fault::RenameRange { path: f.clone(), to: format!("{parent}/{}", item_file_name(&ChunkRange { start, end: new_end }, len, crc)) });
                }
            }
            // the same width at another start
            v.push(Fault::RenameShift { path: f.clone(), to: format!("{parent}/{}", item_file_name(&ChunkRange { start: start + 1, end: end + 1 }, len, crc)) });
            if start > 0 {
                v.push(Fault::RenameShift { path: f.clone(), to: format!("{parent}/{}", item_file_name(&ChunkRange { start: start - 1, end: end - 1 }, len, crc)) });
            }
            // the same file under the other key's directory
            for k in 0..NK {
                let kd = key_dir_name(&key(k));
                let dest = format!("{}/{kd}", &kd[..2]);
                if dest != parent {
                    v.push(Fault::MoveToKey { path: f.clone(), to: format!("{dest}/{}", Path::new(f).file_name().unwrap().to_string_lossy()) });
                }
            }
        }
    }
    for d in &dirs {
        v.push(Fault::Delete { path: d.clone() });
        let parent = Path::new(d).parent().map(|p| p.to_string_lossy().to_string()).unwrap_or_default();
        let pre = if parent.is_empty() { String::new() } else { format!("{parent}/") };
        for junk in ["zz", "QUJD", "x"] {
            v.push(Fault::Rename { path: d.clone(), to: format!("{pre}{junk}") });
        }
    }
    // planted junk at each of the three levels
    let valid_key_dir = key_dir_name(&key(1));
    let long_b64 = B64.encode([7u8; 45]);
    let short_b64 = B64.encode([7u8; 3]);
    let b64_31 = B64.encode([9u8; 31]);
    let b64_32_nonutf8 = B64.encode([[1u8; 32].to_vec(), vec![0xff, 0xfe]].concat());
    let level1_names = ["junkfile", "ab", "a", "abc", "!!"];
    for n in level1_names {
        v.push(Fault::PlantFile { path: n.to_string(), size: 5 });
        v.push(Fault::PlantDir { path: n.to_string() });
    }
    let mut prefix_dirs: Vec<String> = dirs.iter().filter(|d| !d.contains('/')).cloned().collect();
    prefix_dirs.push("zz".into());
    for pd in &prefix_dirs {
        for n in [short_b64.as_str(), long_b64.as_str(), b64_31.as_str(), b64_32_nonutf8.as_str(), "!!!!", "ab", valid_key_dir.as_str(), "QQ"] {
            v.push(Fault::PlantDir { path: format!("{pd}/{n}") });
            v.push(Fault::PlantFile { path: format!("{pd}/{n}"), size: 3 });
            // a key-like directory holding an item-like file
            v.push(Fault::PlantFile { path: format!("{pd}/{n}/{}", item_file_name(&ChunkRange { start: 0, end: 1 }, 3, 0)), size: 3 });
        }
    }
    // key-directory-like names that BEGIN with their prefix directory's two characters (anything else is skipped as
    // misplaced before its name is ever decoded): canonical base64 of 3, 6, 30, 32, 33 and 45 bytes
    for pd in &prefix_dirs {
        for total in [4usize, 8, 40, 44, 60] {
            let name = format!("{pd}{}", "A".repeat(total - pd.len()));
            v.push(Fault::PlantDir { path: format!("{pd}/{name}") });
            v.push(Fault::PlantFile { path: format!("{pd}/{name}"), size: 3 });
            v.push(Fault::PlantFile { path: format!("{pd}/{name}/{}", item_file_name(&ChunkRange { start: 0, end: 1 }, 3, 0)), size: 3 });
        }
        // 43 characters + padding: exactly the 32 bytes of a hash and an empty prefix
        let name = format!("{pd}{}=", "A".repeat(43 - pd.len()));
        v.push(Fault::PlantDir { path: format!("{pd}/{name}") });
        v.push(Fault::PlantFile { path: format!("{pd}/{name}/{}", item_file_name(&ChunkRange { start: 0, end: 1 }, 3, 0)), size: 3 });
    }
    let key_dirs: Vec<String> = dirs.iter().filter(|d| d.matches('/').count() == 1).cloned().collect();
    for kd in &key_dirs {
        let wrong_len = item_file_name(&ChunkRange { start: 0, end: 2 }, 999, 1);
        let right_len_bad_crc = item_file_name(&ChunkRange { start: 0, end: 1 }, 14, 0xdeadbeef);
        let inverted = item_file_name(&ChunkRange { start: 2, end: 1 }, 10, 1);
        for (n, size) in [(".x.abcdefghij.tmp", 4usize), ("AAAA", 4), ("!!", 2), (wrong_len.as_str(), 10), (right_len_bad_crc.as_str(), 14), (inverted.as_str(), 10), (long_b64.as_str(), 1)] {
            v.push(Fault::PlantFile { path: format!("{kd}/{n}"), size });
        }
        v.push(Fault::PlantDir { path: format!("{kd}/subdir") });
        v.push(Fault::PlantDir { path: format!("{kd}/{}", item_file_name(&ChunkRange { start: 0, end: 1 }, 14, 5)) });
    }
    v
}

fn damage(tier: Tier, scratch: &Path, out: &mut Partial) -> u64 {
    use Op::*;
    let nc = 3;
    let bases: Vec<Vec<Op>> = vec![
        vec![Put(0, 0, 3)],
        vec![Put(0, 0, 1), Put(0, 1, 3)],
        vec![Put(0, 0, 2), Put(1, 0, 3)],
        vec![Put(0, 1, 2), Put(0, 0, 3)],
        vec![Put(0, 0, 1), Put(1, 1, 2), Put(0, 2, 3)],
        vec![Put(1, 0, 3), Get(1, 0, 3), Put(1, 0, 1)],
    ];
    let bases = if tier == Tier::Quick { bases[..4].to_vec() } else { bases };
    let cap = capacity(0, nc);
    // (base, fault, applied while open, capacity of the re-opened cache, re-put the base's items after re-opening)
    let mut cases: Vec<(usize, Fault, bool, u64, bool)> = vec![];
    let mut templates = vec![];
    for (bi, b) in bases.iter().enumerate() {
        let t = scratch.join(format!("tmpl{bi}"));
        let hist: Vec<Step> = b.iter().map(|o| (o.clone(), vec![])).collect();
        let o = run_seq(&t, cap, &hist);
        for (sig, w) in o.violations {
            out.violation(&sig, format!("damage base {bi}: {w}"), hist_json(0, nc, &hist));
        }
        // re-open capacities: unchanged, and two smaller ones under which the scan leaves files on disk
        // untracked (a file longer than the capacity is skipped; the scan stops at twice the capacity)
        let lens: Vec<u64> = util::list_tree(&t).iter().filter(|e| !e.1).map(|e| e.2).collect();
        let mut rcaps = vec![cap];
        if let (Some(mx), Some(mn)) = (lens.iter().max(), lens.iter().min()) {
            for c in [*mx - 1, *mn] {
                if c > 0 && !rcaps.contains(&c) {
                    rcaps.push(c);
                }
            }
        }
        for f in faults_for(&t, tier) {
            cases.push((bi, f.clone(), false, cap, false));
            // content damage that keeps or changes the length, then the same items are put again
            if matches!(f, Fault::FlipBits { len: 1 | 32, .. } | Fault::Truncate { .. } | Fault::Extend { .. } | Fault::Delete { .. }) {
                for &rc in &rcaps {
                    cases.push((bi, f.clone(), false, rc, true));
                    if rc != cap {
                        cases.push((bi, f.clone(), false, rc, false));
                    }
                }
                if matches!(f, Fault::FlipBits { .. }) {
                    cases.push((bi, f.clone(), true, cap, true));
                }
            }
            // a renamed item and then the same items put again (the put meets the renamed item as a covering match)
            if matches!(f, Fault::RenameRange { .. } | Fault::RenameShift { .. } | Fault::MoveToKey { .. }) {
                cases.push((bi, f.clone(), false, cap, true));
            }
            // deletion also while the cache is open
            if matches!(f, Fault::Delete { .. }) {
                cases.push((bi, f, true, cap, false));
            }
        }
        templates.push(t);
    }
    let n = cases.len();
    let idx = AtomicUsize::new(0);
    let parts: Mutex<Vec<Partial>> = Mutex::new(vec![]);
    std::thread::scope(|sc| {
        for t in 0..16 {
            let (cases, templates, bases, idx, parts) = (&cases, &templates, &bases, &idx, &parts);
            let dir = scratch.join(format!("dmg{t}"));
            sc.spawn(move || {
                util::quiet_panics();
                let mut p = Partial::default();
                loop {
                    let i = idx.fetch_add(1, Ordering::SeqCst);
                    if i >= cases.len() {
                        break;
                    }
                    let (bi, fault, while_open, rcap, reput) = &cases[i];
                    {
                        let _ = util::make_writable(&dir);
                        let _ = std::fs::remove_dir_all(&dir);
                        util::copy_tree(&templates[*bi], &dir).unwrap();
                    }
                    let replay = json!({"part": "damage", "base": bases[*bi].iter().map(|o| o.to_json()).collect::<Vec<_>>(), "base_index": bi, "fault_index": i, "fault": fault.to_json(), "while_open": while_open, "reopen_capacity": rcap, "reput": reput});
                    let mut reputs = 0u64;
                    // wrong data behind a forged name the format cannot tell is one specific, recorded finding per kind
                    let forged = match fault {
                        Fault::RenameShift { .. } => Some("@item-renamed-to-another-start"),
                        Fault::MoveToKey { .. } => Some("@item-moved-to-another-key"),
                        _ => None,
                    };
                    let mut report = |sig: String, w: String| {
                        let sig = match forged {
                            Some(sfx) if sig == "C12/hit-returns-wrong-data" => format!("{sig}{sfx}"),
                            _ => sig,
                        };
                        p.violation(&sig, format!("base {:?} fault {fault:?} (while open: {while_open}, re-opened with capacity {rcap}, items put again: {reput}): {w}", bases[*bi]), replay.clone())
                    };
                    let cache = if *while_open {
                        let c = open(&dir, *rcap);
                        apply_fault(&dir, fault);
                        c
                    } else {
                        apply_fault(&dir, fault);
                        open(&dir, *rcap)
                    };
                    if let (true, Ok(c)) = (*reput, &cache) {
                        for o in &bases[*bi] {
                            if let Put(k, a, b) = o {
                                let r = do_put(c, *k, *a, *b);
                                reputs += 1;
                                if let Some((sig, w)) = res_violation(o, &r) {
                                    report(sig, w);
                                }
                            }
                        }
                    }
                    let mut hits = 0;
                    let mut misses = 0;
                    match cache {
                        Err(Res::Panic(pm)) => {
                            let loc = pm.rsplit(" @ ").next().unwrap_or("").replace("/repo/", "");
                            report(format!("C12/panic-on-open:{loc}"), format!("DiskCache::initialize panicked: {pm}"));
                        },
                        Err(_) => {
                            // an error on opening a damaged directory is allowed by the statement
                        },
                        Ok(c) => {
                            for k in 0..NK {
                                for a in 0..nc {
                                    for b in a + 1..=nc {
                                        let r = do_get(&c, k, a, b);
                                        match &r {
                                            Res::Hit => hits += 1,
                                            Res::Miss | Res::Err(_) => misses += 1,
                                            _ => {},
                                        }
                                        if let Some((sig, w)) = res_violation(&Op::Get(k, a, b), &r) {
                                            report(sig, w);
                                        }
                                    }
                                }
                            }
                            // accounting after damage + read of everything (C13 "once each entry has been read back")
                            if let Ok(s) = snapshot(&c) {
                                if s.n != s.items.len() || s.total != s.items.iter().map(|x| x.3).sum::<u64>() {
                                    report("C13/counters-after-damage".into(), format!("num_items {} total_bytes {} vs {} tracked entries", s.n, s.total, s.items.len()));
                                }
                            }
                        },
                    }
                    p.count("damage_cases", 1);
                    p.count("damage_reputs", reputs);
                    p.count("damage_gets_hit", hits);
                    p.count("damage_gets_miss_or_err", misses);
                    let kind = format!("{fault:?}");
                    let kind = kind.split(' ').next().unwrap_or("").to_string();
                    p.count(&format!("vac:damage_{kind}"), 1);
                    if hits > 0 && misses > 0 {
                        p.distinct(format!("dmg|{bi}|{i}"));
                    }
                    if i % 997 == 0 {
                        p.sample(replay.clone());
                    }
                }
                let _ = util::make_writable(&dir);
                let _ = std::fs::remove_dir_all(&dir);
                parts.lock().unwrap().push(p);
            });
        }
    });
    for p in parts.into_inner().unwrap() {
        out.merge(p);
    }
    n as u64
}

// ------------------------------------------------------------------ main

fn main() {
    let args = Args::parse();
    if args.prop != "C12" && args.prop != "C13" {
        machinery_error("lab_cache serves C12 and C13");
    }
    util::quiet_panics();
    sched::install_hooks();
    let prop = args.prop.clone();
    let mut run = Run::new(&args, &prop, "model_checking");
    let mut out = Partial::default();
    let scratch = Scratch::new("cache");
    let root = std::fs::canonicalize(scratch.path()).unwrap();
    vcore::vfs::watch(&root, true);
    let tier = args.tier;
    let t0 = Instant::now();

    if let Some(rp) = &args.replay {
        let v: Value = serde_json::from_slice(&std::fs::read(rp).unwrap_or_else(|e| machinery_error(&format!("read replay: {e}")))).unwrap_or_else(|e| machinery_error(&format!("parse: {e}")));
        let r = &v["replay"];
        match r["part"].as_str() {
            Some("seq") => {
                let cap_class = r["cap_class"].as_u64().unwrap_or(0) as usize;
                let nc = r["nc"].as_u64().unwrap_or(3) as usize;
                let hist: Vec<Step> = r["history"].as_array().unwrap().iter().map(|s| (Op::from_json(&s["op"]), s["script"].as_array().unwrap().iter().map(|x| x.as_u64().unwrap() as usize).collect())).collect();
                let o = run_seq(&root.join("replay"), capacity(cap_class, nc), &hist);
                for (sig, w) in o.violations {
                    out.violation(&sig, w, r.clone());
                }
            },
            Some("conc") => {
                let h = Harness::from_json(&r["harness"]);
                let choices: Vec<usize> = r["choices"].as_array().unwrap().iter().map(|x| x.as_u64().unwrap() as usize).collect();
                let slot: Arc<Mutex<Option<ConcObs>>> = Arc::new(Mutex::new(None));
                let (h2, s2, sc2) = (h.clone(), slot.clone(), root.clone());
                let rr = sched::run_one(&choices, move || conc_body(h2, sc2, s2));
                println!("trace: {:?}\nlog: {:?}", rr.describe(), rr.log);
                if let Some(a) = rr.aborted {
                    out.violation("C12/deadlock", a, r.clone());
                }
                let taken = slot.lock().unwrap().take();
                if let Some(o) = taken {
                    for (t, op, res) in &o.results {
                        if let Some((sig, w)) = res_violation(op, res) {
                            out.violation(&format!("{sig}@{}", h.name.replace(' ', "_")), format!("thread {t}: {w}"), r.clone());
                        }
                    }
                    for (sig, w) in o.final_violations {
                        out.violation(&format!("{sig}@{}", h.name.replace(' ', "_")), w, r.clone());
                    }
                }
            },
            _ => {
                println!("damage cases are replayed by re-running the (deterministic) damage sweep; fault: {}", r["fault"]);
                damage(tier, &root, &mut out);
            },
        }
        let mine = format!("{prop}/");
        out.violations.retain(|v| v.signature.starts_with(&mine));
        run.set("states", json!(1));
        run.set("transitions", json!(1));
        run.set("traces_validated_against_impl", json!(1));
        run.all = out;
        run.finish(1, "replay of one recorded case", false);
    }

    // (a) sequential BFS
    let (nc, depth) = tier.pick((3, 3), (3, 4));
    let seq_deadline = t0 + Duration::from_secs(tier.pick(25, 300));
    let mut states = 0u64;
    let mut transitions = 0u64;
    let mut exhaustive = true;
    for cap_class in 0..3 {
        let (s, t, complete) = bfs(cap_class, nc, depth, cap_class == 0, &root, &mut out, seq_deadline);
        states += s;
        transitions += t;
        exhaustive &= complete;
    }
    run.set("seq_states", json!(states));
    run.set("seq_transitions", json!(transitions));
    run.set("seq_depth", json!(depth));

    // (b) E1
    let hs = harnesses(tier);
    let bound = tier.pick(2, 2);
    let conc_budget = Duration::from_secs(tier.pick(25, 360));
    let conc_deadline = Instant::now() + conc_budget;
    let next = AtomicUsize::new(0);
    let results: Mutex<Vec<(usize, Partial, Vec<String>, usize, usize, bool, usize)>> = Mutex::new(vec![]);
    std::thread::scope(|s| {
        for _ in 0..12 {
            s.spawn(|| loop {
                let i = next.fetch_add(1, Ordering::SeqCst);
                if i >= hs.len() {
                    break;
                }
                util::quiet_panics();
                let mut p = Partial::default();
                let mut m = vec![];
                let b = if tier == Tier::Thorough && hs[i].threads.len() == 2 && hs[i].threads.iter().all(|t| t.len() == 1) { 3 } else { bound };
                let (ex, outcomes, capped) = explore_harness(&hs[i], b, &root, conc_deadline, &mut p, &mut m);
                p.sample(json!({"harness": hs[i].to_json(), "bound": b, "schedules": ex, "distinct_outcomes": outcomes, "capped": capped}));
                results.lock().unwrap().push((i, p, m, ex, outcomes, capped, b));
            });
        }
    });
    let mut res = results.into_inner().unwrap();
    res.sort_by_key(|r| r.0);
    let mut schedules = 0u64;
    let mut per_h = vec![];
    let mut min_completed = usize::MAX;
    for (i, p, m, ex, outcomes, capped, b) in res {
        schedules += ex as u64;
        per_h.push(json!({"harness": hs[i].name, "bound": b, "schedules": ex, "outcomes": outcomes, "capped": capped}));
        min_completed = min_completed.min(if capped { b.saturating_sub(1) } else { b });
        if capped {
            exhaustive = false;
        }
        out.merge(p);
        for x in m {
            run.machinery(x);
        }
    }
    run.set("conc_harnesses", json!(per_h));
    run.set("preemption_bound_completed", json!(min_completed));

    // (c) damage (C12's fault enumeration; C13's counters are checked on the way)
    let dmg = damage(tier, &root, &mut out);
    run.set("damage_cases", json!(dmg));

    let mine = format!("{prop}/");
    out.violations.retain(|v| v.signature.starts_with(&mine));
    let keys: Vec<String> = out.counters.keys().filter(|k| k.starts_with("violations_seen[") && !k.starts_with(&format!("violations_seen[{mine}"))).cloned().collect();
    for k in keys {
        out.counters.remove(&k);
    }
    let states_total = states + out.get("conc_decisions");
    let transitions_total = transitions + out.get("conc_steps") + dmg;
    run.set("states", json!(states_total.max(1)));
    run.set("transitions", json!(transitions_total.max(1)));
    run.set("traces_validated_against_impl", json!(transitions + schedules + dmg));
    run.assume("sequential consistency at switch-point granularity: switch points are the hooked acquisitions of DiskCache's state lock and every path-based file-system call under the cache root (libc interposition); fd-based reads/writes touch thread-private files and are not switch points; disk.rs contains no unsafe code");
    run.assume("eviction victims are an environment choice over a canonically sorted candidate list (hook H2); every choice is enumerated");
    run.assume("chunk universe: 2 keys x 3 chunks with fixed per-(key,chunk) bytes, so every stored range of a key is mutually consistent; renames that keep length+CRC are in the damage alphabet: to a narrower or wider range with the same start (the code can tell), to another start and into another key's directory (it cannot: the format checksums header and data, not key or range; the wrong data behind those is a recorded known finding); planted files with a consistent name of their own are not in it");
    vcore::vfs::unwatch();
    let evaluations = transitions + schedules + dmg;
    run.all = out;
    run.finish(
        evaluations,
        "(a) BFS over all sequential put/get/reopen(/delete-behind-the-back) histories up to the tier's depth for three capacity classes, every eviction victim, deduplicated by canonical state (tracked entries in per-key order, counters, directory listing); (b) every schedule with at most the stated number of preemptions of each 2-3 thread harness; (c) every single fault of the damage alphabet after each base history; distinct = distinct canonical states + distinct concurrent outcome logs + damage cases with both hits and misses",
        exhaustive,
    );
}

//! Shard store lab: decides C09 (serialized shards answer lookups / scans / totals exactly as the
//! records they were built from, through every reader) and C10 (union, difference and session
//! directory consolidation neither lose nor invent records) by bounded exhaustive exploration of
//! the real `mdb_shard` code against a plain reference model (labs/src/shard_model.rs).

#[path = "../shard_model.rs"]
mod shard_model;
#[path = "../shard_checks.rs"]
mod shard_checks;
#[path = "../shard_c09.rs"]
mod shard_c09;
#[path = "../shard_c10.rs"]
mod shard_c10;

use vcore::report::{machinery_error, Args, Partial, Run};
use vcore::util::Scratch;
use vcore::{json, Value};

const THREADS: usize = 16;

fn run_c09(args: &Args, run: &mut Run) -> (Partial, u64, String) {
    let scratch = Scratch::new("shardc09");
    let descs: Vec<shard_c09::Desc> = if let Some(r) = replay_value(args) {
        match shard_c09::Desc::from_json(&r["desc"]) {
            Some(d) => vec![d],
            None => machinery_error("replay file holds no C09 case descriptor"),
        }
    } else {
        shard_c09::enumerate(args.tier)
    };
    let replay_index = replay_value(args).and_then(|r| r["index"].as_u64()).map(|x| x as usize);
    let n = descs.len();
    let mut all = Partial::default();
    let parts: Vec<Partial> = std::thread::scope(|sc| {
        let hs: Vec<_> = (0..THREADS)
            .map(|t| {
                let descs = &descs;
                let dir = scratch.sub(&format!("t{t}"));
                sc.spawn(move || {
                    vcore::util::quiet_panics();
                    let mut out = Partial::default();
                    for (i, d) in descs.iter().enumerate() {
                        if i % THREADS == t {
                            shard_c09::check_case(d, replay_index.unwrap_or(i), &dir, &mut out);
                        }
                    }
                    out
                })
            })
            .collect();
        hs.into_iter().map(|h| h.join().expect("worker thread")).collect()
    });
    for p in parts {
        all.merge(p);
    }
    run.assume("file and xorb hashes are free 256-bit values at shard level; records are built by add_cas_block / add_file_reconstruction_info with distinct keys, one record per key");
    run.assume("the reserved all-ones hash (the section bookend) is never used as a record key");
    run.assume("with 8 or more records sharing a truncated key the documented refusal (TruncatedHashCollisionError) is accepted for lookups of that truncated key; scans must still be exact");
    let rule = "every shard over the key alphabet (truncated keys 0, 5, 2^64-1; up to 3 keys per truncated key) with <= 3 files x 0..3 segments x flag tuples and <= 3 xorbs x 0..3 chunks (file side exhaustive against 3 xorb configurations, xorb side exhaustive against 3 file configurations), every collision run of 1..8 records per truncated key in both tables, and for lookup tables of n in {255,256,257,258,300,513,600} entries (thorough adds 259,511,512,1025 for the direct search) every (background of 10, run length 0..8, start position [thorough: all; quick: a stride plus the ends]) through the file table, the xorb table and search_on_sorted_u64s directly; each case is serialized by the real writer and read by the seekable, streaming (sync/async), minimal (sync/async, re-serialized) and file-handle readers, every alphabet key is looked up; a case counts as distinct non-trivial when its serialized bytes (shards) or its (n, background, run, start) tuple (direct searches) are new and the shard is non-empty".to_string();
    (all, n as u64, rule)
}

pub fn replay_value(args: &Args) -> Option<Value> {
    let rp = args.replay.as_ref()?;
    let v: Value = serde_json::from_slice(&std::fs::read(rp).unwrap_or_else(|e| machinery_error(&format!("read replay: {e}"))))
        .unwrap_or_else(|e| machinery_error(&format!("parse replay: {e}")));
    Some(v["replay"].clone())
}

fn main() {
    let args = Args::parse();
    vcore::util::quiet_panics();
    let prop = args.prop.clone();
    match prop.as_str() {
        "C09" => {
            let mut run = Run::new(&args, "C09", "exploration");
            let (mut all, evals, rule) = run_c09(&args, &mut run);
            all.violations.retain(|v| v.signature.starts_with("C09/"));
            run.set("cases", json!(all.get("cases")));
            run.all = all;
            run.finish(evals, &rule, args.replay.is_none());
        },
        "C10" => {
            let mut run = Run::new(&args, "C10", "model_checking");
            let (mut all, evals, rule) = shard_c10::run_c10(&args, &mut run);
            all.violations.retain(|v| v.signature.starts_with("C10/"));
            run.all = all;
            run.finish(evals, &rule, args.replay.is_none());
        },
        _ => machinery_error("lab_shard_store serves C09 and C10"),
    }
}

//! Injected driver: C16 (shards follow their xorbs; upload failures surface) and the exact
//! upload-byte equations of C14, decided by exhaustive enumeration of environment answers:
//! the session runs on a single-threaded runtime around a harness `Client` (hook H4) whose
//! `put` / `upload_shard` calls stay pending until the explorer releases them — as success or
//! as failure — so every completion order relative to the driver's operations and every
//! choice of failing calls (up to a failure budget) is executed.

use std::collections::{BTreeMap, BTreeSet};
use std::path::PathBuf;
use std::sync::atomic::{AtomicU64, Ordering};
use std::sync::{Arc, Mutex};

use async_trait::async_trait;
use cas_client::{CasClientError, Client, OutputProvider, ReconstructionClient, ShardClientInterface, UploadClient, VerifRegistrationClient, VerifShardDedupProber};
use cas_types::FileRange;
use data::FileUploadSession;
use futures::FutureExt;
use labs::atoms::Atoms;
use labs::refmodel::{self as rm, RH};
use labs::session::*;
use labs::session_oracles::K_ATOMS;
use mdb_shard::file_structs::MDBFileInfo;
use mdb_shard::shard_file_reconstructor::FileReconstructor;
use merklehash::MerkleHash;
use tokio::sync::oneshot;
use utils::progress::ProgressUpdater;
use vcore::report::{fanout, machinery_error, Args, Job, Partial, Run, Tier};
use vcore::util::Scratch;
use vcore::{json, Value};
use xet_threadpool::ThreadPool;

// ------------------------------------------------------------------ the gated, validating store

#[derive(Clone, Debug, PartialEq)]
enum Call {
    PutStart { id: usize, hash: RH, bytes: usize },
    PutDone { id: usize, ok: bool },
    ShardStart { id: usize, bytes: usize, refs: Vec<RH>, missing: Vec<RH> },
    ShardDone { id: usize, ok: bool },
}

#[derive(Default)]
struct StoreState {
    log: Vec<Call>,
    pending: BTreeMap<usize, (oneshot::Sender<bool>, bool /*is shard*/)>,
    next_id: usize,
    /// successfully stored xorbs: hash -> chunks
    xorbs: BTreeMap<RH, Vec<Vec<u8>>>,
    /// file records from successfully uploaded shards
    files: BTreeMap<RH, MDBFileInfo>,
    put_returns: usize,
    shard_bytes_ok: usize,
    validation_errors: Vec<String>,
    /// (max chunks, max bytes, max chunk length) of the configuration, and what a put violated of them
    limits: (usize, usize, usize),
    limit_errors: Vec<String>,
    /// global dedup service: every chunk listed in a CAS section of a successfully uploaded shard -> that shard
    chunk_to_shard: BTreeMap<RH, RH>,
    shard_bytes: BTreeMap<RH, Vec<u8>>,
    /// where the service drops the shard it answers with (the current session's shard cache), if enabled
    dedup_dir: Option<PathBuf>,
    global_dedup_answers: usize,
}

#[derive(Clone)]
struct Store {
    st: Arc<Mutex<StoreState>>,
    events: Arc<AtomicU64>,
}

impl Store {
    fn bump(&self) {
        self.events.fetch_add(1, Ordering::SeqCst);
    }
}

#[async_trait]
impl UploadClient for Store {
    async fn put(&self, _prefix: &str, hash: &MerkleHash, data: Vec<u8>, chunk_and_boundaries: Vec<(MerkleHash, u32)>) -> Result<usize, CasClientError> {
        let (id, rx) = {
            let mut g = self.st.lock().unwrap();
            let id = g.next_id;
            g.next_id += 1;
            let (tx, rx) = oneshot::channel();
            g.pending.insert(id, (tx, false));
            g.log.push(Call::PutStart { id, hash: rm::from_mh(hash), bytes: data.len() });
            (id, rx)
        };
        self.bump();
        let ok = rx.await.unwrap_or(false);
        let mut g = self.st.lock().unwrap();
        g.log.push(Call::PutDone { id, ok });
        drop(g);
        self.bump();
        if !ok {
            return Err(CasClientError::Other(format!("injected failure of put #{id}")));
        }
        // receiver-side validation with the reference code
        let mut chunks = vec![];
        let mut s = 0usize;
        let mut list = vec![];
        let mut bad = None;
        for (h, end) in &chunk_and_boundaries {
            let e = *end as usize;
            if e <= s || e > data.len() {
                bad = Some(format!("boundaries not strictly increasing within the data: {s}..{e} of {}", data.len()));
                break;
            }
            let c = data[s..e].to_vec();
            if rm::chunk_hash(&c) != rm::from_mh(h) {
                bad = Some("a chunk hash differs from the hash of its bytes".to_string());
            }
            list.push((rm::chunk_hash(&c), c.len() as u64));
            chunks.push(c);
            s = e;
        }
        if bad.is_none() && s != data.len() {
            bad = Some("last boundary is not the data length".into());
        }
        if bad.is_none() && rm::xorb_hash(&list) != rm::from_mh(hash) {
            bad = Some("xorb hash differs from the hash recomputed from its chunks".into());
        }
        let mut g = self.st.lock().unwrap();
        if let Some(b) = bad {
            g.validation_errors.push(format!("put #{id}: {b}"));
        }
        // C15 at the injected client: every xorb handed over is non-empty and within the configured limits
        let (mc, mb, ml) = g.limits;
        let nch = chunk_and_boundaries.len();
        let longest = chunks.iter().map(|c| c.len()).max().unwrap_or(0);
        if data.is_empty() || nch == 0 {
            g.limit_errors.push(format!("put #{id}: an empty xorb was handed to the store"));
        }
        if nch > mc || data.len() > mb || longest > ml {
            g.limit_errors.push(format!("put #{id}: {nch} chunks / {} bytes / longest chunk {longest} exceed the limits {mc} chunks / {mb} bytes / {ml} per chunk", data.len()));
        }
        g.xorbs.insert(rm::from_mh(hash), chunks);
        g.put_returns += data.len();
        Ok(data.len())
    }
    async fn exists(&self, _prefix: &str, hash: &MerkleHash) -> Result<bool, CasClientError> {
        Ok(self.st.lock().unwrap().xorbs.contains_key(&rm::from_mh(hash)))
    }
}

#[async_trait]
impl VerifRegistrationClient for Store {
    async fn upload_shard(&self, _prefix: &str, _hash: &MerkleHash, _force_sync: bool, shard_data: &[u8], _salt: &[u8; 32]) -> Result<bool, CasClientError> {
        let mut view = ShardView::default();
        parse_shard_bytes(shard_data, &mut view);
        let (id, rx) = {
            let mut g = self.st.lock().unwrap();
            let id = g.next_id;
            g.next_id += 1;
            let mut refs = BTreeSet::new();
            for fi in &view.files {
                for s in &fi.segments {
                    refs.insert(rm::from_mh(&s.cas_hash));
                }
            }
            let missing: Vec<RH> = refs.iter().filter(|h| !g.xorbs.contains_key(*h)).cloned().collect();
            let (tx, rx) = oneshot::channel();
            g.pending.insert(id, (tx, true));
            g.log.push(Call::ShardStart { id, bytes: shard_data.len(), refs: refs.into_iter().collect(), missing });
            if let Some(e) = &view.err {
                g.validation_errors.push(format!("upload_shard #{id}: unreadable shard: {e}"));
            }
            (id, rx)
        };
        self.bump();
        let ok = rx.await.unwrap_or(false);
        let mut g = self.st.lock().unwrap();
        g.log.push(Call::ShardDone { id, ok });
        if ok {
            for fi in view.files {
                g.files.insert(rm::from_mh(&fi.metadata.file_hash), fi);
            }
            g.shard_bytes_ok += shard_data.len();
            let sh = rm::from_mh(_hash);
            for (_, chunks) in &view.cas {
                for (ch, _) in chunks {
                    g.chunk_to_shard.insert(*ch, sh);
                }
            }
            g.shard_bytes.insert(sh, shard_data.to_vec());
        }
        drop(g);
        self.bump();
        if ok {
            Ok(true)
        } else {
            Err(CasClientError::Other(format!("injected failure of upload_shard #{id}")))
        }
    }
}

#[async_trait]
impl FileReconstructor<CasClientError> for Store {
    async fn get_file_reconstruction_info(&self, file_hash: &MerkleHash) -> Result<Option<(MDBFileInfo, Option<MerkleHash>)>, CasClientError> {
        Ok(self.st.lock().unwrap().files.get(&rm::from_mh(file_hash)).cloned().map(|f| (f, None)))
    }
}
#[async_trait]
impl VerifShardDedupProber for Store {
    async fn query_for_global_dedup_shard(&self, _prefix: &str, chunk_hash: &MerkleHash, _salt: &[u8; 32]) -> Result<Option<PathBuf>, CasClientError> {
        let mut g = self.st.lock().unwrap();
        let Some(dir) = g.dedup_dir.clone() else { return Ok(None) };
        let Some(sh) = g.chunk_to_shard.get(&rm::from_mh(chunk_hash)).copied() else { return Ok(None) };
        let bytes = g.shard_bytes.get(&sh).cloned().unwrap_or_default();
        g.global_dedup_answers += 1;
        drop(g);
        // like the local test server: drop the shard into the caller's shard cache and name it
        let path = dir.join(format!("{}.mdb", rm::hex(&sh)));
        std::fs::create_dir_all(&dir)?;
        std::fs::write(&path, bytes)?;
        Ok(Some(path))
    }
}
#[async_trait]
impl ReconstructionClient for Store {
    async fn get_file(&self, hash: &MerkleHash, _r: Option<FileRange>, _o: &OutputProvider, _p: Option<Arc<dyn ProgressUpdater>>) -> Result<u64, CasClientError> {
        Err(CasClientError::FileNotFound(*hash))
    }
}
impl ShardClientInterface for Store {}
impl Client for Store {}

// ------------------------------------------------------------------ one execution

#[derive(Clone, Debug)]
struct Decision {
    n: usize,
    chosen: usize,
    label: String,
}

#[derive(Debug, Default, Clone)]
struct ExecObs {
    trace: Vec<Decision>,
    log: Vec<Call>,
    api: Vec<(String, Result<(), String>)>,
    failures_injected: usize,
    all_api_ok: bool,
    finalized: bool,
    metrics: Option<deduplication::DeduplicationMetrics>,
    put_returns: usize,
    shard_bytes_ok: usize,
    hang: Option<String>,
    panic: Option<String>,
    reconstruct_errors: Vec<String>,
    validation_errors: Vec<String>,
    limit_errors: Vec<String>,
    /// (file label, bytes fed, pointer hash, pointer size) of every file whose finish() returned Ok
    pointers: Vec<(String, usize, String, u64)>,
    pointer_errors: Vec<String>,
    replay_diverged: bool,
    /// store counters when the explored (last) session began
    base_put_returns: usize,
    base_shard_bytes: usize,
    global_dedup_answers: usize,
    /// length of the store's call log when the recorded (last) session began
    log_base: usize,
}

#[derive(Clone)]
enum DriverOp {
    Add(usize, Vec<u8>),
    Finish(usize),
    Finalize,
}

fn driver_ops(atoms: &Atoms, spec: &SessionSpec) -> Vec<DriverOp> {
    let n = spec.files.len();
    let pieces: Vec<Vec<Vec<u8>>> = spec.files.iter().map(|f| f.pieces(atoms)).collect();
    let order: Vec<usize> = if spec.order.is_empty() { (0..n).flat_map(|i| std::iter::repeat(i).take(pieces[i].len() + 1)).collect() } else { spec.order.clone() };
    let mut next = vec![0usize; n];
    let mut ops = vec![];
    for i in order {
        let k = next[i];
        next[i] += 1;
        if k < pieces[i].len() {
            ops.push(DriverOp::Add(i, pieces[i][k].clone()));
        } else if k == pieces[i].len() {
            ops.push(DriverOp::Finish(i));
        }
        // an order list may name a file more often than it has operations: the surplus is ignored
    }
    ops.push(DriverOp::Finalize);
    ops
}

/// Runs the scenario's sessions (all but the last fault-free and auto-released), exploring the
/// last session with the choice `prefix`; beyond the prefix the default option (0) is taken.
fn execute(atoms: &Atoms, cfg: &Cfg, scn: &Scenario, cas: &std::path::Path, prefix: &[usize], budget: usize) -> ExecObs {
    let rt = tokio::runtime::Builder::new_current_thread().enable_all().build().expect("runtime");
    let pool = Arc::new(ThreadPool::from_external(rt.handle().clone()));
    let store = Store {
        st: Arc::new(Mutex::new(StoreState { limits: (cfg.eff_max_chunks(), cfg.eff_max_bytes(), 2 * cfg.target), ..Default::default() })),
        events: Arc::new(AtomicU64::new(0)),
    };
    let mut obs = ExecObs::default();
    let nsess = scn.sessions.len();
    let obs_ref = &mut obs;
    let store2 = store.clone();
    rt.block_on(async move {
        let local = tokio::task::LocalSet::new();
        local
            .run_until(async move {
                for (si, spec) in scn.sessions.iter().enumerate() {
                    // "inject-retry": the FIRST session is the explored one (faults, release orders); the second repeats
                    // it in the same process against the same store, fault-free, and is the one that is judged
                    let retry = scn.family == "inject-retry";
                    let explore = if retry { si == 0 } else { si + 1 == nsess };
                    let record = si + 1 == nsess;
                    // "inject-gd": the explored session runs against the same store but with a FRESH local shard
                    // cache, so its first dedup pass misses and the global-dedup second pass does the work
                    let cas_gd = cas.join("second-client");
                    let cas: &std::path::Path = if explore && scn.family == "inject-gd" {
                        store2.st.lock().unwrap().dedup_dir = Some(shard_cache_dir(&cas_gd));
                        &cas_gd
                    } else {
                        cas
                    };
                    let r = std::panic::AssertUnwindSafe(run_session(atoms, spec, cas, pool.clone(), &store2, explore, record, scn.family == "inject-conc" || scn.family == "inject-conc4" || scn.family == "inject-conc2r", scn.family == "inject-persist", prefix, budget, obs_ref)).catch_unwind().await;
                    if let Err(p) = r {
                        obs_ref.panic = Some(format!("{} @ {}", vcore::util::panic_text(&p), vcore::util::last_panic_loc()));
                        break;
                    }
                    if obs_ref.hang.is_some() {
                        break;
                    }
                }
            })
            .await;
    });
    let g = store.st.lock().unwrap();
    obs.log = g.log.clone();
    obs.put_returns = g.put_returns - obs.base_put_returns;
    obs.shard_bytes_ok = g.shard_bytes_ok - obs.base_shard_bytes;
    obs.validation_errors = g.validation_errors.clone();
    obs.limit_errors = g.limit_errors.clone();
    // pointers of the explored session against the reference (chunker o merkle o salt; size = bytes fed)
    {
        let last = scn.sessions.last().unwrap();
        for (label, fed, hash, size) in &obs.pointers {
            let f = last.files.iter().find(|f| &f.label() == label);
            if let Some(f) = f {
                let bytes = f.bytes(atoms);
                let want = rm::hex(&rm::file_hash(&rm::chunk_list(&bytes, atoms.target), &[0u8; 32]));
                if *hash != want || *size != bytes.len() as u64 || *fed != bytes.len() {
                    obs.pointer_errors.push(format!("file {label}: pointer ({hash}, {size}) but the content of {} bytes ({fed} fed) has the reference pointer ({want}, {})", bytes.len(), bytes.len()));
                }
            }
        }
    }
    obs.global_dedup_answers = g.global_dedup_answers;
    // reconstruction from the store when everything reported success
    if obs.all_api_ok && obs.finalized {
        for (name, content) in file_contents(atoms, scn) {
            let list = rm::chunk_list(&content, atoms.target);
            let fh = rm::file_hash(&list, &[0u8; 32]);
            match g.files.get(&fh) {
                None => obs.reconstruct_errors.push(format!("file {name}: no record in any successfully uploaded shard")),
                Some(fi) => {
                    let mut bytes = vec![];
                    let mut bad = None;
                    for s in &fi.segments {
                        match g.xorbs.get(&rm::from_mh(&s.cas_hash)) {
                            None => {
                                bad = Some(format!("segment references xorb {} which was never stored successfully", s.cas_hash.hex()));
                                break;
                            },
                            Some(ch) => {
                                let (a, b) = (s.chunk_index_start as usize, s.chunk_index_end as usize);
                                if a >= b || b > ch.len() {
                                    bad = Some(format!("segment range [{a},{b}) outside the {}-chunk xorb", ch.len()));
                                    break;
                                }
                                for c in &ch[a..b] {
                                    bytes.extend_from_slice(c);
                                }
                            },
                        }
                    }
                    if let Some(b) = bad {
                        obs.reconstruct_errors.push(format!("file {name}: {b}"));
                    } else if bytes != content {
                        obs.reconstruct_errors.push(format!("file {name}: reconstructed bytes differ from the bytes fed"));
                    }
                },
            }
        }
    }
    drop(g);
    drop(rt);
    obs
}

fn file_contents(atoms: &Atoms, scn: &Scenario) -> Vec<(String, Vec<u8>)> {
    let mut v = vec![];
    for (si, s) in scn.sessions.iter().enumerate() {
        for f in &s.files {
            v.push((format!("s{si}:{}", f.label()), f.bytes(atoms)));
        }
    }
    v
}

async fn settle(store: &Store, done_flag: &Arc<Mutex<Option<Result<(), String>>>>) {
    loop {
        let before = (store.events.load(Ordering::SeqCst), done_flag.lock().unwrap().is_some());
        for _ in 0..40 {
            tokio::task::yield_now().await;
        }
        let after = (store.events.load(Ordering::SeqCst), done_flag.lock().unwrap().is_some());
        if before == after {
            return;
        }
    }
}

#[allow(clippy::too_many_arguments)]
async fn run_session(atoms: &Atoms, spec: &SessionSpec, cas: &std::path::Path, pool: Arc<ThreadPool>, store: &Store, explore: bool, record: bool, concurrent_mode: bool, persist_mode: bool, prefix: &[usize], budget: usize, obs: &mut ExecObs) {
    let config = make_config(cas, spec.salt);
    let client: Arc<dyn Client + Send + Sync> = Arc::new(store.clone());
    let session = match FileUploadSession::new_with_client(config, pool, None, client, false).await {
        Ok(s) => s,
        Err(e) => {
            obs.api.push(("new".into(), Err(format!("{e:?}"))));
            return;
        },
    };
    if record {
        let g = store.st.lock().unwrap();
        obs.base_put_returns = g.put_returns;
        obs.base_shard_bytes = g.shard_bytes_ok;
        obs.log_base = g.log.len();
    }
    let ops = driver_ops(atoms, spec);
    let nfiles = spec.files.len();
    let concurrent = concurrent_mode && explore && nfiles >= 2;
    let symmetric_files = concurrent && nfiles >= 4 && spec.files.iter().all(|f| f.pieces(atoms).len() == 1);
    // per-file queues for the concurrent mode (ops of one file stay in order; ops of different files may overlap)
    let mut queues: Vec<std::collections::VecDeque<DriverOp>> = (0..nfiles).map(|_| Default::default()).collect();
    for op in &ops {
        match op {
            DriverOp::Add(i, _) | DriverOp::Finish(i) => queues[*i].push_back(op.clone()),
            DriverOp::Finalize => {},
        }
    }
    let mut cleaners: Vec<Option<_>> = (0..nfiles).map(|_| None).collect();
    let pointer_slot: Arc<Mutex<Vec<(String, usize, String, u64)>>> = Arc::new(Mutex::new(vec![]));
    let mut fed_bytes: Vec<usize> = vec![0; nfiles];
    let persist = persist_mode && explore;
    let mut dead: Vec<bool> = vec![false; nfiles];
    let mut stop = false;
    let mut session_opt = Some(session);
    let mut all_ok = true;
    let mut op_idx = 0usize;
    let mut finalize_issued = false;
    // driver ops currently running (spawned locally so that the explorer loop can interleave releases and,
    // in concurrent mode, a second file's operation)
    struct Inflight {
        file: Option<usize>,
        name: String,
        done: Arc<Mutex<Option<Result<(), String>>>>,
    }
    let mut inflight: Vec<Inflight> = vec![];
    let dummy_done: Arc<Mutex<Option<Result<(), String>>>> = Arc::new(Mutex::new(None));
    loop {
        settle(store, &dummy_done).await;
        // collect finished driver ops
        let mut k = 0;
        while k < inflight.len() {
            let r = inflight[k].done.lock().unwrap().take();
            if let Some(r) = r {
                if record {
                    obs.api.push((inflight[k].name.clone(), r.clone()));
                }
                if r.is_err() {
                    all_ok = false;
                    // "persist" driver: a caller that treats the error as that file's, drops the file's cleaner
                    // and goes on with its other files and with finalize
                    if let (true, Some(f)) = (persist, inflight[k].file) {
                        dead[f] = true;
                        cleaners[f] = None;
                        queues[f].clear();
                    } else {
                        stop = true;
                    }
                }
                inflight.remove(k);
            } else {
                k += 1;
            }
        }
        if !all_ok && (!persist || stop) {
            break; // like every in-repo caller: stop using the session at the first error
        }
        // persist mode: skip the remaining operations of abandoned files
        while !concurrent && op_idx < ops.len() && matches!(&ops[op_idx], DriverOp::Add(i, _) | DriverOp::Finish(i) if dead[*i]) {
            op_idx += 1;
        }
        // options
        let pending: Vec<(usize, bool)> = store.st.lock().unwrap().pending.iter().map(|(k, v)| (*k, v.1)).collect();
        if !explore {
            // earlier sessions: fault-free, release everything as soon as it is pending
            if let Some((id, _)) = pending.first() {
                let tx = store.st.lock().unwrap().pending.remove(id).unwrap().0;
                let _ = tx.send(true);
                continue;
            }
        }
        let mut options: Vec<(String, u8, usize)> = vec![]; // (label, kind 0 issue-in-order / 3 issue next op of file id / 4 finalize / 1 ok / 2 err, id)
        if concurrent {
            let busy: Vec<usize> = inflight.iter().filter_map(|x| x.file).collect();
            if inflight.len() < 2 {
                for f in 0..nfiles {
                    if !busy.contains(&f) && !queues[f].is_empty() {
                        // symmetry reduction for interchangeable files (every file is one fresh atom fed in one piece):
                        // a file is started only after every file before it has been started
                        if symmetric_files && matches!(queues[f].front(), Some(DriverOp::Add(..))) && (0..f).any(|g| matches!(queues[g].front(), Some(DriverOp::Add(..)))) {
                            continue;
                        }
                        options.push((format!("issue next op of file{f}"), 3, f));
                    }
                }
            }
            if inflight.is_empty() && queues.iter().all(|q| q.is_empty()) && !finalize_issued {
                options.push(("issue finalize".into(), 4, 0));
            }
        } else if inflight.is_empty() && op_idx < ops.len() {
            options.push((format!("issue op {op_idx}"), 0, 0));
        }
        if explore {
            for (id, is_shard) in &pending {
                options.push((format!("release {} #{id} ok", if *is_shard { "shard" } else { "put" }), 1, *id));
            }
            if obs.failures_injected < budget {
                for (id, is_shard) in &pending {
                    options.push((format!("release {} #{id} ERR", if *is_shard { "shard" } else { "put" }), 2, *id));
                }
            }
        }
        if options.is_empty() {
            if !inflight.is_empty() {
                obs.hang = Some(format!("driver operation(s) {:?} pending, no store call is pending, nothing can make progress", inflight.iter().map(|x| x.name.clone()).collect::<Vec<_>>()));
            }
            break; // all ops done (or hang)
        }
        let choice = if options.len() == 1 || !explore {
            0
        } else {
            let pos = obs.trace.len();
            let c = if pos < prefix.len() { prefix[pos] } else { 0 };
            if c >= options.len() {
                obs.replay_diverged = true;
                break;
            }
            obs.trace.push(Decision { n: options.len(), chosen: c, label: options[c].0.clone() });
            c
        };
        let (_label, kind, id) = options[choice].clone();
        match kind {
            0 | 3 | 4 => {
                let op = match kind {
                    0 => {
                        let op = ops[op_idx].clone();
                        op_idx += 1;
                        op
                    },
                    3 => queues[id].pop_front().unwrap(),
                    _ => DriverOp::Finalize,
                };
                let done2: Arc<Mutex<Option<Result<(), String>>>> = Arc::new(Mutex::new(None));
                let done3 = done2.clone();
                let ev = store.clone();
                match op {
                    DriverOp::Add(i, data) => {
                        fed_bytes[i] += data.len();
                        if cleaners[i].is_none() {
                            cleaners[i] = Some(Arc::new(tokio::sync::Mutex::new(Some(session_opt.as_ref().unwrap().start_clean(format!("file{i}"))))));
                        }
                        let c = cleaners[i].clone().unwrap();
                        tokio::task::spawn_local(async move {
                            let mut g = c.lock().await;
                            let r = g.as_mut().unwrap().add_data(&data).await.map_err(|e| format!("{e:?}"));
                            *done3.lock().unwrap() = Some(r);
                            ev.bump();
                        });
                        inflight.push(Inflight { file: Some(i), name: format!("add_data(file{i})"), done: done2 });
                    },
                    DriverOp::Finish(i) => {
                        if cleaners[i].is_none() {
                            cleaners[i] = Some(Arc::new(tokio::sync::Mutex::new(Some(session_opt.as_ref().unwrap().start_clean(format!("file{i}"))))));
                        }
                        let c = cleaners[i].take().unwrap();
                        let ptrs = pointer_slot.clone();
                        let (label, fed) = (spec.files[i].label(), fed_bytes[i]);
                        tokio::task::spawn_local(async move {
                            let cl = c.lock().await.take().unwrap();
                            let r = match cl.finish().await {
                                Ok((pf, _)) => {
                                    ptrs.lock().unwrap().push((label, fed, pf.hash_string().clone(), pf.filesize()));
                                    Ok(())
                                },
                                Err(e) => Err(format!("{e:?}")),
                            };
                            *done3.lock().unwrap() = Some(r);
                            ev.bump();
                        });
                        inflight.push(Inflight { file: Some(i), name: format!("finish(file{i})"), done: done2 });
                    },
                    DriverOp::Finalize => {
                        finalize_issued = true;
                        let s = session_opt.take().unwrap();
                        let metrics_slot: Arc<Mutex<Option<deduplication::DeduplicationMetrics>>> = Arc::new(Mutex::new(None));
                        let ms = metrics_slot.clone();
                        tokio::task::spawn_local(async move {
                            let r = s.finalize().await;
                            let r = match r {
                                Ok(m) => {
                                    *ms.lock().unwrap() = Some(m);
                                    Ok(())
                                },
                                Err(e) => Err(format!("{e:?}")),
                            };
                            *done3.lock().unwrap() = Some(r);
                            ev.bump();
                        });
                        inflight.push(Inflight { file: None, name: "finalize".into(), done: done2 });
                        // wait for finalize through the normal loop; pick the metrics up at the end
                        FINAL_METRICS.with(|f| *f.borrow_mut() = Some(metrics_slot));
                    },
                }
            },
            1 | 2 => {
                let tx = store.st.lock().unwrap().pending.remove(&id).unwrap().0;
                if kind == 2 {
                    obs.failures_injected += 1;
                }
                let _ = tx.send(kind == 1);
            },
            _ => unreachable!(),
        }
    }
    let all_issued = if concurrent { finalize_issued } else { op_idx == ops.len() };
    if record {
        obs.all_api_ok = all_ok && obs.hang.is_none() && !obs.replay_diverged;
        obs.finalized = all_ok && all_issued && inflight.is_empty();
        if let Some(slot) = FINAL_METRICS.with(|f| f.borrow_mut().take()) {
            obs.metrics = *slot.lock().unwrap();
        }
    } else {
        FINAL_METRICS.with(|f| f.borrow_mut().take());
    }
    if record {
        obs.pointers = pointer_slot.lock().unwrap().clone();
    }
    // drop whatever is left (cleaners hold the session)
    drop(cleaners);
    drop(session_opt);
}

thread_local! {
    static FINAL_METRICS: std::cell::RefCell<Option<Arc<Mutex<Option<deduplication::DeduplicationMetrics>>>>> = const { std::cell::RefCell::new(None) };
}

// ------------------------------------------------------------------ oracle

fn check(obs: &ExecObs) -> Vec<(String, String)> {
    let mut v = vec![];
    if let Some(p) = &obs.panic {
        let loc = p.rsplit(" @ ").next().unwrap_or("").replace("/repo/", "");
        v.push((format!("C16/panic:{loc}"), p.clone()));
        if obs.failures_injected == 0 {
            // a session that panics although no store call failed cannot round-trip its files (C01); a panic
            // raised by one of the limit assertions is C15's symptom
            v.push((format!("C01/panic:{loc}"), p.clone()));
            if p.contains("MAX_XORB") || loc.contains("raw_xorb_data") || loc.contains("data_aggregator") {
                v.push((format!("C15/panic:limit-assert@{loc}"), p.clone()));
            }
        }
        return v;
    }
    if let Some(h) = &obs.hang {
        v.push(("C16/hang".into(), h.clone()));
        if obs.failures_injected == 0 {
            // no store call failed and none is pending, yet a session call never returns: the files cannot round-trip
            v.push(("C01/hang-under-interleaving".into(), h.clone()));
        }
    }
    // (1) a shard is handed to the store only after every xorb its file records name was stored successfully
    for c in &obs.log {
        if let Call::ShardStart { id, missing, .. } = c {
            if !missing.is_empty() {
                v.push(("C16/shard-before-its-xorbs".into(), format!("upload_shard #{id} started while xorbs {:?} had no successful completed put", missing.iter().map(rm::hex).collect::<Vec<_>>())));
            }
        }
    }
    // (2) a failed store call surfaces as an error of some session call
    let failed_calls: Vec<String> = obs.log.iter().skip(obs.log_base).filter_map(|c| match c {
        Call::PutDone { id, ok: false } => Some(format!("put #{id}")),
        Call::ShardDone { id, ok: false } => Some(format!("upload_shard #{id}")),
        _ => None,
    }).collect();
    if !failed_calls.is_empty() && obs.all_api_ok && obs.finalized {
        v.push(("C16/failure-swallowed".into(), format!("{failed_calls:?} failed, yet every add_data/finish/finalize call returned Ok")));
    }
    // C15 at the injected client (every execution): xorbs handed over are non-empty and within the limits
    for e in &obs.limit_errors {
        v.push(("C15/put-exceeds-limit".into(), e.clone()));
    }
    // C03 under await-point interleavings of two cleaners (every file whose finish() returned Ok)
    for e in &obs.pointer_errors {
        v.push(("C03/pointer-differs-from-reference-under-interleaving".into(), e.clone()));
    }
    // (3) success means reconstructible
    if obs.all_api_ok && obs.finalized {
        for e in &obs.reconstruct_errors {
            v.push(("C16/success-but-not-reconstructible".into(), e.clone()));
            if obs.failures_injected == 0 {
                // no store call failed: this is the round-trip property itself, under the explored interleaving
                v.push(("C01/session-not-reconstructible-under-interleaving".into(), e.clone()));
            }
        }
        // the store's own validation (receiver side)
        for e in &obs.validation_errors {
            v.push(("C16/store-rejects-upload".into(), e.clone()));
        }
        // C14: exact upload equations where the store's side is observable
        if let Some(m) = &obs.metrics {
            if m.xorb_bytes_uploaded != obs.put_returns {
                v.push(("C14/xorb-bytes-uploaded-vs-put-results".into(), format!("xorb_bytes_uploaded = {} but the store's put calls returned {} in total", m.xorb_bytes_uploaded, obs.put_returns)));
            }
            if m.shard_bytes_uploaded != obs.shard_bytes_ok {
                v.push(("C14/shard-bytes-uploaded-vs-handed-over".into(), format!("shard_bytes_uploaded = {} but {} shard bytes were handed to the store", m.shard_bytes_uploaded, obs.shard_bytes_ok)));
            }
            if m.total_bytes_uploaded != m.xorb_bytes_uploaded + m.shard_bytes_uploaded {
                v.push(("C14/total-bytes-uploaded".into(), format!("total {} != xorb {} + shard {}", m.total_bytes_uploaded, m.xorb_bytes_uploaded, m.shard_bytes_uploaded)));
            }
        }
    }
    v
}

fn outcome_string(obs: &ExecObs) -> String {
    let calls: Vec<String> = obs
        .log
        .iter()
        .map(|c| match c {
            Call::PutStart { id, .. } => format!("P{id}"),
            Call::PutDone { id, ok } => format!("p{id}{}", if *ok { "+" } else { "-" }),
            Call::ShardStart { id, .. } => format!("S{id}"),
            Call::ShardDone { id, ok } => format!("s{id}{}", if *ok { "+" } else { "-" }),
        })
        .collect();
    let api: Vec<String> = obs.api.iter().map(|(n, r)| format!("{n}:{}", if r.is_ok() { "ok" } else { "ERR" })).collect();
    format!("{} | {}", calls.join(" "), api.join(" "))
}

// ------------------------------------------------------------------ scenarios / configs

fn scenarios(tier: Tier) -> Vec<Scenario> {
    let f = |w: &[u8], tail: u8| FileSpec::new(w, tail, Feed::PerAtom);
    let one = |files: Vec<FileSpec>| Scenario { family: "inject".into(), sessions: vec![SessionSpec::seq(files)] };
    let mut v = vec![
        one(vec![f(&[0, 1, 2, 3, 4], 0)]),
        one(vec![f(&[0, 1], 0), f(&[2, 3], 0)]),
        one(vec![f(&[0], 0), f(&[1], 2), f(&[2], 0)]),
        Scenario {
            family: "inject".into(),
            sessions: vec![SessionSpec { files: vec![f(&[0, 1, 2], 0), f(&[3, 4], 0)], order: vec![0, 1, 0, 1, 0, 1, 0, 1], salt: 0, foreign: false, foreign_no_cache: false }],
        },
        Scenario {
            family: "inject".into(),
            sessions: vec![SessionSpec::seq(vec![f(&[0, 1, 2, 3], 0)]), SessionSpec::seq(vec![f(&[0, 1, 4, 5], 0)])],
        },
        one(vec![f(&[], 0), f(&[0, 0, 0], 0)]),
    ];
    // concurrent mode: operations of two different files may be in flight at once (await-point interleaving
    // on the single-threaded runtime), the explorer also chooses which file's next operation to issue
    let conc = |files: Vec<FileSpec>| Scenario { family: "inject-conc".into(), sessions: vec![SessionSpec::seq(files)] };
    v.push(conc(vec![f(&[0, 1, 2], 0), f(&[3, 4, 5], 0)]));
    v.push(conc(vec![f(&[0, 1], 0), f(&[0, 1], 0)]));
    // a finish that has to cut the session aggregate while the only upload permit is held by a pending mid-file
    // upload, and a file without any new chunk (empty) finishing in that window
    v.push(conc(vec![f(&[0, 1, 2], 0), f(&[3, 4], 0), f(&[], 0)]));
    // two cleaners that both have to register a xorb while the only permit is held: the first file cuts twice, the
    // second once (run with injected failures under the one-permit configuration only)
    v.push(Scenario { family: "inject-conc2r".into(), sessions: vec![SessionSpec::seq(vec![f(&[0, 1, 2, 3, 4], 0), f(&[5, 6, 7], 0)])] });
    // four one-chunk files: with one chunk per xorb and one permit (I6) a finish waits for a permit in the middle of
    // the session-level cut while other files complete
    v.push(Scenario { family: "inject-conc4".into(), sessions: vec![SessionSpec::seq(vec![f(&[0], 0), f(&[1], 0), f(&[2], 0), f(&[3], 0)])] });
    // persist mode: after an operation of a file fails the driver abandons that file only and goes on with the
    // other files and with finalize (the public API does not prevent it); the ordering clause "a shard is handed
    // to the store only after every xorb its file records reference has been stored" must hold there too
    let persist = |files: Vec<FileSpec>| Scenario { family: "inject-persist".into(), sessions: vec![SessionSpec::seq(files)] };
    v.push(persist(vec![f(&[0, 1, 2], 0), f(&[3, 4], 0)]));
    v.push(persist(vec![f(&[0, 1, 2], 0), f(&[3, 4, 5], 0), f(&[6], 0)]));
    // the files that remain leave nothing for the final aggregated xorb: a repeat of chunks whose xorb was cut
    // (and may have failed) mid-file, and an empty file
    v.push(persist(vec![f(&[0, 1, 2, 3, 4], 0), f(&[0, 1], 0)]));
    v.push(persist(vec![f(&[0, 1, 2, 3, 4], 0), f(&[], 0)]));
    // retry: the explored session (with its injected failures and release orders) is followed, in the same process
    // and against the same store, by a fault-free repeat of itself - "try the upload again"; whatever the first
    // attempt left behind, a repeat that reports success leaves every file reconstructible
    let retry = |files: Vec<FileSpec>| Scenario { family: "inject-retry".into(), sessions: vec![SessionSpec::seq(files.clone()), SessionSpec::seq(files)] };
    v.push(retry(vec![f(&[0, 1, 2, 3, 4], 0)]));
    v.push(retry(vec![f(&[0, 1, 2], 0), f(&[3, 4], 0)]));
    // global dedup: second session on a fresh local shard cache against the same store
    let gd = |s1: Vec<FileSpec>, s2: Vec<FileSpec>| Scenario { family: "inject-gd".into(), sessions: vec![SessionSpec::seq(s1), SessionSpec::seq(s2)] };
    v.push(gd(vec![f(&[0, 1, 2, 3], 0)], vec![f(&[0, 1, 2, 3], 0)]));
    v.push(gd(vec![f(&[0, 1, 2, 3], 0)], vec![f(&[0, 1, 4, 2, 3], 0)]));
    if tier == Tier::Thorough {
        v.push(gd(vec![f(&[0, 1], 0), f(&[2, 3, 4], 0)], vec![f(&[2, 3, 4, 0, 1], 2)]));
        v.push(gd(vec![f(&[0, 1, 2, 3, 4, 5], 0)], vec![f(&[5, 0], 0), f(&[0, 1, 2, 6], 0)]));
    }
    if tier == Tier::Thorough {
        v.push(conc(vec![f(&[0], 0), f(&[1], 2), f(&[2, 3, 4], 0)]));
        v.push(conc(vec![f(&[0, 1, 2, 3], 0), f(&[4], 0)]));
        v.push(Scenario {
            family: "inject-conc".into(),
            sessions: vec![SessionSpec::seq(vec![f(&[0, 1, 2, 3], 0)]), SessionSpec::seq(vec![f(&[0, 1, 4], 0), f(&[2, 3, 5], 0)])],
        });
    }
    if tier == Tier::Thorough {
        v.extend(vec![
            one(vec![f(&[0, 1, 2, 3, 4, 5], 2)]),
            one(vec![f(&[0, 1, 2], 0), f(&[0, 1, 2], 0)]),
            one(vec![f(&[0], 0), f(&[1], 0), f(&[2], 0), f(&[3], 0), f(&[4], 0)]),
            Scenario {
                family: "inject".into(),
                sessions: vec![SessionSpec { files: vec![f(&[0, 1], 0), f(&[0, 1], 0)], order: vec![0, 1, 0, 1, 0, 1], salt: 0, foreign: false, foreign_no_cache: false }],
            },
            Scenario {
                family: "inject".into(),
                sessions: vec![SessionSpec::seq(vec![f(&[0, 1], 0)]), SessionSpec::seq(vec![f(&[0, 1], 0), f(&[2, 3, 4], 0)])],
            },
            one(vec![f(&[0, 1, 2, 3], 0), f(&[4], 1), f(&[5, 6, 7], 0)]),
        ]);
    }
    v
}

fn configs(tier: Tier) -> Vec<Cfg> {
    let base = |name: &str, uploads: usize, shard_min: Option<u64>| Cfg {
        name: name.into(),
        target: 128,
        max_xorb_chunks: Some(2),
        max_xorb_bytes: None,
        nranges: None,
        min_cpr: Some(0.0),
        shard_min,
        ingest_block: None,
        max_uploads: Some(uploads),
    };
    let mut v = vec![base("I1-uploads1", 1, None), base("I2-uploads2", 2, None), base("I3-uploads2-shards", 2, Some(400))];
    // one chunk per xorb and one upload permit: every finish but the first has to cut the session aggregate, and the
    // cut has to wait whenever an earlier put is still pending (used with the four-file concurrent scenario only)
    let mut one = base("I6-uploads1-chunks1", 1, None);
    one.max_xorb_chunks = Some(1);
    v.push(one);
    if tier == Tier::Thorough {
        v.push(base("I4-uploads1-shards", 1, Some(400)));
        v.push(base("I5-uploads3", 3, None));
    }
    v
}

// ------------------------------------------------------------------ worker / parent

fn explore_scenario(atoms: &Atoms, cfg: &Cfg, scn: &Scenario, budget: usize, scratch: &std::path::Path, out: &mut Partial, cap: usize) {
    let mut stack: Vec<Vec<usize>> = vec![vec![]];
    let mut n = 0usize;
    let mut counter = 0u64;
    while let Some(prefix) = stack.pop() {
        if n >= cap {
            out.count("scenarios_capped", 1);
            break;
        }
        counter += 1;
        let cas = scratch.join(format!("c{counter}"));
        let _ = std::fs::remove_dir_all(&cas);
        std::fs::create_dir_all(&cas).unwrap();
        let obs = execute(atoms, cfg, scn, &cas, &prefix, budget);
        n += 1;
        out.count("executions", 1);
        out.count("decisions", obs.trace.len() as u64);
        if obs.replay_diverged {
            out.notes.push(format!("replay divergence at prefix {prefix:?} in {}", scn.label()));
            out.count("machinery:replay_divergence", 1);
            let _ = std::fs::remove_dir_all(&cas);
            continue;
        }
        // determinism: one in 16 executions is re-run and compared
        if n % 16 == 1 {
            let cas2 = scratch.join(format!("c{counter}r"));
            std::fs::create_dir_all(&cas2).unwrap();
            let choices: Vec<usize> = obs.trace.iter().map(|d| d.chosen).collect();
            let o2 = execute(atoms, cfg, scn, &cas2, &choices, budget);
            if outcome_string(&o2) != outcome_string(&obs) {
                out.count("machinery:nondeterministic_replay", 1);
                out.notes.push(format!("nondeterministic replay in {}: '{}' vs '{}'", scn.label(), outcome_string(&obs), outcome_string(&o2)));
            }
            out.count("replays_checked", 1);
            let _ = std::fs::remove_dir_all(&cas2);
        }
        let replay = json!({"lab": "inject", "cfg": cfg.to_json(), "scenario": scn.to_json(), "budget": budget,
            "choices": obs.trace.iter().map(|d| d.chosen).collect::<Vec<_>>(), "trace": obs.trace.iter().map(|d| d.label.clone()).collect::<Vec<_>>()});
        for (sig, w) in check(&obs) {
            out.violation(&sig, format!("{w}  [cfg {} scenario {} outcome {}]", cfg.name, scn.label(), outcome_string(&obs)), replay.clone());
        }
        let o = outcome_string(&obs);
        out.distinct(format!("{}|{}|{:x}", cfg.name, scn.label(), fx(&o)));
        if obs.failures_injected > 0 {
            out.count("vac:executions_with_injected_failure", 1);
            if !obs.all_api_ok {
                out.count("vac:failures_that_surfaced", 1);
            }
        }
        if obs.log.iter().filter(|c| matches!(c, Call::ShardStart { .. })).count() >= 2 {
            out.count("vac:executions_with_2+_shards", 1);
        }
        if obs.all_api_ok && obs.finalized {
            out.count("vac:successful_sessions_reconstructed", 1);
        }
        if obs.global_dedup_answers > 0 {
            out.count("vac:executions_with_global_dedup_answers", 1);
            if obs.metrics.map(|m| m.deduped_bytes_by_global_dedup > 0).unwrap_or(false) {
                out.count("vac:executions_deduped_by_global_dedup", 1);
            }
        }
        if n % 97 == 1 {
            out.sample(json!({"cfg": cfg.name, "scenario": scn.label(), "outcome": o}));
        }
        for i in prefix.len()..obs.trace.len() {
            for alt in 1..obs.trace[i].n {
                let mut p: Vec<usize> = obs.trace[..i].iter().map(|d| d.chosen).collect();
                p.push(alt);
                stack.push(p);
            }
        }
        let _ = vcore::util::make_writable(&cas);
        let _ = std::fs::remove_dir_all(&cas);
    }
}

fn fx(s: &str) -> u64 {
    let mut h = 0xcbf29ce484222325u64;
    for b in s.bytes() {
        h ^= b as u64;
        h = h.wrapping_mul(0x100000001b3);
    }
    h
}

fn worker(args: &Args, spec: &str) {
    vcore::util::quiet_panics();
    let spec: Value = serde_json::from_str(spec).unwrap_or_else(|e| machinery_error(&format!("bad worker spec: {e}")));
    let cfg = Cfg::from_json(&spec["cfg"]);
    for (k, v) in cfg.env() {
        if std::env::var(&k).ok().as_deref() != Some(v.as_str()) {
            machinery_error(&format!("worker environment lacks {k}={v}"));
        }
    }
    unsafe {
        let mut rl = libc::rlimit { rlim_cur: 0, rlim_max: 0 };
        if libc::getrlimit(libc::RLIMIT_NOFILE, &mut rl) == 0 {
            rl.rlim_cur = rl.rlim_max.min(1 << 20);
            libc::setrlimit(libc::RLIMIT_NOFILE, &rl);
        }
    }
    let scratch = Scratch::new("inj");
    let atoms = Atoms::harvest(cfg.target, K_ATOMS, 7);
    let scn = Scenario::from_json(&spec["scenario"]);
    let budget = spec["budget"].as_u64().unwrap_or(1) as usize;
    let cap = spec["cap"].as_u64().unwrap_or(20000) as usize;
    let mut out = Partial::default();
    if let Some(ch) = spec["choices"].as_array() {
        let choices: Vec<usize> = ch.iter().map(|x| x.as_u64().unwrap() as usize).collect();
        let cas = scratch.sub("replay");
        let obs = execute(&atoms, &cfg, &scn, &cas, &choices, budget);
        eprintln!("outcome: {}", outcome_string(&obs));
        out.count("executions", 1);
        for (sig, w) in check(&obs) {
            out.violation(&sig, format!("{w} [outcome {}]", outcome_string(&obs)), spec.clone());
        }
    } else {
        explore_scenario(&atoms, &cfg, &scn, budget, scratch.path(), &mut out, cap);
    }
    out.write_out(args.out.as_ref().expect("--out"));
}

fn main() {
    let args = Args::parse();
    if let Some(w) = &args.worker {
        worker(&args, w);
        return;
    }
    const SIDE: [&str; 4] = ["C14x", "C01x", "C03x", "C15x"];
    if args.prop != "C16" && !SIDE.contains(&args.prop.as_str()) {
        machinery_error("lab_inject serves C16 and, as C14x / C01x / C03x / C15x, the clauses of C14 / C01 / C03 / C15 that need the injected client or interleaved cleaners");
    }
    let prop = args.prop.clone();
    // the fault-free interleaving runs (C01x C03x C15x): scenarios with two or more files, no injected failure
    let fault_free = matches!(prop.as_str(), "C01x" | "C03x" | "C15x");
    // C14x = the exact upload-byte equations of C14: violations are reported as property C14,
    // the evidence goes to evidence/C14x.json (evidence/C14.json belongs to the session lab)
    let mut run = Run::new(&args, if SIDE.contains(&prop.as_str()) { &prop[..3] } else { &prop }, if fault_free { "exploration" } else { "fault_enumeration" });
    if SIDE.contains(&prop.as_str()) {
        run.evidence_name = Some(prop.clone());
    }
    let scratch = Scratch::new("injp");
    let mut jobs = vec![];
    if let Some(rp) = &args.replay {
        let v: Value = serde_json::from_slice(&std::fs::read(rp).unwrap_or_else(|e| machinery_error(&format!("read replay: {e}")))).unwrap_or_else(|e| machinery_error(&format!("parse: {e}")));
        let r = v["replay"].clone();
        let cfg = Cfg::from_json(&r["cfg"]);
        jobs.push(Job { name: "replay".into(), env: cfg.env(), args: vec!["--worker".into(), r.to_string()] });
    } else {
        for cfg in configs(args.tier) {
            for scn in scenarios(args.tier) {
                if fault_free && (scn.sessions.last().map(|s| s.files.len()).unwrap_or(0) < 2 || scn.family == "inject-persist" || (args.tier == Tier::Quick && cfg.name != "I2-uploads2" && !(cfg.name == "I1-uploads1" && scn.family == "inject-conc") && !cfg.name.starts_with("I6"))) {
                    continue;
                }
                // the three-file concurrent scenario is there for the fault-free interleaving checks; with injected
                // failures (C16) and for C14x it runs in the thorough tier only
                if !fault_free && args.tier == Tier::Quick && scn.family == "inject-conc" && scn.sessions.last().map(|s| s.files.len()).unwrap_or(0) >= 3 {
                    continue;
                }
                // configuration I6 and the four-file scenario belong together, and to the fault-free interleaving checks
                if (cfg.name.starts_with("I6")) != (scn.family == "inject-conc4") || (scn.family == "inject-conc4" && !fault_free) {
                    continue;
                }
                // the two-registrations scenario: C16 only, one-permit configuration only
                if scn.family == "inject-conc2r" && (prop != "C16" || cfg.name != "I1-uploads1") {
                    continue;
                }
                // C14x judges successful sessions only, so it needs no injected failure (and no persisting driver)
                if prop == "C14x" && (scn.family == "inject-persist" || scn.family == "inject-retry") {
                    continue;
                }
                if fault_free && scn.family == "inject-retry" {
                    continue;
                }
                for budget in if fault_free || prop == "C14x" { vec![0usize] } else { args.tier.pick(vec![0usize, 1], vec![0, 1, 2, 99]) } {
                    if budget == 0 && scn.family == "inject-retry" {
                        continue; // without a failure in the first attempt there is nothing to retry
                    }
                    // With several session shards, which records share a shard depends on the modification-time order
                    // of files written within one clock tick (consolidation sorts by mtime), so which xorbs a retry
                    // finds already recorded after a failed shard upload is not a function of the explored choices.
                    if scn.family == "inject-retry" && cfg.shard_min.is_some() {
                        continue;
                    }
                    let spec = json!({"cfg": cfg.to_json(), "scenario": scn.to_json(), "budget": budget, "cap": args.tier.pick(12000, 40000)});
                    jobs.push(Job { name: format!("{}/{}/b{budget}", cfg.name, scn.label()), env: cfg.env(), args: vec!["--worker".into(), spec.to_string()] });
                }
            }
        }
    }
    let njobs = jobs.len();
    let results = fanout(jobs, 16, scratch.path(), 1500);
    let mut all = Partial::default();
    for r in results {
        match r.partial {
            Some(p) => all.merge(p),
            None => run.machinery(format!("worker {} died: {} :: {}", r.job.name, r.died.unwrap_or_default(), r.stderr_tail.lines().last().unwrap_or(""))),
        }
    }
    if all.get("machinery:replay_divergence") + all.get("machinery:nondeterministic_replay") > 0 {
        run.machinery("nondeterminism in the injected driver (see notes)".to_string());
    }
    let mine = format!("{}/", &prop[..3]);
    all.violations.retain(|v| v.signature.starts_with(&mine));
    let evaluations = all.get("executions");
    let capped = all.get("scenarios_capped");
    run.set("worker_processes", json!(njobs));
    run.set("decisions", json!(all.get("decisions")));
    run.assume("two drivers: the in-repo caller's (stops using the session at the first Err; the error-surfacing and reconstructibility clauses are judged there) and, for the inject-persist scenarios, one that abandons only the file whose operation failed and goes on to finalize (the shard-after-its-xorbs clause is judged there as well)");
    run.assume("single-threaded runtime: the only nondeterminism is the explorer's (which pending store call completes next, as success or failure, relative to the driver's operations); quiescence between choices = 40 consecutive yields without a harness-visible event, validated by re-running 1 in 16 executions");
    run.assume("intra-operation preemption of two cleaners is not explored at this layer");
    run.assume("four-file concurrent scenario: the files are interchangeable (one fresh atom each, fed in one piece), so a file is started only after every file before it was started (symmetry reduction); the order of all later operations and releases is explored");
    run.all = all;
    run.finish(
        evaluations,
        "every sequence of environment choices {issue the next driver op, release pending store call j as success, release it as failure (at most `budget` failures: 0,1 quick; 0,1,2,all thorough)} for each base scenario x configuration (MAX_CONCURRENT_UPLOADS 1..3, one or several shards); distinct = distinct (configuration, scenario, store-call/API outcome log)",
        capped == 0,
    );
}

//! Session lab (public driver): decides C01 C02 C03 C11 C14 C15 by exhaustive enumeration of
//! scenario families over atom words, one worker process per (configuration, family, part).

use std::collections::BTreeMap;

use labs::atoms::Atoms;
use labs::session::*;
use labs::session_oracles::*;
use vcore::report::{fanout, machinery_error, Args, Job, Partial, Run, Tier};
use vcore::util::Scratch;
use vcore::{json, Value};

const PROPS: [&str; 6] = ["C01", "C02", "C03", "C11", "C14", "C15"];

fn configs(tier: Tier) -> Vec<Cfg> {
    let a = Atoms::harvest(128, K_ATOMS, 7);
    let mut sizes: Vec<usize> = a.atoms.iter().map(|x| x.len()).collect();
    let avg = sizes.iter().sum::<usize>() / sizes.len();
    sizes.sort();
    let base = |name: &str| Cfg {
        name: name.to_string(),
        target: 128,
        max_xorb_chunks: None,
        max_xorb_bytes: None,
        nranges: None,
        min_cpr: Some(0.0),
        shard_min: None,
        ingest_block: None,
        max_uploads: None,
    };
    let mut v = vec![];
    let mut k1 = base("K1-chunks3");
    k1.max_xorb_chunks = Some(3);
    v.push(k1);
    let mut k2 = base("K2-bytes");
    k2.max_xorb_bytes = Some((sizes[0] + sizes[1] + sizes[2] + avg).max(256));
    v.push(k2);
    let mut k3 = base("K3-both-defrag");
    k3.max_xorb_chunks = Some(4);
    k3.max_xorb_bytes = Some((3 * avg).max(256));
    k3.nranges = Some(2);
    k3.min_cpr = Some(4.0);
    v.push(k3);
    let mut k4 = base("K4-defaults");
    k4.min_cpr = None;
    v.push(k4);
    let mut k5 = base("K5-chunks2-shards-defrag");
    k5.max_xorb_chunks = Some(2);
    k5.shard_min = Some(600);
    k5.nranges = Some(3);
    k5.min_cpr = Some(2.0);
    v.push(k5);
    let mut k6 = base("K6-t1024");
    k6.target = 1024;
    k6.max_xorb_chunks = Some(3);
    k6.ingest_block = Some(100);
    v.push(k6);
    let mut k7 = base("K7-uploads1-ingest64");
    k7.max_xorb_chunks = Some(3);
    k7.max_uploads = Some(1);
    k7.ingest_block = Some(64);
    k7.shard_min = Some(600);
    v.push(k7);
    // production constants: nothing overridden but the (default) target itself
    let mut k0 = base("K0-production");
    k0.target = 65536;
    k0.min_cpr = None;
    v.push(k0);
    // fragmentation prevention alone (no small xorb limits): estimator window 2 / 3, target 4 / 3 chunks per range
    let mut k9 = base("K9-defrag-only-n2");
    k9.nranges = Some(2);
    k9.min_cpr = Some(4.0);
    v.push(k9);
    let mut k10 = base("K10-defrag-only-n3");
    k10.nranges = Some(3);
    k10.min_cpr = Some(3.0);
    v.push(k10);
    let mut k11 = base("K11-defrag-only-n3-cpr8");
    k11.nranges = Some(3);
    k11.min_cpr = Some(8.0);
    v.push(k11);
    // a chunk index capped at 20 entries: eight one-atom sessions stay far below it (family F12)
    v.push(base("K12-indexcap20"));
    if tier == Tier::Thorough {
        let mut k8 = base("K8-chunks4-defrag-n3");
        k8.max_xorb_chunks = Some(4);
        k8.nranges = Some(3);
        k8.min_cpr = Some(3.0);
        v.push(k8);
    }
    v
}

/// which families run under which configuration
fn plan(tier: Tier) -> Vec<(Cfg, &'static str)> {
    let cs = configs(tier);
    let by = |n: &str| cs.iter().find(|c| c.name.starts_with(n)).unwrap().clone();
    let mut p: Vec<(Cfg, &'static str)> = vec![];
    match tier {
        Tier::Quick => {
            for k in ["K1", "K3"] {
                p.push((by(k), "F1"));
            }
            for k in ["K1", "K5"] {
                p.push((by(k), "F2"));
            }
            for k in ["K1", "K3"] {
                p.push((by(k), "F3"));
            }
            for k in ["K1", "K2", "K3", "K4", "K5", "K7"] {
                p.push((by(k), "F5"));
            }
            for k in ["K1", "K6", "K7"] {
                p.push((by(k), "F6"));
            }
            p.push((by("K1"), "F6c"));
            p.push((by("K1"), "FS"));
            p.push((by("K2"), "F4"));
            p.push((by("K0"), "F7"));
            for k in ["K1", "K3"] {
                p.push((by(k), "F8"));
            }
            for k in ["K9", "K10", "K3"] {
                p.push((by(k), "F9"));
            }
            for k in ["K1", "K4"] {
                p.push((by(k), "F10"));
            }
            for k in ["K1", "K4"] {
                p.push((by(k), "F11"));
            }
            p.push((by("K12"), "F12"));
            for k in ["K11", "K10"] {
                p.push((by(k), "F9c"));
            }
        },
        Tier::Thorough => {
            p.push((by("K0"), "F7"));
            for c in &cs {
                if c.target == 65536 {
                    continue;
                }
                if c.name.starts_with("K12") {
                    p.push((c.clone(), "F12"));
                    continue;
                }
                for f in ["F1", "F2", "F3", "F4", "F5", "F6", "F6c", "FS", "F8", "F9", "F9b", "F9c", "F10", "F11"] {
                    if c.target == 1024 && (f == "F2" || f == "F3" || f == "F4" || f == "F8" || f == "F9" || f == "F9b" || f == "F9c" || f == "F10" || f == "F11") {
                        continue;
                    }
                    // the fragmented-dedup families run under the configurations made for them only
                    let frag_cfgs: &[&str] = match f {
                        "F9" => &["K3", "K9-", "K10", "K8"],
                        "F9b" => &["K9-", "K10", "K11"],
                        "F9c" => &["K10", "K11"],
                        _ => &[],
                    };
                    if f.starts_with("F9") && !frag_cfgs.iter().any(|k| c.name.starts_with(k)) {
                        continue;
                    }
                    if c.name.starts_with("K9") || c.name.starts_with("K10") || c.name.starts_with("K11") {
                        if f != "F9" && f != "F9b" && f != "F9c" && f != "F3" && f != "F1" && f != "F10" && f != "F11" {
                            continue;
                        }
                    }
                    p.push((c.clone(), f));
                }
            }
        },
    }
    p
}

fn expand(scn: Vec<Scenario>, atoms: &Atoms) -> Vec<Scenario> {
    let mut out = vec![];
    for s in scn {
        if s.family == "F6c" {
            let f = &s.sessions[0].files[0];
            let len = f.bytes(atoms).len();
            for cut in 0..=len {
                let mut t = s.clone();
                t.sessions[0].files[0].feed = Feed::Cut(cut);
                out.push(t);
            }
        } else if s.family == "F2" && s.sessions[0].files.iter().any(|f| f.feed == Feed::Cut(usize::MAX - 1)) {
            // "cut in the middle of the word": resolved here, where the atom sizes are known
            let mut t = s.clone();
            for f in t.sessions[0].files.iter_mut() {
                if f.feed == Feed::Cut(usize::MAX - 1) {
                    let half = FileSpec::new(&f.word[..f.word.len() / 2], 0, Feed::Whole).bytes(atoms).len();
                    f.feed = Feed::Cut(half);
                }
            }
            out.push(t);
        } else {
            out.push(s);
        }
    }
    out
}

fn worker(args: &Args, spec: &str) {
    vcore::util::quiet_panics();
    let spec: Value = serde_json::from_str(spec).unwrap_or_else(|e| machinery_error(&format!("bad worker spec: {e}")));
    let cfg = Cfg::from_json(&spec["cfg"]);
    // the configuration must already be in the environment (lazy statics read it once)
    for (k, v) in cfg.env() {
        if std::env::var(&k).ok().as_deref() != Some(v.as_str()) {
            machinery_error(&format!("worker environment lacks {k}={v}"));
        }
    }
    unsafe {
        let mut rl = libc::rlimit { rlim_cur: 0, rlim_max: 0 };
        if libc::getrlimit(libc::RLIMIT_NOFILE, &mut rl) == 0 {
            rl.rlim_cur = rl.rlim_max.min(1 << 20);
            libc::setrlimit(libc::RLIMIT_NOFILE, &rl);
        }
    }
    let scratch = Scratch::new("sess");
    let mut lab = Lab::new(cfg.clone(), K_ATOMS, scratch.path());
    let mut out = Partial::default();
    // cross-check the atom alphabet against the real chunker
    {
        let mut ok = true;
        for a in &lab.atoms.atoms {
            let mut c = deduplication::Chunker::default();
            let mut both = a.clone();
            both.extend_from_slice(&lab.atoms.atoms[0]);
            let chunks = c.next_block(&both, false);
            if chunks.first().map(|c| c.data.len()) != Some(a.len()) {
                ok = false;
            }
        }
        out.count(if ok { "info:atoms_atomic_under_real_chunker" } else { "info:atoms_NOT_atomic_under_real_chunker" }, 1);
        if !ok {
            out.notes.push("the real chunker does not cut the reference atoms as single chunks; dedup structure is not controlled in this run".into());
        }
    }
    let scenarios: Vec<Scenario> = if spec["scenario"].is_object() {
        vec![Scenario::from_json(&spec["scenario"])]
    } else {
        let fam = spec["family"].as_str().unwrap();
        let tier = if spec["tier"].as_str() == Some("thorough") { Tier::Thorough } else { Tier::Quick };
        let part = spec["part"].as_u64().unwrap() as usize;
        let nparts = spec["nparts"].as_u64().unwrap() as usize;
        expand(family(fam, tier), &lab.atoms).into_iter().enumerate().filter(|(i, _)| i % nparts == part).map(|(_, s)| s).collect()
    };
    let downloads = spec["downloads"].as_bool().unwrap_or(false);
    let mut ck = Checker {
        lab: &mut lab,
        out: &mut out,
        seen_ptr: BTreeMap::new(),
        download_ranges: downloads,
        downloads,
    };
    for s in &scenarios {
        ck.check_scenario(s);
    }
    drop(ck);
    drop(lab);
    out.write_out(args.out.as_ref().expect("--out"));
}

fn main() {
    let args = Args::parse();
    if let Some(w) = &args.worker {
        worker(&args, w);
        return;
    }
    if !PROPS.contains(&args.prop.as_str()) {
        machinery_error("lab_session serves C01 C02 C03 C11 C14 C15");
    }
    let prop = args.prop.clone();
    let mut run = Run::new(&args, &prop, "exploration");
    let scratch = Scratch::new("sessp");
    let downloads = prop == "C01";
    let mut jobs = vec![];
    if let Some(rp) = &args.replay {
        let v: Value = serde_json::from_slice(&std::fs::read(rp).unwrap_or_else(|e| machinery_error(&format!("read replay: {e}"))))
            .unwrap_or_else(|e| machinery_error(&format!("parse replay: {e}")));
        let r = &v["replay"];
        // a cross-process C03 conflict is replayed by running each of its contexts in its own process
        let ctxs: Vec<Value> = if let Some(p) = r["pair"].as_array() { p.clone() } else { vec![r.clone()] };
        for c in ctxs {
            let cfg = Cfg::from_json(&c["cfg"]);
            let spec = json!({"cfg": cfg.to_json(), "scenario": c["scenario"], "downloads": true});
            jobs.push(Job {
                name: "replay".into(),
                env: cfg.env(),
                args: vec!["--worker".into(), spec.to_string()],
            });
        }
    } else {
        let probe_atoms = Atoms::harvest(128, K_ATOMS, 7);
        for (cfg, fam) in plan(args.tier) {
            let scn = expand(family(fam, args.tier), &probe_atoms);
            let sessions: usize = scn.iter().map(|s| s.sessions.len()).sum();
            let per = if fam == "F7" { 2 } else if downloads { 60 } else { 150 };
            let nparts = ((sessions + per - 1) / per).max(1);
            for part in 0..nparts {
                let spec = json!({"cfg": cfg.to_json(), "family": fam, "tier": args.tier.name(), "part": part, "nparts": nparts, "downloads": downloads});
                jobs.push(Job {
                    name: format!("{}/{}/{}of{}", cfg.name, fam, part, nparts),
                    env: cfg.env(),
                    args: vec!["--worker".into(), spec.to_string()],
                });
            }
        }
    }
    let njobs = jobs.len();
    let results = fanout(jobs, 16, scratch.path(), 1200);
    let mut all = Partial::default();
    for r in results {
        match r.partial {
            Some(p) => all.merge(p),
            None => {
                // a worker that dies (abort, stack overflow, OOM) took its scenarios with it
                run.machinery(format!("worker {} died: {} :: {}", r.job.name, r.died.unwrap_or_default(), r.stderr_tail.lines().last().unwrap_or("")));
            },
        }
    }
    // cross-worker C03 oracle over the pointer facts
    let mut by_content: BTreeMap<(String, String), Vec<(String, String)>> = BTreeMap::new();
    let mut ctx_of: BTreeMap<(String, String, String), Value> = BTreeMap::new();
    for f in &all.facts {
        let p: Vec<&str> = f.splitn(5, '|').collect();
        if p.len() == 5 && p[0] == "ptr" {
            by_content.entry((p[1].to_string(), p[2].to_string())).or_default().push((p[3].to_string(), p[4].to_string()));
        }
        if p.len() == 5 && p[0] == "ptrctx" {
            if let Ok(v) = serde_json::from_str::<Value>(p[4]) {
                ctx_of.entry((p[1].to_string(), p[2].to_string(), p[3].to_string())).or_insert(v);
            }
        }
    }
    let mut contents_compared = 0u64;
    for ((salt, content), vals) in &by_content {
        if vals.len() > 1 {
            all.violation(
                "C03/pointer-differs-across-workers",
                format!("content {content} salt {salt}: pointers {vals:?} in different configurations/processes"),
                json!({"lab": "session", "note": "cross-process comparison: each context below is re-run in its own process", "content": content, "values": vals,
                    "pair": vals.iter().filter_map(|(h, _)| ctx_of.get(&(salt.clone(), content.clone(), h.clone())).cloned()).collect::<Vec<_>>()}),
            );
        }
        contents_compared += 1;
    }
    all.count("contents_with_pointer_facts", contents_compared);
    // keep this property's violations only
    let mine = format!("{prop}/");
    all.violations.retain(|v| v.signature.starts_with(&mine));
    let keys: Vec<String> = all.counters.keys().filter(|k| k.starts_with("violations_seen[") && !k.starts_with(&format!("violations_seen[{mine}"))).cloned().collect();
    for k in keys {
        all.counters.remove(&k);
    }
    let evaluations = all.get("sessions");
    run.set("scenarios", json!(all.get("scenarios")));
    run.set("worker_processes", json!(njobs));
    run.set("configurations", json!(plan(args.tier).iter().map(|(c, f)| format!("{}:{}", c.name, f)).collect::<Vec<_>>()));
    run.assume("file contents are words over 8 atoms harvested from a fixed LCG stream (plus one-byte / sub-chunk tails); contents outside this alphabet are covered at chunker level by C04");
    run.assume("one operation at a time is awaited by the driver: intra-operation preemption of two cleaners is not explored");
    run.assume("LocalClient is the store; its xorb files are written with compression scheme None");
    run.assume("C11: a repeat session may store again exactly the bytes it reports as withheld by fragmentation prevention (C14 presupposes that heuristic) and nothing beyond; xorbs hold far fewer than 65536 chunks (the shard manager's index keeps 16-bit chunk offsets; a configuration with MAX_XORB_CHUNKS >= 65537 is not explored)");
    run.all = all;
    run.finish(
        evaluations,
        "sessions executed on the real FileUploadSession + LocalClient over scenario families F1..F6/FS (all words up to the tier's length over the atom alphabet, all op interleavings of two files, all two-/three-session combinations, all feed partitions); a scenario is distinct and non-trivial when it is a different (configuration, scenario) pair that exercised dedup, a multi-xorb session, fragmentation prevention or a multi-file xorb",
        true,
    );
}

vcore::interpose!();
fn main() {
    vcore::sched::install_hooks();
    let sc = vcore::util::Scratch::new("smoke");
    vcore::vfs::watch(sc.path(), false);
    vcore::vfs::log_only(true);
    std::fs::write(sc.path().join("a"), b"x").unwrap();
    std::fs::rename(sc.path().join("a"), sc.path().join("b")).unwrap();
    println!("{:?}", vcore::vfs::take_log());
    vcore::vfs::set_clock(Some(1000));
    println!("{:?}", std::time::SystemTime::now().duration_since(std::time::UNIX_EPOCH).unwrap().as_secs());
}

//! Hash lab: decides C06 by bounded exhaustive enumeration of chunk lists, salts/keys, 256-bit
//! values and byte strings against the independent constructions in `labs::refmodel`.
//!
//! Code paths compared for one chunk list: `cas_node_hash` (producer), `RawXorbData::from_chunks`
//! (the uploader), the seekable validator `CasObject::validate_cas_object`, the streaming validator
//! `validate_cas_object_from_async_read` (both recompute through add_file/finalize), and the
//! reference.  Likewise `file_node_hash`/`with_salt`, `range_hash_from_chunks` /
//! `CasObject::generate_chunk_range_hash`, `DataHash::hmac`, the text forms and `HashedWrite`.

use std::io::{Cursor, Write};
use std::sync::atomic::{AtomicUsize, Ordering};
use std::sync::Mutex;

use cas_object::{validate_cas_object_from_async_read, CasObject, CompressionScheme};
use labs::refmodel::{self, RH};
use merkledb::aggregate_hashes::{cas_node_hash, file_node_hash, with_salt};
use merklehash::{compute_data_hash, compute_internal_node_hash, DataHash, HashedWrite, MerkleHash};
use vcore::report::{machinery_error, Args, Partial, Run, Tier};
use vcore::util::Lcg;
use vcore::{json, Value};

// ------------------------------------------------------------------ leaves

/// A real chunk: bytes, its hash by the reference and by the code under test.
struct Leaf {
    data: Vec<u8>,
    rh: RH,
    mh: MerkleHash,
}

/// Leaf pools by class: `c` = last 64-bit word of the chunk hash is 0 mod 4 (may close a group),
/// `n` = it is not.  Found by search over small LCG-generated chunks.
struct Pools {
    c: Vec<Leaf>,
    n: Vec<Leaf>,
    /// synthetic leaves (no bytes behind them) whose FIRST 64-bit word is shared: s[cut][4 * group + j];
    /// groups: word 0, word 7, the first word of n[0], the first word of c[0]
    s: [Vec<Leaf>; 2],
    candidates_tried: u64,
}

/// Entry indices from here on select a synthetic leaf.
const SYN_BASE: usize = 1 << 20;

const POOL: usize = 8192;

fn candidate(s: u64) -> Vec<u8> {
    let mut g = Lcg::new(0xC06_0000 + s);
    let len = 1 + (g.below(160) as usize);
    if s % 3 == 0 {
        // compressible: a 4-byte motif repeated (drives the LZ4 / byte-grouping frames of the xorb)
        let m = g.bytes(4);
        (0..len).map(|i| m[i % 4]).collect()
    } else {
        g.bytes(len)
    }
}

fn build_pools(out: &mut Partial) -> Pools {
    let mut p = Pools { c: vec![], n: vec![], s: [vec![], vec![]], candidates_tried: 0 };
    let mut seen = std::collections::BTreeSet::new();
    let mut s = 0u64;
    while p.c.len() < POOL || p.n.len() < POOL {
        let data = candidate(s);
        s += 1;
        p.candidates_tried += 1;
        let rh = refmodel::chunk_hash(&data);
        let mh = compute_data_hash(&data);
        out.count("evaluations", 1);
        if mh.as_bytes() != rh {
            viol(out, "C06/chunk-hash-vs-reference", || {
                (format!("compute_data_hash of the {} bytes {} is {} but keyed BLAKE3 under the data key is {}", data.len(), vcore::util::hex(&data), mh.hex(), refmodel::hex(&rh)), json!({"lab": "hash", "check": "chunk", "data": vcore::util::hex(&data)}))
            });
        }
        if !seen.insert(rh) {
            continue;
        }
        let cut = u64::from_le_bytes(rh[24..32].try_into().unwrap()) % 4 == 0;
        let pool = if cut { &mut p.c } else { &mut p.n };
        if pool.len() < POOL {
            pool.push(Leaf { data, rh, mh });
        }
    }
    let first_word = |l: &Leaf| u64::from_le_bytes(l.rh[..8].try_into().unwrap());
    let groups = [0u64, 7, first_word(&p.n[0]), first_word(&p.c[0])];
    for cut in 0..2usize {
        for (gi, w0) in groups.iter().enumerate() {
            for j in 0..4u64 {
                let last = 8 * (gi as u64 * 4 + j + 1) + if cut == 1 { 0 } else { 1 + j % 3 };
                let w = [*w0, 0x1000 + j, 0x5555_0000 + gi as u64, last];
                let mut rh = [0u8; 32];
                for i in 0..4 {
                    rh[i * 8..i * 8 + 8].copy_from_slice(&w[i].to_le_bytes());
                }
                p.s[cut].push(Leaf { data: vec![], rh, mh: MerkleHash::from(rh) });
            }
        }
    }
    p
}

/// One list entry: a pool leaf, optionally with an artificial length (then there are no real bytes behind it).
#[derive(Clone, Copy, PartialEq, Eq, Debug)]
struct Entry {
    cut: bool,
    idx: usize,
    len: Option<u64>,
}

impl Entry {
    fn leaf<'a>(&self, p: &'a Pools) -> &'a Leaf {
        if self.idx >= SYN_BASE {
            let pool = &p.s[self.cut as usize];
            return &pool[(self.idx - SYN_BASE) % pool.len()];
        }
        let pool = if self.cut { &p.c } else { &p.n };
        &pool[self.idx % pool.len()]
    }
    fn length(&self, p: &Pools) -> u64 {
        self.len.unwrap_or(self.leaf(p).data.len() as u64)
    }
    fn to_json(&self) -> Value {
        json!([if self.cut { "c" } else { "n" }, self.idx, self.len])
    }
    fn from_json(v: &Value) -> Entry {
        Entry { cut: v[0].as_str() == Some("c"), idx: v[1].as_u64().unwrap_or(0) as usize, len: v[2].as_u64() }
    }
}

fn list_json(l: &[Entry]) -> Value {
    Value::Array(l.iter().map(|e| e.to_json()).collect())
}
fn list_from_json(v: &Value) -> Vec<Entry> {
    v.as_array().map(|a| a.iter().map(Entry::from_json).collect()).unwrap_or_default()
}

fn ref_list(p: &Pools, l: &[Entry]) -> Vec<(RH, u64)> {
    l.iter().map(|e| (e.leaf(p).rh, e.length(p))).collect()
}
fn real_list(p: &Pools, l: &[Entry]) -> Vec<(MerkleHash, usize)> {
    l.iter().map(|e| (e.leaf(p).mh, e.length(p) as usize)).collect()
}

fn viol(out: &mut Partial, sig: &str, f: impl FnOnce() -> (String, Value)) {
    if out.get(&format!("violations_seen[{sig}]")) < 3 {
        let (what, replay) = f();
        out.violation(sig, what, replay);
    } else {
        out.count(&format!("violations_seen[{sig}]"), 1);
    }
}

fn show(p: &Pools, l: &[Entry]) -> String {
    let v: Vec<String> = l.iter().take(10).map(|e| format!("{}:{}", &refmodel::hex(&e.leaf(p).rh)[48..], e.length(p))).collect();
    format!("[{}{}] ({} entries; last hash word shown)", v.join(" "), if l.len() > 10 { " .." } else { "" }, l.len())
}

const SALTS: [[u8; 32]; 3] = [[0u8; 32], [0, 0, 0, 0, 0, 0, 0, 0, 0, 0, 0, 0, 0, 0, 0, 0, 0, 0, 0, 0, 0, 0, 0, 0, 0, 0, 0, 0, 0, 0, 0, 1], PATTERN];
const PATTERN: [u8; 32] = [
    0x01, 0x23, 0x45, 0x67, 0x89, 0xAB, 0xCD, 0xEF, 0xFE, 0xDC, 0xBA, 0x98, 0x76, 0x54, 0x32, 0x10, 0x00, 0xFF, 0x00, 0xFF, 0x80, 0x7F, 0x55, 0xAA, 0x11, 0x22, 0x33, 0x44, 0x88, 0x99, 0xCC, 0xDD,
];

// ------------------------------------------------------------------ list oracles

struct ListOpts {
    /// build a real xorb and run the uploader + both validators
    xorb: bool,
    /// range hashes of every sub-range (else of the whole list and a few sub-ranges)
    all_ranges: bool,
    family: &'static str,
}

fn trace_counts(out: &mut Partial, tr: &refmodel::MerkleTrace) {
    out.count("vac:group_closed_by_hash_after_two_or_more_children", tr.cut_by_hash);
    out.count("vac:zero_mod_4_child_too_early_to_close", tr.cut_suppressed_by_minimum);
    out.count("vac:group_forced_closed_at_nine_children", tr.cut_forced_at_nine);
    out.count("vac:group_closed_by_end_of_level", tr.cut_by_end_of_level);
    out.max("max:tree_levels", tr.levels);
    out.max("max:widest_group", tr.widest_group);
}

/// aggregate hashes of one list against the reference; returns the real (xorb, file[pattern salt], range) hashes
fn check_list(out: &mut Partial, p: &Pools, l: &[Entry], o: &ListOpts) -> (MerkleHash, MerkleHash, MerkleHash) {
    let case = || json!({"lab": "hash", "check": "list", "family": o.family, "list": list_json(l), "xorb": o.xorb});
    let rl = ref_list(p, l);
    let ml = real_list(p, l);
    out.count("lists", 1);
    out.count(&format!("lists[{}]", o.family), 1);
    // xorb hash
    let (want, tr) = refmodel::merkle_root_traced(&rl);
    if want != refmodel::xorb_hash(&rl) {
        machinery_error("refmodel::merkle_root_traced and refmodel::merkle_root disagree");
    }
    trace_counts(out, &tr);
    let got = cas_node_hash(&ml);
    out.count("evaluations", 1);
    if got.as_bytes() != want {
        viol(out, "C06/xorb-hash-vs-reference", || (format!("cas_node_hash of {} is {} but the published construction gives {}", show(p, l), got.hex(), refmodel::hex(&want)), case()));
    }
    // file hash under every salt
    let mut file_pattern = MerkleHash::default();
    for salt in &SALTS {
        let wantf = refmodel::file_hash(&rl, salt);
        out.count("evaluations", 1);
        match file_node_hash(&ml, salt) {
            Ok(gotf) => {
                if gotf.as_bytes() != wantf {
                    viol(out, "C06/file-hash-vs-reference", || {
                        (format!("file_node_hash of {} under salt {} is {} but the published construction gives {}", show(p, l), vcore::util::hex(salt), gotf.hex(), refmodel::hex(&wantf)), case())
                    });
                }
                if *salt == PATTERN {
                    file_pattern = gotf;
                }
            },
            Err(e) => viol(out, "C06/file-hash-errors", || (format!("file_node_hash of {} fails: {e}", show(p, l)), case())),
        }
        if !l.is_empty() && *salt != [0u8; 32] {
            out.count("vac:file_hash_salted", 1);
        }
    }
    // range verification hash
    let hashes: Vec<MerkleHash> = ml.iter().map(|x| x.0).collect();
    let rhashes: Vec<RH> = rl.iter().map(|x| x.0).collect();
    let mut ranges: Vec<(usize, usize)> = vec![(0, l.len())];
    if o.all_ranges {
        for s in 0..l.len() {
            for e in s + 1..=l.len() {
                ranges.push((s, e));
            }
        }
    } else if l.len() > 2 {
        ranges.extend([(0, 1), (1, l.len()), (l.len() / 2, l.len() / 2 + 1), (l.len() - 1, l.len())]);
    }
    let mut whole_range = MerkleHash::default();
    for (s, e) in ranges {
        let got = mdb_shard::chunk_verification::range_hash_from_chunks(&hashes[s..e]);
        let want = refmodel::range_hash(&rhashes[s..e]);
        out.count("evaluations", 1);
        out.count("range_hashes", 1);
        if got.as_bytes() != want {
            viol(out, "C06/range-hash-vs-reference", || (format!("range_hash_from_chunks over entries {s}..{e} of {} is {} but the published construction gives {}", show(p, l), got.hex(), refmodel::hex(&want)), case()));
        }
        if (s, e) == (0, l.len()) {
            whole_range = got;
        }
    }
    if o.xorb && !l.is_empty() && l.iter().all(|e| e.len.is_none()) {
        check_xorb(out, p, l, &want, o.all_ranges, &case());
    }
    (got, file_pattern, whole_range)
}

fn block_on<F: std::future::Future>(f: F) -> F::Output {
    futures::executor::block_on(f)
}

/// the uploader's hash and both validators on a real xorb built from the leaves' bytes
fn check_xorb(out: &mut Partial, p: &Pools, l: &[Entry], want: &RH, all_ranges: bool, case: &Value) {
    let want_mh = MerkleHash::from(want);
    // uploader
    let chunks: Vec<deduplication::Chunk> = l.iter().map(|e| deduplication::Chunk { hash: e.leaf(p).mh, data: e.leaf(p).data.clone().into() }).collect();
    let up = deduplication::RawXorbData::from_chunks(&chunks).hash();
    out.count("evaluations", 1);
    if up != want_mh {
        viol(out, "C06/uploader-xorb-hash-vs-reference", || (format!("RawXorbData::from_chunks over {} says {} but the published construction gives {}", show(p, l), up.hex(), want_mh.hex()), case.clone()));
    }
    let mut data = Vec::new();
    let mut bounds: Vec<(MerkleHash, u32)> = vec![];
    for e in l {
        data.extend_from_slice(&e.leaf(p).data);
        bounds.push((e.leaf(p).mh, data.len() as u32));
    }
    // a wrong hash: the reference hash of the list with its first entry replaced / appended
    let mut other = ref_list(p, l);
    other[0].0 = p.n[(l[0].idx + 1) % p.n.len()].rh;
    if other[0].0 == ref_list(p, l)[0].0 {
        other[0].0 = p.c[0].rh;
    }
    let wrong = MerkleHash::from(&refmodel::xorb_hash(&other));
    let schemes: &[Option<CompressionScheme>] = match l.len() % 3 {
        0 => &[Some(CompressionScheme::None), Some(CompressionScheme::LZ4)],
        1 => &[Some(CompressionScheme::None), Some(CompressionScheme::ByteGrouping4LZ4)],
        _ => &[Some(CompressionScheme::None), None],
    };
    for scheme in schemes {
        for (footer_hash, given, accept) in [(&up, &up, true), (&up, &wrong, false), (&wrong, &wrong, false)] {
            let mut buf = Cursor::new(Vec::new());
            if let Err(e) = CasObject::serialize(&mut buf, footer_hash, &data, &bounds, *scheme) {
                viol(out, "C06/xorb-serialize-fails", || (format!("CasObject::serialize of {} fails: {e}", show(p, l)), case.clone()));
                continue;
            }
            let bytes = buf.into_inner();
            if matches!(scheme, Some(CompressionScheme::LZ4) | Some(CompressionScheme::ByteGrouping4LZ4) | None) {
                if let Ok((frames, _)) = refmodel::split_xorb(&bytes) {
                    if let Ok(fr) = refmodel::decode_frames(frames) {
                        out.count("vac:compressed_frames_in_validated_xorbs", fr.iter().filter(|f| f.scheme != 0).count() as u64);
                    }
                }
            }
            let label = if accept {
                "the uploader's hash"
            } else if footer_hash == given {
                "a different hash, also written in the footer"
            } else {
                "a different hash than the footer's"
            };
            // seekable validator
            out.count("evaluations", 1);
            match CasObject::validate_cas_object(&mut Cursor::new(&bytes[..]), given) {
                Ok(Some(cas)) => {
                    if !accept {
                        viol(out, "C06/seekable-validator-accepts-wrong-hash", || (format!("validate_cas_object accepts the xorb of {} under {label} ({}); the chunks hash to {}", show(p, l), given.hex(), up.hex()), case.clone()));
                    } else {
                        out.count("vac:seekable_validator_accepted", 1);
                        if cas.info.cashash != want_mh {
                            viol(out, "C06/seekable-validator-returns-other-hash", || (format!("validate_cas_object returns footer hash {} for {}; expected {}", cas.info.cashash.hex(), show(p, l), want_mh.hex()), case.clone()));
                        }
                        // range hashes from the validated footer
                        let n = l.len() as u32;
                        let mut rs: Vec<(u32, u32)> = vec![(0, n)];
                        if all_ranges {
                            for s in 0..n {
                                for e in s + 1..=n {
                                    rs.push((s, e));
                                }
                            }
                        }
                        for (s, e) in rs {
                            let want_r = refmodel::range_hash(&l[s as usize..e as usize].iter().map(|x| x.leaf(p).rh).collect::<Vec<_>>());
                            out.count("evaluations", 1);
                            match cas.generate_chunk_range_hash(s, e) {
                                Ok(g) if g.as_bytes() == want_r => {},
                                Ok(g) => viol(out, "C06/xorb-range-hash-vs-reference", || (format!("generate_chunk_range_hash({s},{e}) on the xorb of {} is {} but the published construction gives {}", show(p, l), g.hex(), refmodel::hex(&want_r)), case.clone())),
                                Err(err) => viol(out, "C06/xorb-range-hash-vs-reference", || (format!("generate_chunk_range_hash({s},{e}) on the xorb of {} fails: {err}", show(p, l)), case.clone())),
                            }
                        }
                    }
                },
                Ok(None) => {
                    if accept {
                        viol(out, "C06/seekable-validator-rejects-uploader-hash", || (format!("validate_cas_object rejects the xorb of {} under the uploader's hash {} (compression {scheme:?})", show(p, l), given.hex()), case.clone()));
                    } else {
                        out.count("vac:seekable_validator_rejected_wrong_hash", 1);
                    }
                },
                Err(e) => viol(out, "C06/seekable-validator-errors", || (format!("validate_cas_object fails on the xorb of {} under {label}: {e}", show(p, l)), case.clone())),
            }
            // streaming validator
            out.count("evaluations", 1);
            let mut rd = futures::io::Cursor::new(&bytes[..]);
            match block_on(validate_cas_object_from_async_read(&mut rd, given)) {
                Ok(Some((cas, back))) => {
                    if !accept {
                        viol(out, "C06/streaming-validator-accepts-wrong-hash", || (format!("validate_cas_object_from_async_read accepts the xorb of {} under {label} ({}); the chunks hash to {}", show(p, l), given.hex(), up.hex()), case.clone()));
                    } else {
                        out.count("vac:streaming_validator_accepted", 1);
                        if cas.info.cashash != want_mh || back.is_some() {
                            viol(out, "C06/streaming-validator-returns-other-hash", || (format!("validate_cas_object_from_async_read returns footer hash {} (go-back {back:?}) for {}; expected {}", cas.info.cashash.hex(), show(p, l), want_mh.hex()), case.clone()));
                        }
                    }
                },
                Ok(None) => {
                    if accept {
                        viol(out, "C06/streaming-validator-rejects-uploader-hash", || (format!("validate_cas_object_from_async_read rejects the xorb of {} under the uploader's hash {} (compression {scheme:?})", show(p, l), given.hex()), case.clone()));
                    } else {
                        out.count("vac:streaming_validator_rejected_wrong_hash", 1);
                    }
                },
                Err(e) => viol(out, "C06/streaming-validator-errors", || (format!("validate_cas_object_from_async_read fails on the xorb of {} under {label}: {e}", show(p, l)), case.clone())),
            }
            if accept {
                // footer-less stream: the streaming validator must recompute the same hash on its own
                if let Ok((frames, _)) = refmodel::split_xorb(&bytes) {
                    let mut rd = futures::io::Cursor::new(frames);
                    out.count("evaluations", 1);
                    match block_on(validate_cas_object_from_async_read(&mut rd, given)) {
                        Ok(Some(_)) => out.count("vac:streaming_validator_accepted_footerless", 1),
                        Ok(None) => viol(out, "C06/streaming-validator-rejects-uploader-hash", || (format!("validate_cas_object_from_async_read rejects the footer-less xorb of {} under the uploader's hash {}", show(p, l), given.hex()), case.clone())),
                        Err(e) => viol(out, "C06/streaming-validator-errors", || (format!("validate_cas_object_from_async_read fails on the footer-less xorb of {}: {e}", show(p, l)), case.clone())),
                    }
                    let mut rd = futures::io::Cursor::new(frames);
                    out.count("evaluations", 1);
                    if let Ok(Some(_)) = block_on(validate_cas_object_from_async_read(&mut rd, &wrong)) {
                        viol(out, "C06/streaming-validator-accepts-wrong-hash", || (format!("validate_cas_object_from_async_read accepts the footer-less xorb of {} under a different hash {}", show(p, l), wrong.hex()), case.clone()));
                    }
                }
            }
        }
    }
    out.count("xorbs_built_and_validated", 1);
}

/// every single edit of `l` must change the xorb hash, the file hash and the range hash;
/// `positions` limits where edits are applied (None = everywhere)
fn check_edits(out: &mut Partial, p: &Pools, l: &[Entry], positions: Option<&[usize]>, family: &'static str) {
    let o = ListOpts { xorb: false, all_ranges: false, family: "edited" };
    let quiet = |out: &mut Partial, l: &[Entry]| check_list(out, p, l, &o);
    let orig = quiet(out, l);
    let all: Vec<usize> = (0..=l.len()).collect();
    let pos = positions.unwrap_or(&all);
    let mut edits: Vec<(&'static str, usize, Vec<Entry>)> = vec![];
    let fresh = |cut: bool, salt: usize| Entry { cut, idx: (4000 + salt) % POOL, len: None };
    for &i in pos {
        if i < l.len() {
            // change one entry: to another leaf of the same class and to one of the other class
            for (k, cut) in [(0usize, l[i].cut), (1, !l[i].cut)] {
                let mut e = fresh(cut, i * 2 + k);
                if e.cut == l[i].cut && e.idx == l[i].idx % POOL {
                    e.idx = (e.idx + 1) % POOL;
                }
                if l[i].len.is_some() {
                    // artificial lengths stay a function of the hash: a new hash brings its own length
                    e.len = Some(l[i].len.unwrap() ^ 0x55);
                }
                let mut v = l.to_vec();
                v[i] = e;
                edits.push(("change", i, v));
            }
            // drop
            let mut v = l.to_vec();
            v.remove(i);
            edits.push(("drop", i, v));
            // swap with the next entry when they differ
            if i + 1 < l.len() && l[i] != l[i + 1] {
                let mut v = l.to_vec();
                v.swap(i, i + 1);
                edits.push(("swap", i, v));
            }
            // duplicate this entry in place (insert a repeat)
            let mut v = l.to_vec();
            v.insert(i, l[i]);
            edits.push(("insert-repeat", i, v));
        }
        // insert a new leaf of each class
        for cut in [true, false] {
            let mut v = l.to_vec();
            v.insert(i.min(l.len()), fresh(cut, 1000 + i));
            edits.push(("insert", i, v));
        }
    }
    for (kind, i, v) in edits {
        if v == l {
            continue;
        }
        let got = quiet(out, &v);
        out.count("edits", 1);
        out.count(&format!("vac:edits[{kind}]"), 1);
        let case = || json!({"lab": "hash", "check": "edit", "family": family, "list": list_json(l), "edited": list_json(&v), "kind": kind, "at": i});
        if got.0 == orig.0 {
            viol(out, "C06/edit-keeps-xorb-hash", || (format!("{kind} at {i}: {} and {} have the same xorb hash {}", show(p, l), show(p, &v), got.0.hex()), case()));
        }
        if got.1 == orig.1 {
            viol(out, "C06/edit-keeps-file-hash", || (format!("{kind} at {i}: {} and {} have the same file hash {}", show(p, l), show(p, &v), got.1.hex()), case()));
        }
        if got.2 == orig.2 {
            viol(out, "C06/edit-keeps-range-hash", || (format!("{kind} at {i}: {} and {} have the same range hash {}", show(p, l), show(p, &v), got.2.hex()), case()));
        }
    }
}

fn fingerprint(p: &Pools, l: &[Entry]) -> String {
    let mut h = blake3::Hasher::new();
    for e in l {
        h.update(&e.leaf(p).rh);
        h.update(&e.length(p).to_le_bytes());
    }
    format!("list:{}:{}", l.len(), &h.finalize().to_hex()[..16])
}

// ------------------------------------------------------------------ families

fn pattern_list(n: usize, mask: u32) -> Vec<Entry> {
    (0..n).map(|i| Entry { cut: mask >> i & 1 == 1, idx: (i + 31 * (mask as usize % 200)) % POOL, len: None }).collect()
}

fn structured(n: usize, kind: usize) -> Vec<Entry> {
    let mut g = Lcg::new(77 + n as u64);
    (0..n)
        .map(|i| match kind {
            0 => Entry { cut: g.below(4) == 0, idx: i, len: None }, // natural mix, all distinct
            1 => Entry { cut: true, idx: i, len: None },            // every child may close a group: groups of 3
            2 => Entry { cut: false, idx: i, len: None },           // no child closes a group: groups of 9
            3 => Entry { cut: n % 2 == 0, idx: 7, len: None },      // one hash repeated
            4 => Entry { cut: i % 2 == 0, idx: 5, len: None },      // two alternating hashes
            _ => Entry { cut: i % 3 == 2, idx: 3 + i % 3, len: None }, // period 3, third one may close
        })
        .collect()
}

const STRUCT_NAMES: [&str; 6] = ["mixed-distinct", "all-zero-mod-4", "none-zero-mod-4", "one-hash-repeated", "two-alternating", "period-3"];

// ------------------------------------------------------------------ text forms, hmac, streaming hasher

fn words() -> [u64; 5] {
    [0, 1, 0x8000_0000_0000_0000, u64::MAX, 0x0123_4567_89AB_CDEF]
}

fn rh_of_words(w: [u64; 4]) -> RH {
    let mut r = [0u8; 32];
    for i in 0..4 {
        r[i * 8..i * 8 + 8].copy_from_slice(&w[i].to_le_bytes());
    }
    r
}

fn check_value(out: &mut Partial, w: [u64; 4]) {
    let rh = rh_of_words(w);
    let h = DataHash::from(w);
    let case = json!({"lab": "hash", "check": "value", "words": w.iter().map(|x| format!("{x:016x}")).collect::<Vec<_>>()});
    out.count("values", 1);
    out.distinct(format!("value:{}", refmodel::hex(&rh)));
    // layout: the words little-endian
    out.count("evaluations", 1);
    if h.as_bytes() != rh || DataHash::from(&rh) != h || MerkleHash::from(rh) != h {
        viol(out, "C06/hash-byte-layout", || (format!("words {w:016x?} are laid out as {} but four little-endian words are {}", vcore::util::hex(h.as_bytes()), vcore::util::hex(&rh)), case.clone()));
    }
    // hex
    let hx = h.hex();
    out.count("evaluations", 1);
    if hx != refmodel::hex(&rh) || format!("{h}") != hx || format!("{h:x}") != hx || format!("{h:?}") != hx {
        viol(out, "C06/hex-form-vs-reference", || (format!("hex() of words {w:016x?} is {hx} (Display {h}), expected {}", refmodel::hex(&rh)), case.clone()));
    }
    out.count("evaluations", 1);
    match DataHash::from_hex(&hx) {
        Ok(back) if back == h => out.count("vac:hex_round_trips", 1),
        other => viol(out, "C06/hex-round-trip", || (format!("from_hex(hex()) of {hx} gives {:?}", other.map(|x| x.hex())), case.clone())),
    }
    if refmodel::from_hex(&hx) != Some(rh) {
        machinery_error("refmodel::from_hex does not invert refmodel::hex");
    }
    // base64
    let b = h.base64();
    out.count("evaluations", 1);
    if b != refmodel::base64(&rh) {
        viol(out, "C06/base64-form-vs-reference", || (format!("base64() of {hx} is {b}, URL-safe unpadded base64 of its 32 bytes is {}", refmodel::base64(&rh)), case.clone()));
    }
    out.count("evaluations", 1);
    match DataHash::from_base64(&b) {
        Ok(back) if back == h => out.count("vac:base64_round_trips", 1),
        other => viol(out, "C06/base64-round-trip", || (format!("from_base64(base64()) of {hx} ({b}) gives {:?}", other.map(|x| x.hex())), case.clone())),
    }
    // from_slice / TryFrom
    out.count("evaluations", 1);
    if DataHash::from_slice(&rh).ok() != Some(h) || DataHash::try_from(&rh[..]).ok() != Some(h) {
        viol(out, "C06/hash-byte-layout", || (format!("from_slice of the 32 bytes of {hx} does not give it back"), case.clone()));
    }
    // hmac and with_salt under every key
    for key in &SALTS {
        let want = refmodel::hmac(&rh, key);
        let got = h.hmac(DataHash::from(key));
        out.count("evaluations", 2);
        if got.as_bytes() != want {
            viol(out, "C06/hmac-vs-reference", || (format!("hmac of {hx} under key {} is {} but keyed BLAKE3 gives {}", vcore::util::hex(key), got.hex(), refmodel::hex(&want)), case.clone()));
        }
        match with_salt(&h, key) {
            Ok(s) if s.as_bytes() == want => out.count("vac:with_salt_checked", 1),
            other => viol(out, "C06/with-salt-vs-reference", || (format!("with_salt of {hx} under {} gives {:?}, expected {}", vcore::util::hex(key), other.map(|x| x.hex()), refmodel::hex(&want)), case.clone())),
        }
    }
}

fn check_malformed(out: &mut Partial, text: &str, form: &str) {
    let case = json!({"lab": "hash", "check": "malformed", "form": form, "text": text});
    out.count("evaluations", 1);
    out.count("malformed_texts", 1);
    let r = std::panic::catch_unwind(|| match form {
        "hex" => DataHash::from_hex(text).ok(),
        _ => DataHash::from_base64(text).ok(),
    });
    match r {
        Ok(None) => out.count(&format!("vac:malformed_{form}_rejected"), 1),
        Ok(Some(h)) => viol(out, &format!("C06/malformed-{form}-accepted"), || (format!("{form} text {text:?} ({} bytes) is accepted as {}", text.len(), h.hex()), case.clone())),
        Err(e) => viol(out, &format!("C06/malformed-{form}-panics"), || (format!("{form} text {text:?} panics: {}", vcore::util::panic_text(&e)), case.clone())),
    }
}

fn malformed_texts() -> Vec<(String, &'static str)> {
    let good = refmodel::hex(&rh_of_words([0x0123_4567_89AB_CDEF, 0, u64::MAX, 1]));
    let mut v: Vec<(String, &'static str)> = vec![];
    for n in [0usize, 1, 16, 32, 63] {
        v.push((good[..n].to_string(), "hex"));
    }
    v.push((format!("{good}0"), "hex"));
    v.push((format!("{good}{good}"), "hex"));
    v.push((format!("0x{}", &good[2..]), "hex"));
    for pos in 0..64 {
        for bad in ['g', 'z', ' ', '-', '+', 'G', '_', '\n'] {
            let mut s = good.clone().into_bytes();
            s[pos] = bad as u8;
            v.push((String::from_utf8(s).unwrap(), "hex"));
        }
    }
    // 64 bytes but not 64 characters
    for pos in [0usize, 15, 16, 31, 47, 62] {
        let mut s = good.clone();
        s.replace_range(pos..pos + 2, "\u{e9}");
        v.push((s, "hex"));
    }
    let goodb = refmodel::base64(&rh_of_words([0x0123_4567_89AB_CDEF, 0, u64::MAX, 1]));
    for n in [0usize, 1, 2, 3, 4, 20, 40, 41, 42] {
        v.push((goodb[..n].to_string(), "base64"));
    }
    v.push((format!("{goodb}A"), "base64"));
    v.push((format!("{goodb}AA"), "base64"));
    v.push((format!("{goodb}{goodb}"), "base64"));
    for pos in 0..43 {
        for bad in ['+', '/', ' ', '.', '*', '\n', '\u{7f}'] {
            let mut s = goodb.clone().into_bytes();
            s[pos] = bad as u8;
            v.push((String::from_utf8(s).unwrap(), "base64"));
        }
    }
    for pos in [0usize, 20, 41] {
        let mut s = goodb.clone();
        s.replace_range(pos..pos + 2, "\u{e9}");
        v.push((s, "base64"));
    }
    v
}

/// streaming hasher over `data` written in the parts given by `cuts` (sorted positions; repeats / 0 / len give empty writes)
fn check_stream(out: &mut Partial, data: &[u8], cuts: &[usize], case: &Value) {
    let want = refmodel::chunk_hash(data);
    let one = compute_data_hash(data);
    out.count("evaluations", 2);
    out.count("stream_partitions", 1);
    if one.as_bytes() != want {
        viol(out, "C06/chunk-hash-vs-reference", || (format!("compute_data_hash of {} bytes is {} but keyed BLAKE3 under the data key is {}", data.len(), one.hex(), refmodel::hex(&want)), case.clone()));
    }
    let mut w = HashedWrite::new(Vec::new());
    let mut a = 0usize;
    let mut ok_prefix = true;
    for (i, &c) in cuts.iter().chain(std::iter::once(&data.len())).enumerate() {
        let c = c.min(data.len()).max(a);
        if c == a {
            out.count("vac:empty_writes", 1);
        }
        w.write_all(&data[a..c]).expect("write to Vec");
        a = c;
        // the hash read half-way is the hash of the prefix, and reading it does not disturb the stream
        if i % 2 == 0 && w.hash().as_bytes() != refmodel::chunk_hash(&data[..a]) {
            ok_prefix = false;
        }
    }
    w.flush().ok();
    let got = w.hash();
    if got != one || !ok_prefix {
        viol(out, "C06/streaming-hasher-vs-one-shot", || (format!("HashedWrite over {} bytes written in parts cut at {cuts:?} gives {} (prefix hashes ok: {ok_prefix}) but the one-shot hash is {}", data.len(), got.hex(), one.hex()), case.clone()));
    }
    if w.into_inner() != data {
        viol(out, "C06/streaming-hasher-loses-bytes", || (format!("HashedWrite over {} bytes cut at {cuts:?} did not pass the bytes through", data.len()), case.clone()));
    }
}

/// What the writer underneath HashedWrite answers to one `write` call.
#[derive(Clone, Copy, Debug, PartialEq)]
enum EnvAns {
    Full,
    /// accepts only the first k bytes (at least 1, at most the buffer)
    Short(usize),
    /// fails with ErrorKind::Interrupted (write_all retries the same buffer)
    Interrupted,
}
struct ScriptedWriter {
    script: Vec<EnvAns>,
    calls: usize,
    accepted: Vec<u8>,
}
impl Write for ScriptedWriter {
    fn write(&mut self, buf: &[u8]) -> std::io::Result<usize> {
        let a = self.script.get(self.calls).copied().unwrap_or(EnvAns::Full);
        self.calls += 1;
        match a {
            EnvAns::Full => {
                self.accepted.extend_from_slice(buf);
                Ok(buf.len())
            },
            EnvAns::Short(k) => {
                // Short(1): one byte; Short(usize::MAX - 1): all but the last byte (at least one)
                let n = if k == usize::MAX - 1 { buf.len().saturating_sub(1).max(1).min(buf.len()) } else { k.max(1).min(buf.len()) };
                self.accepted.extend_from_slice(&buf[..n]);
                Ok(n)
            },
            EnvAns::Interrupted => Err(std::io::Error::new(std::io::ErrorKind::Interrupted, "interrupted")),
        }
    }
    fn flush(&mut self) -> std::io::Result<()> {
        Ok(())
    }
}

/// HashedWrite over a writer that answers short or interrupted: the hash must be the hash of the bytes that
/// went through (all of `data` once every write_all returned Ok).
fn check_stream_env(out: &mut Partial, data: &[u8], cuts: &[usize], script: &[EnvAns], case: &Value) {
    let one = compute_data_hash(data);
    let mut w = HashedWrite::new(ScriptedWriter { script: script.to_vec(), calls: 0, accepted: vec![] });
    let mut a = 0usize;
    for &c in cuts.iter().chain(std::iter::once(&data.len())) {
        let c = c.min(data.len()).max(a);
        if let Err(e) = w.write_all(&data[a..c]) {
            viol(out, "C06/streaming-hasher-write-fails", || (format!("write_all through HashedWrite fails with {e} although the writer underneath only answers short or interrupted (script {script:?})"), case.clone()));
            return;
        }
        a = c;
    }
    out.count("evaluations", 1);
    out.count("stream_env_scripts", 1);
    if script.iter().any(|x| *x != EnvAns::Full) {
        out.count("vac:stream_env_scripts_with_a_short_or_interrupted_write", 1);
    }
    let got = w.hash();
    let inner = w.into_inner();
    if inner.accepted != data {
        viol(out, "C06/streaming-hasher-loses-bytes", || (format!("HashedWrite over {} bytes cut at {cuts:?} under writer answers {script:?} did not pass the bytes through", data.len()), case.clone()));
    }
    if got != one {
        viol(out, "C06/streaming-hasher-vs-one-shot", || {
            (format!("HashedWrite over {} bytes written in parts cut at {cuts:?} to a writer answering {script:?} gives {} but the one-shot hash of the bytes written is {}", data.len(), got.hex(), one.hex()), case.clone())
        });
    }
}

fn stream_data(len: usize, kind: u64) -> Vec<u8> {
    match kind {
        0 => Lcg::new(0x5EED + len as u64).bytes(len),
        1 => vec![0u8; len],
        3 => Lcg::new(0xABCDEF).bytes(len), // prefix-consistent noise (same seed for every length)
        _ => (0..len).map(|i| i as u8).collect(),
    }
}

// ------------------------------------------------------------------ work items

type Job = Box<dyn Fn(&Pools) -> Partial + Send + Sync>;

fn jobs(tier: Tier) -> Vec<(u64, Job)> {
    let mut js: Vec<(u64, Job)> = vec![];
    // A. every zero-mod-4 / not pattern of length <= 14, real bytes, xorb + validators
    let edit_max = tier.pick(10usize, 14usize);
    let pattern_max = tier.pick(14usize, 16usize);
    for n in 0..=pattern_max {
        let total = 1u32 << n;
        let per = 256u32;
        let mut lo = 0u32;
        while lo < total {
            let hi = (lo + per).min(total);
            js.push((
                (hi - lo) as u64 * (n as u64 + 1) * if n <= edit_max { 60 } else { 1 },
                Box::new(move |p| {
                    let mut out = Partial::default();
                    for mask in lo..hi {
                        let l = pattern_list(n, mask);
                        let o = ListOpts { xorb: true, all_ranges: n <= 8, family: "pattern" };
                        check_list(&mut out, p, &l, &o);
                        if n >= 2 {
                            out.distinct(fingerprint(p, &l));
                        }
                        if (n, mask) == (5, 0b01100) || (n, mask) == (11, 0b100_0000_0000) {
                            let classes: String = l.iter().map(|e| if e.cut { 'Z' } else { 'n' }).collect();
                            out.sample(json!({"family": "pattern", "n": n, "classes (Z = last word 0 mod 4)": classes, "list": show(p, &l)}));
                        }
                        if n <= edit_max {
                            check_edits(&mut out, p, &l, None, "pattern");
                        }
                    }
                    out
                }),
            ));
            lo = hi;
        }
    }
    // B. all lists of length <= 5 over 3 (hash, length) pairs with lengths {0, 1, 2^32-1}
    for classes in 0..8u32 {
        for rot in 0..3usize {
            js.push((
                4000,
                Box::new(move |p| {
                    let mut out = Partial::default();
                    let lens = [0u64, 1, u32::MAX as u64];
                    let pairs: Vec<Entry> = (0..3).map(|k| Entry { cut: classes >> k & 1 == 1, idx: 100 + k, len: Some(lens[(k + rot) % 3]) }).collect();
                    for n in 0..=5usize {
                        for x in 0..3usize.pow(n as u32) {
                            let mut y = x;
                            let l: Vec<Entry> = (0..n)
                                .map(|_| {
                                    let e = pairs[y % 3];
                                    y /= 3;
                                    e
                                })
                                .collect();
                            let o = ListOpts { xorb: false, all_ranges: true, family: "three-pairs" };
                            check_list(&mut out, p, &l, &o);
                            if l.iter().any(|e| e.len == Some(u32::MAX as u64)) {
                                out.count("vac:lists_with_length_2^32-1", 1);
                            }
                            if l.iter().any(|e| e.len == Some(0)) {
                                out.count("vac:lists_with_length_0", 1);
                            }
                            if n >= 2 && l.windows(2).any(|w| w[0] == w[1]) {
                                out.count("vac:lists_with_adjacent_repeats", 1);
                            }
                            if n >= 2 {
                                out.distinct(fingerprint(p, &l));
                            }
                            if x == 100 && classes == 5 {
                                out.sample(json!({"family": "three-pairs", "list": show(p, &l)}));
                            }
                            check_edits(&mut out, p, &l, None, "three-pairs");
                        }
                    }
                    out
                }),
            ));
        }
    }
    // D. lists over leaves that share their first 64-bit word (with each other, with the all-zero hash, with a
    //    real chunk hash): every list of up to 4 (quick) / 5 (thorough) entries over an alphabet of 9
    {
        let alphabet: Vec<Entry> = vec![
            Entry { cut: false, idx: SYN_BASE, len: Some(11) },      // word 0, a
            Entry { cut: false, idx: SYN_BASE + 1, len: Some(12) },  // word 0, b
            Entry { cut: true, idx: SYN_BASE + 2, len: Some(13) },   // word 0, c (may close a group)
            Entry { cut: false, idx: SYN_BASE + 4, len: Some(14) },  // word 7, a
            Entry { cut: true, idx: SYN_BASE + 5, len: Some(15) },   // word 7, b (may close a group)
            Entry { cut: false, idx: SYN_BASE + 8, len: Some(16) },  // first word of the real leaf n[0]
            Entry { cut: false, idx: 0, len: None },                 // the real leaf n[0]
            Entry { cut: true, idx: SYN_BASE + 12, len: Some(17) },  // first word of the real leaf c[0]
            Entry { cut: true, idx: 0, len: None },                  // the real leaf c[0]
        ];
        let lmax = tier.pick(4usize, 5usize);
        for first in 0..alphabet.len() {
            let alphabet = alphabet.clone();
            js.push((
                20_000,
                Box::new(move |p| {
                    let mut out = Partial::default();
                    let a = alphabet.len();
                    for n in 1..=lmax {
                        for x in 0..a.pow(n as u32 - 1) {
                            let mut y = x;
                            let mut l = vec![alphabet[first]];
                            for _ in 1..n {
                                l.push(alphabet[y % a]);
                                y /= a;
                            }
                            let o = ListOpts { xorb: false, all_ranges: true, family: "shared-first-word" };
                            check_list(&mut out, p, &l, &o);
                            let fw = |e: &Entry| e.leaf(p).rh[..8].to_vec();
                            if (0..l.len()).any(|i| (0..i).any(|k| l[i].leaf(p).rh != l[k].leaf(p).rh && fw(&l[i]) == fw(&l[k]))) {
                                out.count("vac:lists_with_two_hashes_sharing_the_first_word", 1);
                            }
                            if n >= 2 {
                                out.distinct(fingerprint(p, &l));
                            }
                            check_edits(&mut out, p, &l, None, "shared-first-word");
                        }
                    }
                    out
                }),
            ));
        }
    }
    // C. structured long lists
    let mut ns: Vec<usize> = (1..=64).collect();
    ns.extend([100, 1000, 8192]);
    for n in ns {
        for kind in 0..6usize {
            js.push((
                (n * n).min(400_000) as u64 + 20 * n as u64,
                Box::new(move |p| {
                    let mut out = Partial::default();
                    let l = structured(n, kind);
                    let o = ListOpts { xorb: true, all_ranges: n <= 12, family: "structured" };
                    check_list(&mut out, p, &l, &o);
                    out.count(&format!("lists[structured/{}]", STRUCT_NAMES[kind]), 1);
                    if n >= 2 {
                        out.distinct(fingerprint(p, &l));
                    }
                    if n == 1000 {
                        out.sample(json!({"family": "structured", "structure": STRUCT_NAMES[kind], "n": n, "list": show(p, &l)}));
                    }
                    if n >= 1000 {
                        out.count("vac:lists_of_1000_or_more", 1);
                    }
                    if n <= 64 {
                        check_edits(&mut out, p, &l, None, "structured");
                    } else {
                        let mut pos = vec![0, 1, 2, 3, 8, 9, 10, n / 2, n - 3, n - 2, n - 1, n];
                        let stride = if n > 1000 { n / 8 } else { n / 16 };
                        pos.extend((1..16).map(|i| i * stride).filter(|x| *x < n));
                        pos.sort();
                        pos.dedup();
                        check_edits(&mut out, p, &l, Some(&pos), "structured");
                    }
                    out
                }),
            ));
        }
    }
    // D. text forms, hmac/with_salt over 5^4 structured values; malformed text
    js.push((
        2000,
        Box::new(|_p| {
            let mut out = Partial::default();
            let ws = words();
            for a in ws {
                for b in ws {
                    for c in ws {
                        for d in ws {
                            check_value(&mut out, [a, b, c, d]);
                        }
                    }
                }
            }
            out.sample(json!({"family": "value", "words": ["0000000000000001", "8000000000000000", "ffffffffffffffff", "0123456789abcdef"], "hex": refmodel::hex(&rh_of_words([1, 1 << 63, u64::MAX, 0x0123_4567_89AB_CDEF])), "base64": refmodel::base64(&rh_of_words([1, 1 << 63, u64::MAX, 0x0123_4567_89AB_CDEF]))}));
            for (t, form) in malformed_texts() {
                check_malformed(&mut out, &t, form);
            }
            // informational only: forms the statement does not speak about
            let good = DataHash::from([0x0123_4567_89AB_CDEF, 0, u64::MAX, 1]);
            if DataHash::from_hex(&good.hex().to_uppercase()).ok() == Some(good) {
                out.count("info:upper_case_hex_accepted", 1);
            }
            if DataHash::from_base64(&format!("{}=", good.base64())).is_ok() {
                out.count("info:padded_base64_accepted", 1);
            } else {
                out.count("info:padded_base64_rejected", 1);
            }
            // interior-node hash: keyed BLAKE3 under the interior key
            for n in [0usize, 1, 63, 64, 65, 1024, 5000] {
                let d = stream_data(n, 0);
                out.count("evaluations", 1);
                let want = *blake3::keyed_hash(&refmodel::INTERNAL_NODE_KEY, &d).as_bytes();
                if compute_internal_node_hash(&d).as_bytes() != want {
                    viol(&mut out, "C06/interior-hash-vs-reference", || (format!("compute_internal_node_hash of {n} bytes differs from keyed BLAKE3 under the interior key"), json!({"lab": "hash", "check": "interior", "n": n})));
                }
            }
            out
        }),
    ));
    // E. streaming hasher: all partitions of strings of length 0..12, every 2-partition of longer ones
    for len in 0..=12usize {
        js.push((
            1 << len,
            Box::new(move |_p| {
                let mut out = Partial::default();
                for kind in 0..2u64 {
                    let d = stream_data(len, kind);
                    out.distinct(format!("bytes:{}:{}", len, vcore::util::hex(&d)));
                    let nparts = if len == 0 { 1u32 } else { 1u32 << (len - 1) };
                    for m in 0..nparts {
                        let cuts: Vec<usize> = (1..len).filter(|i| m >> (i - 1) & 1 == 1).collect();
                        let case = json!({"lab": "hash", "check": "stream", "len": len, "kind": kind, "cuts": cuts});
                        check_stream(&mut out, &d, &cuts, &case);
                        // the same with an empty write in every slot
                        if m % 4 == 1 || len <= 4 {
                            let mut ce: Vec<usize> = vec![0];
                            for c in &cuts {
                                ce.push(*c);
                                ce.push(*c);
                            }
                            ce.push(len);
                            let case = json!({"lab": "hash", "check": "stream", "len": len, "kind": kind, "cuts": ce});
                            check_stream(&mut out, &d, &ce, &case);
                        }
                    }
                    if len == 12 && kind == 0 {
                        out.count("vac:all_2^11_partitions_of_12_bytes", nparts as u64);
                        out.sample(json!({"family": "stream", "bytes": vcore::util::hex(&d), "partitions": nparts}));
                    }
                }
                out
            }),
        ));
    }
    // E2. environment answers of the writer underneath: every script over the first 4 (thorough: 5) inner write
    //     calls with at most 2 (thorough: 3) departures from "accepts everything" — a short write of 1 byte, of
    //     all but one byte, or an Interrupted error — for every cut pair of a 9-byte string and 3 longer ones
    {
        let (calls, maxdev) = (tier.pick(4usize, 5usize), tier.pick(2usize, 3usize));
        js.push((
            60_000,
            Box::new(move |_p| {
                let mut out = Partial::default();
                let alphabet = [EnvAns::Short(1), EnvAns::Short(usize::MAX - 1), EnvAns::Interrupted];
                // all scripts with <= maxdev deviations
                let mut scripts: Vec<Vec<EnvAns>> = vec![vec![]];
                for _ in 0..calls {
                    let mut next = vec![];
                    for sc in &scripts {
                        let dev = sc.iter().filter(|x| **x != EnvAns::Full).count();
                        let mut t = sc.clone();
                        t.push(EnvAns::Full);
                        next.push(t);
                        if dev < maxdev {
                            for a in alphabet {
                                let mut t = sc.clone();
                                t.push(a);
                                next.push(t);
                            }
                        }
                    }
                    scripts = next;
                }
                for (len, kind) in [(9usize, 0u64), (64, 0), (4097, 3), (65537, 3)] {
                    let d = stream_data(len, kind);
                    let cutsets: Vec<Vec<usize>> = if len == 9 {
                        let mut v = vec![vec![]];
                        for a in 0..=len {
                            v.push(vec![a]);
                            for b in a..=len {
                                v.push(vec![a, b]);
                            }
                        }
                        v
                    } else {
                        vec![vec![], vec![1], vec![len / 2], vec![len - 1], vec![1, len - 1], vec![len / 2, len / 2]]
                    };
                    for cuts in &cutsets {
                        for sc in &scripts {
                            // "all but one byte" depends on the buffer: resolved per call by the writer (k is clamped)
                            let case = json!({"lab": "hash", "check": "stream-env", "len": len, "kind": kind, "cuts": cuts,
                                "script": sc.iter().map(|a| match a { EnvAns::Full => "full".to_string(), EnvAns::Short(1) => "short1".to_string(), EnvAns::Short(_) => "short-all-but-one".to_string(), EnvAns::Interrupted => "interrupted".to_string() }).collect::<Vec<_>>()});
                            check_stream_env(&mut out, &d, cuts, sc, &case);
                        }
                    }
                }
                out
            }),
        ));
    }
    // write sizes around the usual buffering thresholds (4 KiB .. 64 KiB): every sequence of <= 3 writes whose
    // sizes come from this menu, so that a small write followed by a large one (and every other order) is
    // hashed through any internal staging / fast path a streaming hasher might have
    {
        const SIZES: [usize; 13] = [1, 7, 4095, 4096, 4097, 8191, 8192, 16383, 16384, 16385, 65535, 65536, 65537];
        for first in 0..SIZES.len() {
            js.push((
                40_000,
                Box::new(move |_p| {
                    let mut out = Partial::default();
                    let d = stream_data(3 * 65537, 3);
                    let mut seqs: Vec<Vec<usize>> = vec![vec![SIZES[first]]];
                    for b in SIZES {
                        seqs.push(vec![SIZES[first], b]);
                        for c in SIZES {
                            seqs.push(vec![SIZES[first], b, c]);
                        }
                    }
                    for sq in seqs {
                        let total: usize = sq.iter().sum();
                        let mut cuts = vec![];
                        let mut a = 0;
                        for x in &sq[..sq.len() - 1] {
                            a += x;
                            cuts.push(a);
                        }
                        let case = json!({"lab": "hash", "check": "stream", "len": total, "kind": 3, "cuts": cuts});
                        check_stream(&mut out, &d[..total], &cuts, &case);
                        out.count("vac:write_sequences_over_threshold_sizes", 1);
                    }
                    out.distinct(format!("threshold-writes:{}", SIZES[first]));
                    out
                }),
            ));
        }
    }
    for len in [63usize, 64, 65, 1023, 1024, 1025, 4097] {
        js.push((
            (len * len / 50) as u64,
            Box::new(move |_p| {
                let mut out = Partial::default();
                for kind in [0u64, 2] {
                    let d = stream_data(len, kind);
                    out.distinct(format!("bytes:{}:{}", len, &blake3::hash(&d).to_hex()[..16]));
                    for c in 0..=len {
                        let case = json!({"lab": "hash", "check": "stream", "len": len, "kind": kind, "cuts": [c]});
                        check_stream(&mut out, &d, &[c], &case);
                        out.count("vac:two_part_writes_of_long_strings", 1);
                    }
                    for c in [1usize, 63, 64, 65, 1024] {
                        if 2 * c < len {
                            let cuts: Vec<usize> = (1..len / c).map(|i| i * c).collect();
                            let case = json!({"lab": "hash", "check": "stream", "len": len, "kind": kind, "cuts": cuts});
                            check_stream(&mut out, &d, &cuts, &case);
                        }
                    }
                }
                out
            }),
        ));
    }
    js
}

fn replay(out: &mut Partial, p: &Pools, r: &Value) {
    match r["check"].as_str() {
        Some("list") => {
            let l = list_from_json(&r["list"]);
            let o = ListOpts { xorb: r["xorb"].as_bool().unwrap_or(true), all_ranges: l.len() <= 12, family: "replay" };
            check_list(out, p, &l, &o);
            out.distinct(fingerprint(p, &l));
        },
        Some("edit") => {
            let l = list_from_json(&r["list"]);
            let v = list_from_json(&r["edited"]);
            let o = ListOpts { xorb: false, all_ranges: false, family: "replay" };
            let a = check_list(out, p, &l, &o);
            let b = check_list(out, p, &v, &o);
            let case = r.clone();
            if a.0 == b.0 {
                viol(out, "C06/edit-keeps-xorb-hash", || (format!("{} and {} have the same xorb hash {}", show(p, &l), show(p, &v), a.0.hex()), case.clone()));
            }
            if a.1 == b.1 {
                viol(out, "C06/edit-keeps-file-hash", || (format!("{} and {} have the same file hash {}", show(p, &l), show(p, &v), a.1.hex()), case.clone()));
            }
            if a.2 == b.2 {
                viol(out, "C06/edit-keeps-range-hash", || (format!("{} and {} have the same range hash {}", show(p, &l), show(p, &v), a.2.hex()), case.clone()));
            }
            out.distinct(fingerprint(p, &l));
            out.distinct(fingerprint(p, &v));
        },
        Some("value") => {
            let w: Vec<u64> = r["words"].as_array().map(|a| a.iter().map(|x| u64::from_str_radix(x.as_str().unwrap_or("0"), 16).unwrap_or(0)).collect()).unwrap_or_default();
            if w.len() != 4 {
                machinery_error("replay value lacks 4 words");
            }
            check_value(out, [w[0], w[1], w[2], w[3]]);
        },
        Some("malformed") => check_malformed(out, r["text"].as_str().unwrap_or(""), if r["form"].as_str() == Some("hex") { "hex" } else { "base64" }),
        Some("stream") => {
            let len = r["len"].as_u64().unwrap_or(0) as usize;
            let d = stream_data(len, r["kind"].as_u64().unwrap_or(0));
            let cuts: Vec<usize> = r["cuts"].as_array().map(|a| a.iter().map(|x| x.as_u64().unwrap_or(0) as usize).collect()).unwrap_or_default();
            check_stream(out, &d, &cuts, r);
        },
        Some("stream-env") => {
            let len = r["len"].as_u64().unwrap_or(0) as usize;
            let d = stream_data(len, r["kind"].as_u64().unwrap_or(0));
            let cuts: Vec<usize> = r["cuts"].as_array().map(|a| a.iter().map(|x| x.as_u64().unwrap_or(0) as usize).collect()).unwrap_or_default();
            let script: Vec<EnvAns> = r["script"]
                .as_array()
                .map(|a| {
                    a.iter()
                        .map(|x| match x.as_str().unwrap_or("full") {
                            "short1" => EnvAns::Short(1),
                            "short-all-but-one" => EnvAns::Short(usize::MAX - 1),
                            "interrupted" => EnvAns::Interrupted,
                            _ => EnvAns::Full,
                        })
                        .collect()
                })
                .unwrap_or_default();
            check_stream_env(out, &d, &cuts, &script, r);
        },
        Some("chunk") | Some("interior") => {
            // re-run the pool construction / fixed interior inputs (both are part of every run)
            let _ = build_pools(out);
        },
        k => machinery_error(&format!("unknown replay check {k:?}")),
    }
    out.distinct("replayed-case");
    out.distinct("replayed-case-input");
}

fn main() {
    let args = Args::parse();
    vcore::util::quiet_panics();
    if args.prop != "C06" {
        machinery_error("lab_hash serves C06");
    }
    let mut run = Run::new(&args, "C06", "exploration");
    let mut all = Partial::default();
    let pools = build_pools(&mut all);
    all.count("leaf_candidates_searched", pools.candidates_tried);
    all.count("vac:leaves_with_last_word_zero_mod_4", pools.c.len() as u64);
    all.count("vac:leaves_with_last_word_not_zero_mod_4", pools.n.len() as u64);
    if let Some(rp) = &args.replay {
        let v: Value = serde_json::from_slice(&std::fs::read(rp).unwrap_or_else(|e| machinery_error(&format!("read replay: {e}")))).unwrap_or_else(|e| machinery_error(&format!("parse replay: {e}")));
        if v["replay"]["check"].as_str() == Some("item") {
            // a work item that panicked: run that item again
            let js = jobs(args.tier);
            let i = v["replay"]["item"].as_u64().unwrap_or(0) as usize;
            match std::panic::catch_unwind(std::panic::AssertUnwindSafe(|| (js[i % js.len()].1)(&pools))) {
                Ok(p) => all.merge(p),
                Err(e) => all.violation("C06/panic", format!("work item {i} panics: {} at {}", vcore::util::panic_text(&e), vcore::util::last_panic_loc()), v["replay"].clone()),
            }
        } else {
            replay(&mut all, &pools, &v["replay"]);
        }
        all.counters.retain(|k, v| !(k.starts_with("vac:") && *v == 0));
    } else {
        let js = jobs(args.tier);
        let mut order: Vec<usize> = (0..js.len()).collect();
        order.sort_by_key(|i| std::cmp::Reverse(js[*i].0));
        let next = AtomicUsize::new(0);
        let results: Mutex<Vec<Option<Partial>>> = Mutex::new((0..js.len()).map(|_| None).collect());
        std::thread::scope(|sc| {
            for _ in 0..16 {
                sc.spawn(|| loop {
                    let n = next.fetch_add(1, Ordering::SeqCst);
                    if n >= order.len() {
                        break;
                    }
                    let i = order[n];
                    let r = std::panic::catch_unwind(std::panic::AssertUnwindSafe(|| (js[i].1)(&pools)));
                    let part = match r {
                        Ok(p) => p,
                        Err(e) => {
                            let mut p = Partial::default();
                            p.violation("C06/panic", format!("work item {i} panics: {} at {}", vcore::util::panic_text(&e), vcore::util::last_panic_loc()), json!({"lab": "hash", "check": "item", "item": i}));
                            p
                        },
                    };
                    results.lock().unwrap()[i] = Some(part);
                });
            }
        });
        for p in results.into_inner().unwrap().into_iter().flatten() {
            all.merge(p);
        }
    }
    run.assume("keyed BLAKE3 comes from the blake3 crate (shared by the reference and the code under test); the three keys are the published constants");
    run.assume("a chunk list carries one length per hash (the tree code interns nodes by hash); lists with one hash under two lengths are outside the domain");
    run.assume("'an edit changes the aggregate' is checked on the enumerated lists; it cannot hold for lists that embed interior-node hashes as leaves, which leaf data cannot produce short of a BLAKE3 collision");
    run.assume("the empty list hashes to the all-zero value for both the xorb and the file hash (documented behaviour)");
    let evaluations = all.get("evaluations");
    run.all = all;
    run.finish(
        evaluations,
        "real chunk bytes are searched (fixed LCG candidates) into two pools of 8192 leaves by class 'last 64-bit word of the chunk hash is 0 mod 4' / 'not'. Lists: EVERY class pattern of length 0..14 (2^15-1 lists; thorough: 0..16, 2^17-1 lists; real bytes: xorb built with CasObject::serialize under two compression settings, uploader hash, seekable + streaming validators incl. footer-less stream and two wrong-hash variants, every sub-range hash up to length 8); all 364 lists of length <=5 over 3 (hash,length) pairs x 8 class assignments x 3 assignments of the lengths {0,1,2^32-1}; every list of <= 4 (thorough: 5) entries over 9 leaves that share their first 64-bit word with each other, with the all-zero hash or with a real chunk hash (synthetic 256-bit values; family shared-first-word); structured lists (distinct mix, all zero-mod-4, none, one hash repeated, two alternating, period 3) for n in 1..64,100,1000,8192 (real xorbs); each compared with the reference for xorb hash, file hash under salts {0,1,pattern}, range hash. Every single edit (change to same/other class, drop, swap adjacent, insert of either class, insert a repeat; at every position, for n>64 at 25 positions) of patterns up to length 10 (quick) / 14 (thorough), of all three-pair lists and of the structured lists must change xorb, file and range hash, and every edited list is itself compared with the reference. 5^4 structured 256-bit values: layout, hex, base64 against hand-written encoders, round trips, hmac/with_salt under 3 keys; 600+ malformed hex / base64 texts must be rejected without panic. HashedWrite against the one-shot hash for 2 strings of each length 0..12 under ALL partitions (2^11 for 12 bytes; a quarter also with empty writes in every slot) and for lengths 63,64,65,1023,1024,1025,4097 under every 2-partition, and every sequence of <= 3 writes with sizes from {1,7,4095,4096,4097,8191,8192,16383,16384,16385,65535,65536,65537} (buffering thresholds); and over a writer that answers short (1 byte / all but one byte) or Interrupted: every script over its first 4 (thorough 5) calls with <= 2 (thorough 3) such answers, for every cut pair of a 9-byte string and 6 cut sets of 64, 4097 and 65537 bytes. An evaluation is one comparison of a function of the code under test with the reference (or of two aggregates for an edit); distinct non-trivial cases are the distinct base lists with >= 2 entries (edits not counted), the 625 values and the byte strings",
        true,
    );
}

//! C17: file reconstruction writes exactly the requested bytes at the right offsets.
//!
//! The real `cas_client::RemoteClient::get_file` is run against an in-process HTTP responder
//! (tiny_http on 127.0.0.1:0) that plays both roles of the service:
//!   * `/reconstruction/<file hash>`: a server-side planner written here (the reference "correct
//!     server"): trimmed term list for the requested range, `offset_into_first_range`, fetch_info;
//!     416 when the range starts at or past the end of the file;
//!   * the xorb byte-range URLs (`/g<gen>/x<xorb>/<fs>-<fe>` + `Range: bytes=a-b`), serving real chunk
//!     frames (`cas_object::serialize_chunk`) of three synthetic xorbs whose bytes are pairwise distinct.
//! (tiny_http sits on a listener with TCP_NODELAY: its 1 KiB write buffer splits the ~1 KB planner
//! answers into two segments, which would otherwise cost 40 ms per download to Nagle + delayed ACK.)
//! Every xorb-range response is held behind a GATE until the explorer releases it, so the explorer
//! chooses the completion order; with `NUM_CONCURRENT_RANGE_GETS=1` only one request is ever pending
//! and the explorer releases whichever request is pending.
//!
//! Writer mode and fetch concurrency are process-global lazy statics of the code under test, and the
//! chunk-cache manager is process-global too => the parent fans out over sub-processes, one per
//! (writer, concurrency, stratum, slice of files); each has its own responder and tokio runtime.
//!
//! Oracle (what the statement says, nothing more): output file == reference slice of the
//! concatenated term data (plain slices of the synthetic chunk data), returned length == bytes
//! written == e-s; every cache phase (off / cold / warm / fresh client on the warm directory / other
//! request on the warm directory) and every completion order gives the same output; the four process
//! kinds (sequential/parallel writer x concurrency 1/16) agree (digest comparison in the parent).
//!
//! Self-test facility: env `RECON_LAB_SABOTAGE=1` makes the planner report `offset_into_first_range`
//! one too large, `=2` declares fetch ranges one chunk earlier than the data served; both must produce
//! violations (they corrupt the *server*, not the code under test).  Unset in normal runs.

use std::collections::{BTreeMap, BTreeSet};
use std::panic::AssertUnwindSafe;
use std::path::{Path, PathBuf};
use std::sync::atomic::{AtomicU64, AtomicUsize, Ordering};
use std::sync::{Arc, Condvar, Mutex};
use std::time::{Duration, Instant};

use cas_client::{CacheConfig, FileProvider, OutputProvider, ReconstructionClient, RemoteClient};
use cas_types::FileRange;
use futures::FutureExt;
use labs::refmodel as rm;
use utils::progress::ProgressUpdater;
use vcore::report::{fanout, machinery_error, Args, Job, Partial, Run, Tier};
use vcore::util::Scratch;
use vcore::{json, Value};

const PROP: &str = "C17";
const WATCHDOG: Duration = Duration::from_secs(10);
/// the client counts as idle (it will request nothing more until a response arrives) when every runtime worker has
/// been parked and no new request has arrived for this long
const IDLE: Duration = Duration::from_millis(250);
/// after this many reconstructions in which the client did not request the gates the plan predicts, the worker stops
/// gating (responses are released as they arrive): the verdicts come from the output oracle anyway, and a changed
/// client must not turn the sweep into a sequence of idle waits
static DEVIATIONS: std::sync::atomic::AtomicUsize = std::sync::atomic::AtomicUsize::new(0);
const MAX_DEVIATIONS_BEFORE_UNGATED: usize = 12;

// ------------------------------------------------------------------ synthetic xorbs

/// chunk sizes: distinct within a xorb, 3..9 bytes, plus one 72-byte chunk of eight-byte runs in
/// xorb 2 so that a real LZ4 frame occurs (a 3..9-byte chunk is always stored: the LZ4 frame
/// overhead exceeds it and `serialize_chunk` falls back to the stored scheme).
const XORB_SIZES: [&[usize]; 3] = [&[3, 5, 7, 4, 9], &[6, 3, 8, 5], &[9, 4, 72, 3, 7]];
const BIG: usize = 72;

struct Xorb {
    hex: String,
    chunks: Vec<Vec<u8>>,
    /// serialized frames, concatenated
    ser: Vec<u8>,
    /// frame_off[k] = offset of frame k in `ser`; frame_off[n] = ser.len()
    frame_off: Vec<usize>,
    schemes: Vec<u8>,
}

fn build_xorbs() -> Vec<Xorb> {
    let mut v: u8 = 0;
    let mut out = vec![];
    for (xi, sizes) in XORB_SIZES.iter().enumerate() {
        let mut chunks = vec![];
        for &sz in sizes.iter() {
            let mut c = Vec::with_capacity(sz);
            if sz == BIG {
                // runs of 8 equal bytes, every run a fresh value: compressible, and any shift of a
                // window that crosses a run boundary changes the bytes
                for k in 0..sz {
                    if k % 8 == 0 {
                        v += 1;
                    }
                    c.push(v);
                }
            } else {
                for _ in 0..sz {
                    v += 1;
                    c.push(v);
                }
            }
            chunks.push(c);
        }
        let scheme = if xi == 0 { cas_object::CompressionScheme::None } else { cas_object::CompressionScheme::LZ4 };
        let mut ser = vec![];
        let mut frame_off = vec![0usize];
        for c in &chunks {
            cas_object::serialize_chunk(c, &mut ser, Some(scheme)).unwrap_or_else(|e| machinery_error(&format!("serialize_chunk: {e:?}")));
            frame_off.push(ser.len());
        }
        // machinery self-check with the independent frame decoder
        let frames = rm::decode_frames(&ser).unwrap_or_else(|e| machinery_error(&format!("reference decoder rejects the synthetic xorb: {e}")));
        if frames.len() != chunks.len() || frames.iter().zip(chunks.iter()).any(|(f, c)| &f.data != c) {
            machinery_error("synthetic xorb frames do not decode to the synthetic chunks");
        }
        let hash = rm::chunk_hash(format!("c17-synthetic-xorb-{xi}").as_bytes());
        out.push(Xorb { hex: rm::hex(&hash), chunks, ser, frame_off, schemes: frames.iter().map(|f| f.scheme).collect() });
    }
    out
}

// ------------------------------------------------------------------ terms, fetch variants, files

#[derive(Clone, Copy, PartialEq, Eq, PartialOrd, Ord, Hash, Debug)]
struct T {
    x: u8,
    i: u8,
    j: u8,
}
/// (xorb, fetch chunk start, fetch chunk end): one URL, one gate
type Key = (u8, u8, u8);

fn nchunks(x: u8) -> u8 {
    XORB_SIZES[x as usize].len() as u8
}

fn all_terms() -> Vec<T> {
    let mut v = vec![];
    for x in 0..3u8 {
        for i in 0..nchunks(x) {
            for j in i + 1..=nchunks(x) {
                v.push(T { x, i, j });
            }
        }
    }
    v
}

#[derive(Clone, Copy, PartialEq, Eq, Debug)]
enum Fv {
    /// fetch range == term range
    Exact,
    /// one more chunk before
    Lo,
    /// one more chunk after
    Hi,
    /// one more chunk on both sides
    Both,
    /// all terms of the same xorb share one fetch range (the hull of their ranges)
    Shared,
    /// the whole xorb
    Whole,
    /// term k gets Hi / Lo / Both for k = 0 / 1 / 2: overlapping, non-identical fetch ranges
    Stagger,
}
const ALL_FV: [Fv; 7] = [Fv::Exact, Fv::Lo, Fv::Hi, Fv::Both, Fv::Shared, Fv::Whole, Fv::Stagger];
impl Fv {
    fn name(self) -> &'static str {
        match self {
            Fv::Exact => "exact",
            Fv::Lo => "lo",
            Fv::Hi => "hi",
            Fv::Both => "both",
            Fv::Shared => "shared",
            Fv::Whole => "whole",
            Fv::Stagger => "stagger",
        }
    }
    fn parse(s: &str) -> Fv {
        ALL_FV.iter().copied().find(|f| f.name() == s).unwrap_or_else(|| machinery_error(&format!("unknown fetch variant {s}")))
    }
}

fn fetch_assign(terms: &[T], fv: Fv) -> Vec<(u8, u8)> {
    let lo = |t: &T| t.i.saturating_sub(1);
    let hi = |t: &T| (t.j + 1).min(nchunks(t.x));
    terms
        .iter()
        .enumerate()
        .map(|(k, t)| match fv {
            Fv::Exact => (t.i, t.j),
            Fv::Lo => (lo(t), t.j),
            Fv::Hi => (t.i, hi(t)),
            Fv::Both => (lo(t), hi(t)),
            Fv::Whole => (0, nchunks(t.x)),
            Fv::Shared => {
                let same: Vec<&T> = terms.iter().filter(|u| u.x == t.x).collect();
                (same.iter().map(|u| u.i).min().unwrap(), same.iter().map(|u| u.j).max().unwrap())
            },
            Fv::Stagger => match k % 3 {
                0 => (t.i, hi(t)),
                1 => (lo(t), t.j),
                _ => (lo(t), hi(t)),
            },
        })
        .collect()
}

/// the fetch variants of a plan that give pairwise different fetch assignments
fn distinct_fvs(terms: &[T], among: &[Fv]) -> Vec<Fv> {
    let mut seen: Vec<Vec<(u8, u8)>> = vec![];
    let mut out = vec![];
    for &fv in among {
        let a = fetch_assign(terms, fv);
        if !seen.contains(&a) {
            seen.push(a);
            out.push(fv);
        }
    }
    out
}

struct TermDef {
    t: T,
    f: (u8, u8),
    start: usize,
    len: usize,
}
struct FileDef {
    /// file offsets at which a chunk of some term starts
    chunk_bounds: Vec<usize>,
    terms: Vec<TermDef>,
    fv: Fv,
    bytes: Vec<u8>,
    hash: rm::RH,
    hex: String,
}
impl FileDef {
    fn new(xorbs: &[Xorb], terms: &[T], fv: Fv) -> FileDef {
        let fa = fetch_assign(terms, fv);
        let mut bytes = vec![];
        let mut chunk_bounds = vec![];
        let mut tds = vec![];
        for (t, f) in terms.iter().zip(fa) {
            let start = bytes.len();
            for c in &xorbs[t.x as usize].chunks[t.i as usize..t.j as usize] {
                chunk_bounds.push(bytes.len());
                bytes.extend_from_slice(c);
            }
            tds.push(TermDef { t: *t, f, start, len: bytes.len() - start });
        }
        let id = format!("c17-file:{}:{}", terms.iter().map(|t| format!("{}.{}.{}", t.x, t.i, t.j)).collect::<Vec<_>>().join(","), fv.name());
        let hash = rm::chunk_hash(id.as_bytes());
        FileDef { chunk_bounds, terms: tds, fv, bytes, hex: rm::hex(&hash), hash }
    }
    fn terms_json(&self) -> Value {
        json!(self.terms.iter().map(|t| json!([t.t.x, t.t.i, t.t.j])).collect::<Vec<_>>())
    }
    /// term boundaries 0 = b0 < b1 < .. = len
    fn bounds(&self) -> Vec<usize> {
        let mut b: Vec<usize> = self.terms.iter().map(|t| t.start).collect();
        b.push(self.bytes.len());
        b
    }
}

// ------------------------------------------------------------------ the reference server-side planner

#[derive(Clone, Copy, PartialEq, Eq, Debug)]
enum Style {
    /// the terms overlapping the requested range are returned whole
    Whole,
    /// the first / last returned term is narrowed to the chunks that overlap the requested range
    Trim,
    /// like Whole, but every fetch range of a xorb is handed out under ONE url (the xorb's): the ranges differ in
    /// `url_range` (the Range header) only, as the type's documentation allows
    OneUrl,
}
impl Style {
    fn name(self) -> &'static str {
        match self {
            Style::Whole => "whole",
            Style::Trim => "trim",
            Style::OneUrl => "one-url",
        }
    }
}

#[derive(Clone, PartialEq, Eq, Debug)]
struct RTerm {
    x: u8,
    i: u8,
    j: u8,
    len: u32,
    f: (u8, u8),
}
#[derive(Clone, PartialEq, Eq, Debug)]
struct Planned {
    offset: u64,
    terms: Vec<RTerm>,
    /// per xorb (first-appearance order): the distinct fetch ranges (first-appearance order)
    fetch: Vec<(u8, Vec<(u8, u8)>)>,
    /// exclusive end of the answered range (clamped to the file length)
    end: usize,
    start: usize,
    ranged: bool,
}

/// `req` = (start, inclusive end) as carried by the Range header; None = whole file.
/// Err(()) = 416 range not satisfiable.
fn plan(xorbs: &[Xorb], file: &FileDef, req: Option<(u64, u64)>, style: Style) -> Result<Planned, ()> {
    let len = file.bytes.len();
    let (s, end) = match req {
        None => (0usize, len),
        Some((s, e_incl)) => {
            if s as usize >= len || e_incl < s {
                return Err(());
            }
            (s as usize, ((e_incl as usize).saturating_add(1)).min(len))
        },
    };
    let a = file.terms.iter().position(|t| t.start <= s && s < t.start + t.len).ok_or(())?;
    let b = file.terms.iter().position(|t| t.start < end && end <= t.start + t.len).ok_or(())?;
    let mut terms = vec![];
    let mut offset = (s - file.terms[a].start) as u64;
    for k in a..=b {
        let td = &file.terms[k];
        let sizes = &xorbs[td.t.x as usize].chunks;
        let (mut i, mut j) = (td.t.i, td.t.j);
        if style == Style::Trim && req.is_some() {
            if k == a {
                // drop leading chunks that end at or before s
                let mut pos = td.start;
                while pos + sizes[i as usize].len() <= s {
                    pos += sizes[i as usize].len();
                    i += 1;
                }
                offset = (s - pos) as u64;
            }
            if k == b {
                // drop trailing chunks that start at or after end
                let mut pos = td.start + td.len;
                while pos - sizes[j as usize - 1].len() >= end {
                    pos -= sizes[j as usize - 1].len();
                    j -= 1;
                }
            }
        }
        let l: usize = sizes[i as usize..j as usize].iter().map(|c| c.len()).sum();
        terms.push(RTerm { x: td.t.x, i, j, len: l as u32, f: td.f });
    }
    let mut fetch: Vec<(u8, Vec<(u8, u8)>)> = vec![];
    for t in &terms {
        match fetch.iter_mut().find(|(x, _)| *x == t.x) {
            Some((_, v)) => {
                if !v.contains(&t.f) {
                    v.push(t.f)
                }
            },
            None => fetch.push((t.x, vec![t.f])),
        }
    }
    Ok(Planned { offset, terms, fetch, end, start: s, ranged: req.is_some() })
}

/// which fetch range (= URL = gate) serves each returned term: the documented client rule, a linear
/// scan for the first fetch range of the xorb that contains the term's chunk range
fn chosen_keys(p: &Planned) -> Vec<Key> {
    p.terms
        .iter()
        .map(|t| {
            let v = &p.fetch.iter().find(|(x, _)| *x == t.x).unwrap().1;
            let f = v.iter().find(|f| f.0 <= t.i && f.1 >= t.j).unwrap();
            (t.x, f.0, f.1)
        })
        .collect()
}

/// The xorb hash under which xorb `x` is presented in download generation `alias` (0 = the plain
/// hash).  A fresh alias makes the chunk cache cold for that download without a new cache directory.
fn alias_hex(xorbs: &[Xorb], x: u8, alias: u64) -> String {
    if alias == 0 {
        xorbs[x as usize].hex.clone()
    } else {
        rm::hex(&rm::chunk_hash(format!("c17-synthetic-xorb-{x}-alias-{alias}").as_bytes()))
    }
}

fn plan_json(xorbs: &[Xorb], p: &Planned, endpoint: &str, gen: u64, alias: u64, sabotage: u8, one_url: bool) -> String {
    let mut offset = p.offset;
    if sabotage == 1 && p.ranged && offset + 1 < p.terms[0].len as u64 {
        offset += 1;
    }
    let terms: Vec<Value> =
        p.terms.iter().map(|t| json!({"hash": alias_hex(xorbs, t.x, alias), "unpacked_length": t.len, "range": {"start": t.i, "end": t.j}})).collect();
    let mut fi = serde_json::Map::new();
    for (x, v) in &p.fetch {
        let xb = &xorbs[*x as usize];
        let list: Vec<Value> = v
            .iter()
            .map(|f| {
                let declared_start = if sabotage == 2 && f.0 >= 1 { f.0 - 1 } else { f.0 };
                json!({
                    "range": {"start": declared_start, "end": f.1},
                    "url": if one_url { format!("{endpoint}/g{gen}/x{x}/u") } else { format!("{endpoint}/g{gen}/x{x}/{}-{}", f.0, f.1) },
                    "url_range": {"start": xb.frame_off[f.0 as usize], "end": xb.frame_off[f.1 as usize] - 1},
                })
            })
            .collect();
        fi.insert(alias_hex(xorbs, *x, alias), Value::Array(list));
    }
    json!({"offset_into_first_range": offset, "terms": terms, "fetch_info": Value::Object(fi)}).to_string()
}

// ------------------------------------------------------------------ responder with gates

struct Pending {
    key: Key,
    rq: tiny_http::Request,
    body: Vec<u8>,
}

#[derive(Clone, Debug)]
enum Outcome {
    Ok(u64),
    Err(String),
    Panic(String, String),
    Hang { all_released: bool, note: String },
}

#[derive(Default)]
struct St {
    file: Option<Arc<FileDef>>,
    style: Option<Style>,
    gen: u64,
    alias: u64,
    pending: Vec<Pending>,
    /// xorb-range requests in arrival order
    arrivals: Vec<Key>,
    recon_requests: Vec<Option<String>>,
    bad: Vec<String>,
    done: Option<Outcome>,
    progress: Vec<u64>,
    lz4_frames_served: u64,
    /// (event, microseconds since process start): only for RECON_LAB_TRACE
    events: Vec<(String, u128)>,
}
fn now_us() -> u128 {
    START.get_or_init(Instant::now).elapsed().as_micros()
}
struct Shared {
    mu: Mutex<St>,
    cv: Condvar,
}

struct Prog(Arc<Shared>);
impl std::fmt::Debug for Prog {
    fn fmt(&self, f: &mut std::fmt::Formatter<'_>) -> std::fmt::Result {
        write!(f, "progress-recorder")
    }
}
impl ProgressUpdater for Prog {
    fn update(&self, increment: u64) {
        let sh = &self.0;
        let mut st = sh.mu.lock().unwrap();
        st.progress.push(increment);
        st.events.push((format!("progress{increment}"), now_us()));
        sh.cv.notify_all();
    }
}

fn header<'a>(rq: &'a tiny_http::Request, name: &'static str) -> Option<&'a str> {
    rq.headers().iter().find(|h| h.field.equiv(name)).map(|h| h.value.as_str())
}

fn parse_pair(s: &str) -> Option<(u64, u64)> {
    let (a, b) = s.split_once('-')?;
    Some((a.trim().parse().ok()?, b.trim().parse().ok()?))
}

fn respond(rq: tiny_http::Request, status: u16, body: Vec<u8>, json_ct: bool) {
    let mut r = tiny_http::Response::from_data(body).with_status_code(status);
    if json_ct {
        r = r.with_header(tiny_http::Header::from_bytes(&b"Content-Type"[..], &b"application/json"[..]).unwrap());
    }
    let _ = rq.respond(r);
}

fn serve(server: tiny_http::Server, sh: Arc<Shared>, xorbs: Arc<Vec<Xorb>>, endpoint: String, sabotage: u8) {
    for rq in server.incoming_requests() {
        let url = rq.url().to_string();
        let range = header(&rq, "Range").map(|s| s.to_string());
        if let Some(h) = url.strip_prefix("/reconstruction/") {
            let (file, style, gen, alias) = {
                let mut st = sh.mu.lock().unwrap();
                st.recon_requests.push(range.clone());
                st.events.push(("recon-arrived".into(), now_us()));
                (st.file.clone(), st.style.unwrap_or(Style::Whole), st.gen, st.alias)
            };
            let Some(file) = file.filter(|f| f.hex == h) else {
                sh.mu.lock().unwrap().bad.push(format!("reconstruction request for an unknown file {h}"));
                respond(rq, 404, b"unknown file".to_vec(), false);
                continue;
            };
            // the client sends "<start>-<inclusive end>"; a "bytes=" prefix is accepted as well
            let req = match &range {
                None => Ok(None),
                Some(r) => parse_pair(r.strip_prefix("bytes=").unwrap_or(r)).map(Some).ok_or(()),
            };
            match req {
                Err(()) => {
                    sh.mu.lock().unwrap().bad.push(format!("unparsable Range header {range:?} on the reconstruction request"));
                    respond(rq, 404, b"bad range".to_vec(), false);
                },
                Ok(req) => match plan(&xorbs, &file, req, style) {
                    Ok(p) => respond(rq, 200, plan_json(&xorbs, &p, &endpoint, gen, alias, sabotage, style == Style::OneUrl).into_bytes(), true),
                    Err(()) => respond(rq, 416, b"range not satisfiable".to_vec(), false),
                },
            }
        } else if let Some(rest) = url.strip_prefix("/g") {
            // /g<gen>/x<xi>/<fs>-<fe>, or /g<gen>/x<xi>/u where the fetch range is given by the Range header alone
            let parsed = (|| {
                let (g, rest) = rest.split_once("/x")?;
                let (xi, fr) = rest.split_once('/')?;
                let (a, b) = parse_pair(range.as_deref()?.strip_prefix("bytes=")?)?;
                let xi = xi.parse::<usize>().ok()?;
                let (fs, fe) = if fr == "u" {
                    let fo = &xorbs.get(xi)?.frame_off;
                    (fo.iter().position(|o| *o == a as usize)? as u64, fo.iter().position(|o| *o == b as usize + 1)? as u64)
                } else {
                    parse_pair(fr)?
                };
                Some((g.parse::<u64>().ok()?, xi, fs as usize, fe as usize, a as usize, b as usize))
            })();
            let mut st = sh.mu.lock().unwrap();
            match parsed {
                Some((g, xi, fs, fe, a, b)) if xi < xorbs.len() && fs < fe && fe < xorbs[xi].frame_off.len() && a <= b && b < xorbs[xi].ser.len() => {
                    let xb = &xorbs[xi];
                    if a != xb.frame_off[fs] || b + 1 != xb.frame_off[fe] {
                        st.bad.push(format!("xorb {xi} fetch {fs}-{fe}: Range bytes={a}-{b} is not the url_range handed out"));
                    }
                    if g != st.gen {
                        let cur = st.gen;
                        st.bad.push(format!("stale xorb request of generation {g} (current {cur})"));
                        drop(st);
                        respond(rq, 206, xb.ser[a..=b].to_vec(), false);
                        continue;
                    }
                    st.lz4_frames_served += xb.schemes[fs..fe].iter().filter(|s| **s != 0).count() as u64;
                    let key = (xi as u8, fs as u8, fe as u8);
                    st.arrivals.push(key);
                    st.events.push((format!("arrived{key:?}"), now_us()));
                    st.pending.push(Pending { key, rq, body: xb.ser[a..=b].to_vec() });
                    sh.cv.notify_all();
                },
                _ => {
                    st.bad.push(format!("unexpected xorb request {url} range {range:?}"));
                    drop(st);
                    respond(rq, 404, b"?".to_vec(), false);
                },
            }
        } else {
            sh.mu.lock().unwrap().bad.push(format!("unexpected request {url}"));
            respond(rq, 404, b"?".to_vec(), false);
        }
    }
}

// ------------------------------------------------------------------ runtime with idle detection

struct Idle {
    parked: AtomicUsize,
    unparks: AtomicU64,
    workers: usize,
}
impl Idle {
    /// all workers parked, at least one wake-up since `since`, and still so a moment later
    fn settled(&self, since: u64) -> bool {
        let u = self.unparks.load(Ordering::SeqCst);
        if u <= since || self.parked.load(Ordering::SeqCst) != self.workers {
            return false;
        }
        let t = Instant::now();
        while t.elapsed() < Duration::from_micros(40) {
            std::hint::spin_loop();
        }
        self.unparks.load(Ordering::SeqCst) == u && self.parked.load(Ordering::SeqCst) == self.workers
    }
}

static PANIC_LOC: Mutex<String> = Mutex::new(String::new());
static START: std::sync::OnceLock<Instant> = std::sync::OnceLock::new();

struct Trace {
    outcome: Outcome,
    out: Option<Vec<u8>>,
    arrivals: Vec<Key>,
    released: Vec<Key>,
    progress: Vec<u64>,
    recon_range: Vec<Option<String>>,
    bad: Vec<String>,
    lz4_frames: u64,
    order_confirmed: bool,
}

struct Engine {
    rt: tokio::runtime::Runtime,
    idle: Arc<Idle>,
    sh: Arc<Shared>,
    xorbs: Arc<Vec<Xorb>>,
    endpoint: String,
    /// scratch directory of this process (inside the parent's scratch when fanned out)
    root: PathBuf,
    pool: Arc<xet_threadpool::ThreadPool>,
    seq: u64,
    writer_seq: bool,
    conc: usize,
    nocache: Option<Arc<RemoteClient>>,
    transitions: u64,
    /// bytes to put at the output path before the next download (probe only)
    prefill: Option<Vec<u8>>,
    /// the next reconstruction writes to a path inside a directory that does not exist
    missing_dir: bool,
}

impl Engine {
    fn new(writer_seq: bool, conc: usize, sabotage: u8, root: PathBuf) -> Engine {
        let xorbs = Arc::new(build_xorbs());
        let workers = 2;
        let idle = Arc::new(Idle { parked: AtomicUsize::new(0), unparks: AtomicU64::new(0), workers });
        let (i1, i2) = (idle.clone(), idle.clone());
        let rt = tokio::runtime::Builder::new_multi_thread()
            .worker_threads(workers)
            .enable_all()
            .on_thread_park(move || {
                i1.parked.fetch_add(1, Ordering::SeqCst);
            })
            .on_thread_unpark(move || {
                i2.parked.fetch_sub(1, Ordering::SeqCst);
                i2.unparks.fetch_add(1, Ordering::SeqCst);
            })
            .build()
            .unwrap_or_else(|e| machinery_error(&format!("tokio runtime: {e}")));
        // TCP_NODELAY on the listening socket is inherited by the accepted sockets: tiny_http writes
        // through a 1 KiB buffer, so a reconstruction answer of ~1 KB leaves in two segments, and
        // Nagle + delayed ACK would then add 40 ms to every download
        let listener = std::net::TcpListener::bind("127.0.0.1:0").unwrap_or_else(|e| machinery_error(&format!("bind: {e}")));
        {
            use std::os::fd::AsRawFd;
            let one: libc::c_int = 1;
            let rc = unsafe { libc::setsockopt(listener.as_raw_fd(), libc::IPPROTO_TCP, libc::TCP_NODELAY, &one as *const _ as *const libc::c_void, std::mem::size_of::<libc::c_int>() as libc::socklen_t) };
            if rc != 0 {
                machinery_error("setsockopt(TCP_NODELAY) failed on the listening socket");
            }
        }
        let server = tiny_http::Server::from_listener(listener, None).unwrap_or_else(|e| machinery_error(&format!("tiny_http: {e}")));
        let port = server.server_addr().to_ip().map(|a| a.port()).unwrap_or_else(|| machinery_error("no port"));
        let endpoint = format!("http://127.0.0.1:{port}");
        let sh = Arc::new(Shared { mu: Mutex::new(St::default()), cv: Condvar::new() });
        {
            let (sh, xorbs, endpoint) = (sh.clone(), xorbs.clone(), endpoint.clone());
            std::thread::spawn(move || serve(server, sh, xorbs, endpoint, sabotage));
        }
        let pool = Arc::new(xet_threadpool::ThreadPool::from_external(rt.handle().clone()));
        Engine { rt, idle, sh, xorbs, endpoint, root, pool, seq: 0, writer_seq, conc, nocache: None, transitions: 0, prefill: None, missing_dir: false }
    }

    fn new_client(&self, cache_dir: Option<&Path>) -> Arc<RemoteClient> {
        let cc = cache_dir.map(|d| CacheConfig { cache_directory: d.to_path_buf(), cache_size: 1 << 30 });
        let _t = Instant::now();
        let r = Arc::new(RemoteClient::new(self.pool.clone(), &self.endpoint, Some(cas_object::CompressionScheme::LZ4), &None, &cc, PathBuf::new(), false));
        if std::env::var_os("RECON_LAB_TRACE").is_some() {
            eprintln!("new client {:?} us", _t.elapsed().as_micros());
        }
        r
    }

    fn nocache_client(&mut self) -> Arc<RemoteClient> {
        if self.nocache.is_none() {
            self.nocache = Some(self.new_client(None));
        }
        self.nocache.clone().unwrap()
    }

    /// Runs one reconstruction.  `term_keys[k]` = the gate expected to serve returned term k, None when
    /// a cache hit is expected; `script` = the order in which the gates are to be released.
    fn reconstruct(
        &mut self,
        client: &Arc<RemoteClient>,
        file: &Arc<FileDef>,
        req: Option<(u64, u64)>,
        style: Style,
        alias: u64,
        script: &[Key],
        term_keys: &[Option<Key>],
    ) -> Trace {
        self.seq += 1;
        let gen = self.seq;
        {
            let mut st = self.sh.mu.lock().unwrap();
            st.file = Some(file.clone());
            st.style = Some(style);
            st.gen = gen;
            st.alias = alias;
            st.pending.clear();
            st.arrivals.clear();
            st.recon_requests.clear();
            st.bad.clear();
            st.done = None;
            st.events.clear();
            st.events.push(("start".into(), now_us()));
            st.progress.clear();
            st.lz4_frames_served = 0;
        }
        let path = if std::mem::take(&mut self.missing_dir) { self.root.join(format!("no-such-directory-{gen}")).join("out") } else { self.root.join(format!("out-{gen}")) };
        let _ = std::fs::remove_file(&path);
        if let Some(b) = self.prefill.take() {
            let _ = std::fs::write(&path, b);
        }
        {
            let c = client.clone();
            let sh = self.sh.clone();
            let hash = rm::to_mh(&file.hash);
            let range = req.map(|(s, e)| FileRange { start: s, end: e });
            let p2 = path.clone();
            self.rt.handle().spawn(async move {
                let prog: Arc<dyn ProgressUpdater> = Arc::new(Prog(sh.clone()));
                let out = OutputProvider::File(FileProvider::new(p2));
                let r = AssertUnwindSafe(c.get_file(&hash, range, &out, Some(prog))).catch_unwind().await;
                drop(c);
                let v = match r {
                    Ok(Ok(n)) => Outcome::Ok(n),
                    Ok(Err(e)) => Outcome::Err(format!("{e:?}")),
                    Err(p) => Outcome::Panic(vcore::util::panic_text(&p), PANIC_LOC.lock().map(|g| g.clone()).unwrap_or_default()),
                };
                let mut st = sh.mu.lock().unwrap();
                st.done = Some(v);
                st.events.push(("done".into(), now_us()));
                sh.cv.notify_all();
            });
        }
        let gate_all = self.conc > 1 && DEVIATIONS.load(Ordering::SeqCst) < MAX_DEVIATIONS_BEFORE_UNGATED;
        let expected: BTreeSet<Key> = term_keys.iter().flatten().copied().collect();
        let t0 = Instant::now();
        let mut released: Vec<Key> = vec![];
        let mut machinery: Option<String> = None;
        // Some(..) once the client was seen to follow another (legitimate) request pattern than the scripted one
        let mut deviation: Option<String> = None;
        let mut order_confirmed = true;
        // with concurrency > 1: hold everything until every expected gate has been requested
        if gate_all && !expected.is_empty() {
            let mut st = self.sh.mu.lock().unwrap();
            let (mut last_n, mut last_change) = (0usize, Instant::now());
            loop {
                if st.done.is_some() {
                    break;
                }
                let have: BTreeSet<Key> = st.pending.iter().map(|p| p.key).collect();
                if expected.is_subset(&have) {
                    break;
                }
                if st.pending.len() != last_n {
                    last_n = st.pending.len();
                    last_change = Instant::now();
                }
                if !have.is_empty() && last_change.elapsed() > IDLE && self.idle.parked.load(Ordering::SeqCst) == self.idle.workers {
                    // the client chose other fetch ranges than the plan's (any range that contains the term is a
                    // legitimate choice): no longer steer it, release what it asks for and judge the output
                    DEVIATIONS.fetch_add(1, Ordering::SeqCst);
                    deviation = Some(format!("the client went idle having requested the gates {have:?} instead of the expected {expected:?}"));
                    break;
                }
                if t0.elapsed() > WATCHDOG {
                    machinery = Some(format!("only the gates {have:?} of the expected {expected:?} were requested within the watchdog"));
                    break;
                }
                st = self.sh.cv.wait_timeout(st, Duration::from_micros(200)).unwrap().0;
            }
        }
        let mut last_event = Instant::now();
        let outcome = loop {
            let mut st = self.sh.mu.lock().unwrap();
            if let Some(d) = st.done.clone() {
                break d;
            }
            let next_scripted = script.iter().find(|k| !released.contains(k)).copied();
            let choice: Option<Key> = if machinery.is_some() || deviation.is_some() {
                st.pending.first().map(|p| p.key)
            } else if gate_all {
                match next_scripted {
                    Some(k) => st.pending.iter().any(|p| p.key == k).then_some(k),
                    None => st.pending.first().map(|p| p.key),
                }
            } else {
                st.pending.first().map(|p| p.key)
            };
            match choice {
                None => {
                    if gate_all && machinery.is_none() && deviation.is_none() && !st.pending.is_empty() && last_event.elapsed() > IDLE && self.idle.parked.load(Ordering::SeqCst) == self.idle.workers {
                        DEVIATIONS.fetch_add(1, Ordering::SeqCst);
                        deviation = Some(format!("the client went idle without requesting the scripted gate {next_scripted:?}; pending {:?}", st.pending.iter().map(|p| p.key).collect::<Vec<_>>()));
                        continue;
                    }
                    if last_event.elapsed() > WATCHDOG {
                        let all_released = st.pending.is_empty() && expected.iter().all(|k| released.contains(k));
                        let note = format!(
                            "pending={:?} released={released:?} expected={expected:?} arrivals={:?} progress={:?} {}",
                            st.pending.iter().map(|p| p.key).collect::<Vec<_>>(),
                            st.arrivals,
                            st.progress,
                            machinery.clone().unwrap_or_default()
                        );
                        // let whatever is pending go so that the stuck client can unwind
                        let rest: Vec<Pending> = st.pending.drain(..).collect();
                        drop(st);
                        for p in rest {
                            respond(p.rq, 206, p.body, false);
                        }
                        break Outcome::Hang { all_released: all_released && machinery.is_none(), note };
                    }
                    let _g = self.sh.cv.wait_timeout(st, Duration::from_micros(200)).unwrap().0;
                },
                Some(k) => {
                    let mut mine = vec![];
                    let mut i = 0;
                    while i < st.pending.len() {
                        if st.pending[i].key == k {
                            mine.push(st.pending.remove(i));
                        } else {
                            i += 1;
                        }
                    }
                    drop(st);
                    if gate_all {
                        // every worker must be parked before the release, so that digesting the response
                        // necessarily shows up as an unpark
                        let tq = Instant::now();
                        while self.idle.parked.load(Ordering::SeqCst) != self.idle.workers && tq.elapsed() < Duration::from_secs(2) {
                            std::hint::spin_loop();
                        }
                    }
                    let u0 = self.idle.unparks.load(Ordering::SeqCst);
                    for p in mine {
                        self.transitions += 1;
                        self.sh.mu.lock().unwrap().events.push((format!("release{k:?}"), now_us()));
                        respond(p.rq, 206, p.body, false);
                        self.sh.mu.lock().unwrap().events.push((format!("released{k:?}"), now_us()));
                    }
                    if !released.contains(&k) {
                        released.push(k);
                    }
                    last_event = Instant::now();
                    if gate_all && deviation.is_none() {
                        // separation: the client must have digested this response before the next gate opens
                        let served = |q: &Option<Key>| q.map_or(true, |q| released.contains(&q));
                        let target = if self.writer_seq {
                            term_keys.iter().take_while(|q| served(q)).count()
                        } else {
                            term_keys.iter().filter(|q| served(q)).count()
                        };
                        let ts = Instant::now();
                        loop {
                            let (done, prog) = {
                                let st = self.sh.mu.lock().unwrap();
                                (st.done.is_some(), st.progress.len())
                            };
                            if done {
                                break;
                            }
                            if prog >= target && self.idle.settled(u0) {
                                break;
                            }
                            if ts.elapsed() > WATCHDOG {
                                order_confirmed = false;
                                break;
                            }
                            // idle with a request waiting: the client is after another gate than the plan thought
                            if ts.elapsed() > IDLE && self.idle.parked.load(Ordering::SeqCst) == self.idle.workers && !self.sh.mu.lock().unwrap().pending.is_empty() {
                                DEVIATIONS.fetch_add(1, Ordering::SeqCst);
                                deviation = Some("the client went idle waiting for a gate that the scripted order had not reached".to_string());
                                order_confirmed = false;
                                break;
                            }
                            std::thread::sleep(Duration::from_micros(50));
                        }
                    }
                },
            }
        };
        let (arrivals, progress, recon_range, mut bad, lz4_frames) = {
            let st = self.sh.mu.lock().unwrap();
            (st.arrivals.clone(), st.progress.clone(), st.recon_requests.clone(), st.bad.clone(), st.lz4_frames_served)
        };
        if let Some(m) = machinery {
            bad.push(m);
        }
        if deviation.is_some() {
            order_confirmed = false;
        }
        let out = std::fs::read(&path).ok();
        let _ = std::fs::remove_file(&path);
        if std::env::var_os("RECON_LAB_TRACE").is_some() {
            if t0.elapsed() > Duration::from_millis(10) {
                let st = self.sh.mu.lock().unwrap();
                let b = st.events.first().map(|e| e.1).unwrap_or(0);
                eprintln!("SLOW {:?}", st.events.iter().map(|e| format!("{}@{}", e.0, e.1 - b)).collect::<Vec<_>>());
            }
            eprintln!("[{:?}] gen {gen} req={req:?} script={script:?} arrivals={arrivals:?} released={released:?} progress={progress:?} outcome={outcome:?} {:?} us", START.get_or_init(Instant::now).elapsed(), t0.elapsed().as_micros());
        }
        Trace { outcome, out, arrivals, released, progress, recon_range, bad, lz4_frames, order_confirmed }
    }
}

// ------------------------------------------------------------------ exploration

#[derive(Clone, Copy, PartialEq, Eq, Debug)]
enum Ranges {
    /// every 0 <= s < e <= len, and the whole file (None)
    All,
    /// s, e in {0, 1, every term boundary and its neighbours, len-1, len}, and the whole file (None)
    Boundary,
    /// like Boundary, plus every chunk boundary inside the terms and its neighbours
    ChunkBoundary,
    /// the whole file only
    NoneOnly,
}

fn ranges_of(file: &FileDef, r: Ranges) -> Vec<Option<(u64, u64)>> {
    let len = file.bytes.len();
    let mut v: Vec<Option<(u64, u64)>> = vec![None];
    let pts: Vec<usize> = match r {
        Ranges::NoneOnly => return v,
        Ranges::All => (0..=len).collect(),
        Ranges::Boundary | Ranges::ChunkBoundary => {
            let mut s = BTreeSet::new();
            let mut marks = file.bounds();
            if r == Ranges::ChunkBoundary {
                marks.extend(file.chunk_bounds.iter().copied());
            }
            for b in marks {
                for d in [-1i64, 0, 1] {
                    let p = b as i64 + d;
                    if p >= 0 && p as usize <= len {
                        s.insert(p as usize);
                    }
                }
            }
            s.into_iter().collect()
        },
    };
    for (a, &s) in pts.iter().enumerate() {
        for &e in &pts[a + 1..] {
            v.push(Some((s as u64, e as u64)));
        }
    }
    v
}

fn permutations(keys: &[Key]) -> Vec<Vec<Key>> {
    if keys.len() <= 1 {
        return vec![keys.to_vec()];
    }
    let mut out = vec![];
    for i in 0..keys.len() {
        let mut rest = keys.to_vec();
        let k = rest.remove(i);
        for mut p in permutations(&rest) {
            p.insert(0, k);
            out.push(p);
        }
    }
    out
}

#[derive(Clone, Debug)]
struct Stratum {
    name: &'static str,
    what: &'static str,
    plans: Vec<Vec<T>>,
    fvs: Vec<Fv>,
    ranges: Ranges,
    trim: bool,
    cache_off: bool,
    cache_on: bool,
    all_orders: bool,
    parts: usize,
}

fn term_lists(alpha: &[T], len: usize) -> Vec<Vec<T>> {
    let mut out: Vec<Vec<T>> = vec![vec![]];
    for _ in 0..len {
        let mut next = vec![];
        for p in &out {
            for t in alpha {
                let mut q = p.clone();
                q.push(*t);
                next.push(q);
            }
        }
        out = next;
    }
    out
}

/// reduced alphabets (nested: A8 within A12): adjacent, overlapping and nested ranges of one xorb,
/// the three xorbs, first / inner / last chunks, and the LZ4 chunk (x2 chunk 2)
fn alpha12() -> Vec<T> {
    [(0, 0, 2), (0, 1, 3), (0, 2, 5), (0, 1, 2), (1, 0, 1), (1, 1, 4), (2, 1, 3), (2, 3, 5), (0, 0, 5), (0, 4, 5), (1, 2, 3), (1, 0, 4)]
        .iter()
        .map(|&(x, i, j)| T { x, i, j })
        .collect()
}
fn alpha8() -> Vec<T> {
    alpha12()[..8].to_vec()
}
fn alpha5() -> Vec<T> {
    [(0, 0, 2), (0, 1, 3), (0, 2, 5), (1, 1, 4), (2, 1, 3)].iter().map(|&(x, i, j)| T { x, i, j }).collect()
}
/// terms without the 72-byte chunk (keeps the every-byte-range strata affordable)
fn small_terms() -> Vec<T> {
    all_terms().into_iter().filter(|t| !(t.x == 2 && t.i <= 2 && t.j > 2)).collect()
}

#[allow(clippy::too_many_arguments)]
fn st(name: &'static str, what: &'static str, plans: Vec<Vec<T>>, fvs: &[Fv], ranges: Ranges, trim: bool, cache_off: bool, cache_on: bool, all_orders: bool, parts: usize) -> Stratum {
    Stratum { name, what, plans, fvs: fvs.to_vec(), ranges, trim, cache_off, cache_on, all_orders, parts }
}

fn strata(tier: Tier) -> Vec<Stratum> {
    let a = all_terms();
    let small = small_terms();
    let big: Vec<T> = a.iter().copied().filter(|t| !small.contains(t)).collect();
    let mut v = vec![];
    match tier {
        Tier::Quick => {
            v.push(st("q-one-term", "the 31 one-term plans without the 72-byte chunk x all fetch variants x EVERY byte range x both server styles x cache off",
                term_lists(&small, 1), &ALL_FV, Ranges::All, true, true, false, true, 4));
            v.push(st("q-one-term-cache", "ALL 40 one-term plans x {exact, both, whole} fetch x term- and chunk-boundary-adjacent ranges x both server styles x cache off/on",
                term_lists(&a, 1), &[Fv::Exact, Fv::Both, Fv::Whole], Ranges::ChunkBoundary, true, true, true, true, 4));
            v.push(st("q-two-terms", "all 64 two-term plans over the 8-term alphabet x {exact, both, shared, whole, stagger} fetch x boundary-adjacent ranges x both server styles x cache off/on x all completion orders",
                term_lists(&alpha8(), 2), &[Fv::Exact, Fv::Both, Fv::Shared, Fv::Whole, Fv::Stagger], Ranges::Boundary, true, true, true, true, 6));
            v.push(st("q-all-two-terms", "ALL 1600 two-term plans over the 40 terms x {exact, both, shared} fetch x whole file x cache off x all completion orders",
                term_lists(&a, 2), &[Fv::Exact, Fv::Both, Fv::Shared], Ranges::NoneOnly, false, true, false, true, 2));
        },
        Tier::Thorough => {
            v.push(st("t-one-term", "the 31 one-term plans without the 72-byte chunk x all fetch variants x EVERY byte range x both server styles x cache off/on",
                term_lists(&small, 1), &ALL_FV, Ranges::All, true, true, true, true, 4));
            v.push(st("t-one-term-lz4", "the 9 one-term plans containing the 72-byte LZ4 chunk x all fetch variants x term- and chunk-boundary-adjacent ranges x both server styles x cache off/on",
                term_lists(&big, 1), &ALL_FV, Ranges::ChunkBoundary, true, true, true, true, 2));
            v.push(st("t-two-terms-every-range", "all 100 two-term plans over the 10 terms of the 12-term alphabet that lie in xorbs 0 and 1 x {exact, both, shared} fetch x EVERY byte range x both server styles x cache off x all completion orders",
                term_lists(&alpha12().into_iter().filter(|t| t.x < 2).collect::<Vec<_>>(), 2), &[Fv::Exact, Fv::Both, Fv::Shared], Ranges::All, true, true, false, true, 16));
            v.push(st("t-two-terms-cache", "all 144 two-term plans over the 12-term alphabet x all fetch variants x boundary-adjacent ranges x both server styles x cache off/on x all completion orders",
                term_lists(&alpha12(), 2), &ALL_FV, Ranges::Boundary, true, true, true, true, 16));
            v.push(st("t-all-two-terms", "ALL 1600 two-term plans over the 40 terms x all fetch variants x boundary-adjacent ranges x both server styles x cache off x all completion orders",
                term_lists(&a, 2), &ALL_FV, Ranges::Boundary, true, true, false, true, 16));
            v.push(st("t-three-terms-cache", "all 125 three-term plans over the 5-term alphabet x {exact, both, shared, stagger} fetch x boundary-adjacent ranges x both server styles x cache off/on x all completion orders",
                term_lists(&alpha5(), 3), &[Fv::Exact, Fv::Both, Fv::Shared, Fv::Stagger], Ranges::Boundary, true, true, true, true, 16));
            v.push(st("t-three-terms", "all 512 three-term plans over the 8-term alphabet x {exact, lo, hi, shared} fetch x boundary-adjacent ranges x whole-term server style x cache off x all completion orders",
                term_lists(&alpha8(), 3), &[Fv::Exact, Fv::Lo, Fv::Hi, Fv::Shared], Ranges::Boundary, false, true, false, true, 16));
            v.push(st("t-all-three-terms", "ALL 64000 three-term plans over the 40 terms x exact fetch x whole file x cache off x all completion orders",
                term_lists(&a, 3), &[Fv::Exact], Ranges::NoneOnly, false, true, false, true, 16));
        },
    }
    v
}

fn stratum_files(s: &Stratum) -> Vec<(Vec<T>, Fv)> {
    let mut v = vec![];
    for p in &s.plans {
        for fv in distinct_fvs(p, &s.fvs) {
            v.push((p.clone(), fv));
        }
    }
    v
}

fn dig(b: &[u8]) -> String {
    let h = blake3::hash(b);
    vcore::util::hex(&h.as_bytes()[..6])
}

fn keys_json(k: &[Key]) -> Value {
    json!(k.iter().map(|k| json!([k.0, k.1, k.2])).collect::<Vec<_>>())
}

struct CaseCtx<'a> {
    file: &'a Arc<FileDef>,
    req: Option<(u64, u64)>,
    style: Style,
    planned: &'a Planned,
    order: &'a [Key],
    cache: &'static str,
    writer_seq: bool,
    conc: usize,
    /// a follow-up request of a cache case is replayed by replaying the case it belongs to
    replay_as: Option<Value>,
}
impl CaseCtx<'_> {
    fn replay(&self, phase: &str) -> Value {
        if let Some(v) = &self.replay_as {
            let mut v = v.clone();
            v["phase"] = json!(phase);
            return v;
        }
        json!({
            "lab": "reconstruct",
            "terms": self.file.terms_json(),
            "fetch": self.file.fv.name(),
            "range": self.req.map(|(s, e)| json!([s, e])).unwrap_or(Value::Null),
            "server_style": self.style.name(),
            "writer": if self.writer_seq { "seq" } else { "par" },
            "concurrency": self.conc,
            "cache": self.cache,
            "phase": phase,
            "release_order": keys_json(self.order),
        })
    }
    fn describe(&self) -> String {
        format!(
            "terms {} fetch={} range={} style={} writer={} concurrency={} cache={} release order {:?}",
            self.file.terms.iter().map(|t| format!("x{}[{},{})", t.t.x, t.t.i, t.t.j)).collect::<Vec<_>>().join(" "),
            self.file.fv.name(),
            self.req.map(|(s, e)| format!("[{s},{e})")).unwrap_or_else(|| "whole file".into()),
            self.style.name(),
            if self.writer_seq { "sequential" } else { "parallel" },
            self.conc,
            self.cache,
            self.order
        )
    }
}

fn err_kind(e: &str) -> String {
    let k: String = e.chars().take_while(|c| c.is_ascii_alphanumeric() || *c == '_').collect();
    if k.is_empty() {
        "unknown".into()
    } else {
        k
    }
}

fn short(b: &[u8]) -> String {
    if b.len() <= 48 {
        vcore::util::hex(b)
    } else {
        format!("{}..({} bytes)", vcore::util::hex(&b[..48]), b.len())
    }
}

/// The oracle for one reconstruction.  Returns the output bytes when the run produced an output.
fn check(ctx: &CaseCtx, phase: &str, tr: &Trace, expect: &[u8], out: &mut Partial) -> Option<Vec<u8>> {
    check_raw(&ctx.describe(), ctx.replay(phase), phase, tr, expect, out)
}

fn check_raw(desc: &str, replay: Value, phase: &str, tr: &Trace, expect: &[u8], out: &mut Partial) -> Option<Vec<u8>> {
    out.count("reconstructions", 1);
    for b in &tr.bad {
        out.count("machinery:responder-anomalies", 1);
        if out.notes.len() < 20 {
            out.notes.push(format!("responder anomaly: {b} :: {}", desc));
        }
    }
    if !tr.order_confirmed {
        out.count("info:gate-separation-timeouts", 1);
    }
    match &tr.outcome {
        Outcome::Ok(n) => {
            let got = tr.out.clone().unwrap_or_default();
            if got != expect {
                let sig = if got.len() != expect.len() { "C17/output-length" } else { "C17/output-differs" };
                out.violation(
                    sig,
                    format!("{} phase={phase}: expected {} bytes {} but the output file holds {} bytes {}", desc, expect.len(), short(expect), got.len(), short(&got)),
                    replay.clone(),
                );
                out.facts.insert(format!("dev|{}|{}", replay, dig(&got)));
            }
            if *n != expect.len() as u64 || *n != got.len() as u64 {
                out.violation(
                    "C17/reported-length",
                    format!("{} phase={phase}: get_file returned {n}, the output file holds {} bytes, the requested slice has {} bytes", desc, got.len(), expect.len()),
                    replay.clone(),
                );
            }
            Some(got)
        },
        Outcome::Err(e) => {
            out.violation(&format!("C17/error:{}", err_kind(e)), format!("{} phase={phase}: get_file failed: {e}", desc), replay.clone());
            None
        },
        Outcome::Panic(text, loc) => {
            out.violation(&format!("C17/panic:{loc}"), format!("{} phase={phase}: get_file panicked: {text}", desc), replay.clone());
            None
        },
        Outcome::Hang { all_released, note } => {
            if *all_released {
                out.violation("C17/hang", format!("{} phase={phase}: every requested response was released and get_file did not return within 10 s ({note})", desc), replay.clone());
            } else {
                out.count("machinery:watchdog", 1);
                out.notes.push(format!("MACHINERY watchdog: {} phase={phase}: {note}", desc));
            }
            None
        },
    }
}

struct Deferred {
    file: Arc<FileDef>,
    req: Option<(u64, u64)>,
    style: Style,
    alias: u64,
    nterms: usize,
    expect: Vec<u8>,
    cold: Option<Vec<u8>>,
    desc: String,
    replay: Value,
}
struct Epoch {
    dir: PathBuf,
    client: Arc<RemoteClient>,
    deferred: Vec<Deferred>,
}

struct Explorer {
    eng: Engine,
    epoch: Option<Epoch>,
    batch: usize,
    out: Partial,
    /// rolling digest over (case id, output digest): compared across the four process kinds
    roll: blake3::Hasher,
    sample_every: u64,
    cases: u64,
}

impl Explorer {
    fn vacuity(&mut self, file: &FileDef, req: Option<(u64, u64)>, p: &Planned, tkeys: &[Key], order: &[Key], request_order: &[Key]) {
        let o = &mut self.out;
        if p.offset > 0 {
            o.count("vac:first_term_offset_gt0", 1);
        }
        let last_end: usize = {
            // file offset where the last returned term ends
            let mut pos = p.start - p.offset as usize;
            for t in &p.terms {
                pos += t.len as usize;
            }
            pos
        };
        if p.end < last_end {
            o.count("vac:last_term_trimmed", 1);
        }
        if p.terms.iter().zip(tkeys).any(|(t, k)| (k.1, k.2) != (t.i, t.j)) {
            o.count("vac:fetch_range_larger_than_term", 1);
        }
        if p.terms.len() >= 2 {
            o.count("vac:multi_term_answer", 1);
        }
        if (0..p.terms.len()).any(|a| (0..a).any(|b| p.terms[a].x == p.terms[b].x)) {
            o.count("vac:repeated_xorb", 1);
        }
        if (0..tkeys.len()).any(|a| (0..a).any(|b| tkeys[a] == tkeys[b])) {
            o.count("vac:fetch_range_shared_by_two_terms", 1);
        }
        if order != request_order {
            o.count("vac:release_order_differs_from_request_order", 1);
        }
        match req {
            None => o.count("vac:whole_file", 1),
            Some((s, e)) => {
                if e - s == 1 {
                    o.count("vac:single_byte_range", 1);
                }
                let b = file.bounds();
                if !b.contains(&(s as usize)) {
                    o.count("vac:range_starts_mid_term", 1);
                }
                if !b.contains(&(e as usize)) {
                    o.count("vac:range_ends_mid_term", 1);
                }
                if p.terms.len() < file.terms.len() {
                    o.count("vac:answer_omits_terms", 1);
                }
            },
        }
    }

    fn explore_file(&mut self, file: Arc<FileDef>, s: &Stratum, only: Option<&Value>) {
        let xorbs = self.eng.xorbs.clone();
        let len = file.bytes.len();
        self.out.count("files", 1);
        for req in ranges_of(&file, s.ranges) {
            let mut styles = vec![Style::Whole];
            let hdr = req.map(|(s, e)| (s, e - 1));
            let pw = plan(&xorbs, &file, hdr, Style::Whole).unwrap_or_else(|_| machinery_error("planner rejects an in-domain range"));
            if s.trim && req.is_some() {
                let pt = plan(&xorbs, &file, hdr, Style::Trim).unwrap_or_else(|_| machinery_error("planner rejects an in-domain range"));
                if pt != pw {
                    styles.push(Style::Trim);
                }
            }
            if pw.fetch.iter().any(|(_, v)| v.len() >= 2) {
                // two fetch ranges of one xorb: the same answer with one shared url per xorb
                styles.push(Style::OneUrl);
                self.out.count("vac:plans_with_two_fetch_ranges_under_one_url", 1);
            }
            let (rs, re) = req.map(|(s, e)| (s as usize, (e as usize).min(len))).unwrap_or((0, len));
            let expect = file.bytes[rs..re].to_vec();
            for style in styles {
                let planned = plan(&xorbs, &file, hdr, style).unwrap();
                let tkeys = chosen_keys(&planned);
                let mut request_order: Vec<Key> = vec![];
                for k in &tkeys {
                    if !request_order.contains(k) {
                        request_order.push(*k);
                    }
                }
                let orders = if self.eng.conc > 1 && s.all_orders { permutations(&request_order) } else { vec![request_order.clone()] };
                let mut outputs: BTreeSet<String> = BTreeSet::new();
                let mut caches = vec![];
                if s.cache_off {
                    caches.push("off");
                }
                if s.cache_on {
                    caches.push("on");
                }
                for cache in caches {
                    for order in &orders {
                        if let Some(o) = only {
                            // replay filter
                            if o["range"] != req.map(|(s, e)| json!([s, e])).unwrap_or(Value::Null)
                                || o["server_style"].as_str() != Some(style.name())
                                || o["cache"].as_str() != Some(cache)
                                || (self.eng.conc > 1 && o["release_order"] != keys_json(order))
                            {
                                continue;
                            }
                        }
                        self.cases += 1;
                        self.out.count("states", 1);
                        let ctx = CaseCtx { file: &file, req, style, planned: &planned, order, cache, writer_seq: self.eng.writer_seq, conc: self.eng.conc, replay_as: None };
                        self.vacuity(&file, req, &planned, &tkeys, order, &request_order);
                        let got = if cache == "off" { self.case_off(&ctx, &tkeys, &expect) } else { self.case_on(&ctx, &tkeys, &expect) };
                        for g in got {
                            outputs.insert(dig(&g));
                            if !g.is_empty() {
                                self.out.distinct(dig(&g));
                            }
                        }
                        if self.cases % self.sample_every == 1 {
                            let mut v = ctx.replay("all");
                            v["expected_output_hex"] = json!(short(&expect));
                            v["answer"] = json!({"offset_into_first_range": planned.offset, "terms": planned.terms.iter().map(|t| json!([t.x, t.i, t.j, t.len])).collect::<Vec<_>>()});
                            self.out.sample(v);
                        }
                    }
                }
                let id = format!("{}|{:?}|{}", file.hex, req, style.name());
                self.roll.update(id.as_bytes());
                for d in &outputs {
                    self.roll.update(d.as_bytes());
                }
                if outputs.len() > 1 {
                    self.out.violation(
                        "C17/modes-disagree",
                        format!("terms {:?} fetch={} range={req:?} style={}: {} different outputs across cache phases / completion orders", file.terms_json().to_string(), file.fv.name(), style.name(), outputs.len()),
                        json!({"lab": "reconstruct", "terms": file.terms_json(), "fetch": file.fv.name(), "range": req.map(|(s, e)| json!([s, e])).unwrap_or(Value::Null), "server_style": style.name(),
                               "writer": if self.eng.writer_seq { "seq" } else { "par" }, "concurrency": self.eng.conc, "cache": "any", "phase": "all", "release_order": Value::Null}),
                    );
                }
            }
        }
    }

    /// parallel writer, concurrency > 1: the progress callbacks arrive in completion order and carry the
    /// bytes written per term, so they show whether the terms completed in the scripted order
    fn confirm_order(&mut self, tr: &Trace, p: &Planned, tkeys: &[Key]) {
        if self.eng.writer_seq || self.eng.conc <= 1 || tr.released.len() < 2 || !matches!(tr.outcome, Outcome::Ok(_)) {
            return;
        }
        let mut pos = p.start - p.offset as usize;
        let mut lens = vec![];
        for t in &p.terms {
            let (a, b) = (pos.max(p.start), (pos + t.len as usize).min(p.end));
            lens.push(b.saturating_sub(a) as u64);
            pos += t.len as usize;
        }
        let mut at = 0usize;
        let mut ok = tr.progress.len() == lens.len();
        for k in &tr.released {
            let mut want: Vec<u64> = tkeys.iter().zip(&lens).filter(|(q, _)| *q == k).map(|(_, l)| *l).collect();
            let n = want.len();
            if at + n > tr.progress.len() {
                ok = false;
                break;
            }
            let mut got = tr.progress[at..at + n].to_vec();
            want.sort();
            got.sort();
            ok &= want == got;
            at += n;
        }
        self.out.count(if ok { "vac:completion_order_confirmed_by_progress_callbacks" } else { "info:completion_order_not_confirmed" }, 1);
    }

    fn observe_requests(&mut self, tr: &Trace, tkeys: &[Key], cold: bool) {
        let o = &mut self.out;
        o.count("http_xorb_requests", tr.arrivals.len() as u64);
        if tr.lz4_frames > 0 {
            o.count("vac:lz4_frame_served", 1);
        }
        if let Some(Some(r)) = tr.recon_range.first() {
            if !r.starts_with("bytes=") {
                o.count("info:reconstruction_range_header_without_bytes_prefix", 1);
            }
        }
        if tr.recon_range.len() != 1 {
            o.count("info:reconstruction_requests_not_exactly_one", 1);
        }
        if cold {
            let distinct: BTreeSet<Key> = tkeys.iter().copied().collect();
            let arrived: BTreeSet<Key> = tr.arrivals.iter().copied().collect();
            if tkeys.len() > distinct.len() && tr.arrivals.len() == distinct.len() && self.eng.conc > 1 {
                o.count("vac:singleflight_shared_fetch", 1);
            }
            if tr.arrivals.len() > arrived.len() {
                o.count("info:same_url_requested_twice_in_one_download", 1);
            }
            if arrived.len() < distinct.len() {
                o.count("vac:cache_hit_within_one_download", 1);
            }
        }
    }

    fn case_off(&mut self, ctx: &CaseCtx, tkeys: &[Key], expect: &[u8]) -> Vec<Vec<u8>> {
        let client = self.eng.nocache_client();
        let tk: Vec<Option<Key>> = tkeys.iter().map(|k| Some(*k)).collect();
        let tr = self.eng.reconstruct(&client, ctx.file, ctx.req, ctx.style, 0, ctx.order, &tk);
        self.observe_requests(&tr, tkeys, true);
        self.confirm_order(&tr, ctx.planned, tkeys);
        check(ctx, "off", &tr, expect, &mut self.out).into_iter().collect()
    }

    /// Cache case: cold (given release order) -> warm (same client, same request) -> another request on
    /// the warm cache; the fresh-client phase is deferred to `flush_epoch` (building a RemoteClient costs
    /// ~0.3 s, so clients are shared by a batch of cases; every case presents its xorbs under fresh
    /// hashes, which makes the shared cache cold for it).
    fn case_on(&mut self, ctx: &CaseCtx, tkeys: &[Key], expect: &[u8]) -> Vec<Vec<u8>> {
        let mut outs = vec![];
        if self.epoch.is_none() {
            self.eng.seq += 1;
            let dir = self.eng.root.join(format!("cache-{}", self.eng.seq));
            std::fs::create_dir_all(&dir).ok();
            let client = self.eng.new_client(Some(&dir));
            self.out.count("cache_directories", 1);
            self.epoch = Some(Epoch { dir, client, deferred: vec![] });
        }
        let (client, dir) = {
            let e = self.epoch.as_ref().unwrap();
            (e.client.clone(), e.dir.clone())
        };
        self.eng.seq += 1;
        let alias = self.eng.seq;
        let tk: Vec<Option<Key>> = tkeys.iter().map(|k| Some(*k)).collect();
        let hits: Vec<Option<Key>> = tkeys.iter().map(|_| None).collect();
        // cold
        let files_before = if self.cases % 16 == 1 { Some(vcore::util::list_tree(&dir).iter().filter(|e| !e.1).count()) } else { None };
        let tr = self.eng.reconstruct(&client, ctx.file, ctx.req, ctx.style, alias, ctx.order, &tk);
        self.observe_requests(&tr, tkeys, true);
        self.confirm_order(&tr, ctx.planned, tkeys);
        let cold = check(ctx, "cold", &tr, expect, &mut self.out);
        if let Some(n) = files_before {
            if vcore::util::list_tree(&dir).iter().filter(|e| !e.1).count() > n {
                self.out.count("vac:cold_download_filled_the_cache", 1);
            } else {
                self.out.count("info:cold_download_left_no_cache_file", 1);
            }
        }
        // warm: same client, same request
        let tr = self.eng.reconstruct(&client, ctx.file, ctx.req, ctx.style, alias, &[], &hits);
        self.observe_requests(&tr, tkeys, false);
        if tr.arrivals.is_empty() {
            self.out.count("vac:cache_hit_served_all_terms_without_http", 1);
        } else {
            self.out.count("info:warm_download_refetched", 1);
        }
        let warm = check(ctx, "warm", &tr, expect, &mut self.out);
        if let (Some(c), Some(w)) = (&cold, &warm) {
            if c != w {
                self.out.violation("C17/warm-differs-from-cold", format!("{}: cold output {} but warm output {}", ctx.describe(), short(c), short(w)), ctx.replay("warm"));
            }
        }
        // other request on the warm cache: the whole file after a ranged request, a mid-file range after the whole file
        let len = ctx.file.bytes.len();
        let other: Option<(u64, u64)> = match ctx.req {
            Some(_) => None,
            None => Some(((len / 3) as u64, (len - len / 4).max(len / 3 + 1) as u64)),
        };
        {
            let hdr = other.map(|(s, e)| (s, e - 1));
            let xorbs = self.eng.xorbs.clone();
            let p2 = plan(&xorbs, ctx.file, hdr, ctx.style).unwrap_or_else(|_| machinery_error("planner rejects the cross request"));
            let k2 = chosen_keys(&p2);
            // cache model: a term is a hit iff a fetch range put so far (same xorb) contains its chunk range
            let put: BTreeSet<Key> = tkeys.iter().copied().collect();
            let tk2: Vec<Option<Key>> = p2.terms.iter().zip(&k2).map(|(t, k)| if put.iter().any(|q| q.0 == t.x && q.1 <= t.i && q.2 >= t.j) { None } else { Some(*k) }).collect();
            let mut script: Vec<Key> = vec![];
            for k in tk2.iter().flatten() {
                if !script.contains(k) {
                    script.push(*k);
                }
            }
            script.reverse();
            let (rs, re) = other.map(|(s, e)| (s as usize, e as usize)).unwrap_or((0, len));
            let expect2 = ctx.file.bytes[rs..re].to_vec();
            let ctx2 = CaseCtx { file: ctx.file, req: other, style: ctx.style, planned: &p2, order: &script, cache: ctx.cache, writer_seq: ctx.writer_seq, conc: ctx.conc, replay_as: Some(ctx.replay("")) };
            let tr = self.eng.reconstruct(&client, ctx.file, other, ctx.style, alias, &script, &tk2);
            self.out.count("http_xorb_requests", tr.arrivals.len() as u64);
            let hits_n = tk2.iter().filter(|k| k.is_none()).count();
            if hits_n > 0 && hits_n < tk2.len() {
                self.out.count("vac:partially_warm_download", 1);
            }
            if tk2.iter().flatten().count() > 0 && tr.arrivals.is_empty() {
                self.out.count("info:cross_request_fully_served_from_cache_unexpectedly", 1);
            }
            let _ = check(&ctx2, "other-request-on-warm-cache", &tr, &expect2, &mut self.out);
        }
        drop(client);
        let e = self.epoch.as_mut().unwrap();
        e.deferred.push(Deferred {
            file: ctx.file.clone(),
            req: ctx.req,
            style: ctx.style,
            alias,
            nterms: tkeys.len(),
            expect: expect.to_vec(),
            cold: cold.clone(),
            desc: ctx.describe(),
            replay: ctx.replay("fresh"),
        });
        if e.deferred.len() >= self.batch {
            self.flush_epoch();
        }
        for o in [cold, warm].into_iter().flatten() {
            outs.push(o);
        }
        outs
    }

    /// fresh RemoteClient (and therefore a fresh DiskCache instance that scans the directory) on the
    /// warm directory: every deferred case must be served without HTTP and give the same bytes
    fn flush_epoch(&mut self) {
        let Some(Epoch { dir, client, deferred }) = self.epoch.take() else { return };
        drop(client);
        let client2 = self.eng.new_client(Some(&dir));
        for d in deferred {
            let hits: Vec<Option<Key>> = (0..d.nterms).map(|_| None).collect();
            let tr = self.eng.reconstruct(&client2, &d.file, d.req, d.style, d.alias, &[], &hits);
            self.out.count("http_xorb_requests", tr.arrivals.len() as u64);
            if tr.arrivals.is_empty() {
                self.out.count("vac:fresh_client_served_from_warm_directory", 1);
            } else {
                self.out.count("info:fresh_client_refetched", 1);
            }
            let fresh = check_raw(&d.desc, d.replay.clone(), "fresh", &tr, &d.expect, &mut self.out);
            if let Some(g) = &fresh {
                if !g.is_empty() {
                    self.out.distinct(dig(g));
                }
            }
            if let (Some(c), Some(w)) = (&d.cold, &fresh) {
                if c != w {
                    self.out.violation("C17/warm-differs-from-cold", format!("{}: cold output {} but a fresh client on the warm directory wrote {}", d.desc, short(c), short(w)), d.replay.clone());
                }
            }
        }
        drop(client2);
        let _ = std::fs::remove_dir_all(&dir);
    }

    /// out-of-domain probes (counted, never alarmed): what the client does with ranges that are not
    /// within the file's length
    fn probes(&mut self) {
        let xorbs = self.eng.xorbs.clone();
        let file = Arc::new(FileDef::new(&xorbs, &[T { x: 0, i: 0, j: 2 }, T { x: 1, i: 1, j: 3 }], Fv::Exact));
        let len = file.bytes.len() as u64;
        let client = self.eng.nocache_client();
        for (name, req) in [("end_past_eof", (2u64, len + 5)), ("start_at_eof", (len, len + 1)), ("empty_range", (3u64, 3u64)), ("empty_range_at_zero", (0u64, 0u64))] {
            let p = if req.1 > req.0 { plan(&xorbs, &file, Some((req.0, req.1 - 1)), Style::Whole).ok() } else { None };
            let tk: Vec<Option<Key>> = p.as_ref().map(|p| chosen_keys(p).into_iter().map(Some).collect()).unwrap_or_default();
            let script: Vec<Key> = tk.iter().flatten().copied().collect();
            let tr = self.eng.reconstruct(&client, &file, Some(req), Style::Whole, 0, &script, &tk);
            let written = tr.out.as_ref().map(|o| o.len()).unwrap_or(0);
            let text = match &tr.outcome {
                Outcome::Ok(n) => format!("ok_returned_{}_wrote_{}", if *n == written as u64 { "bytes_written".to_string() } else { format!("{n}_not_bytes_written") }, written),
                Outcome::Err(e) => format!("err_{}", err_kind(e)),
                Outcome::Panic(_, loc) => format!("panic_{loc}"),
                Outcome::Hang { .. } => "hang".to_string(),
            };
            self.out.count(&format!("info:probe_out_of_domain:{name}:{text}"), 1);
        }
        // an output path that cannot be created (its directory does not exist), whole file and a mid-term range:
        // whatever get_file does, the length it reports must be the bytes it wrote - an error is fine, a reported
        // length with nothing written is not
        for req in [None, Some((1u64, len - 1))] {
            self.eng.missing_dir = true;
            let p = plan(&xorbs, &file, req.map(|(s, e)| (s, e - 1)), Style::Whole).unwrap();
            let tk: Vec<Option<Key>> = chosen_keys(&p).into_iter().map(Some).collect();
            let script: Vec<Key> = tk.iter().flatten().copied().collect();
            let tr = self.eng.reconstruct(&client, &file, req, Style::Whole, 0, &script, &tk);
            let written = tr.out.as_ref().map(|o| o.len()).unwrap_or(0) as u64;
            self.out.count("reconstructions", 1);
            self.out.count("vac:reconstructions_to_an_uncreatable_output_path", 1);
            match &tr.outcome {
                Outcome::Ok(n) if *n != written => self.out.violation(
                    "C17/reported-length",
                    format!("output path in a directory that does not exist (range {req:?}): get_file returned Ok({n}) but {written} bytes exist at the output path"),
                    json!({"lab": "reconstruct", "kind": "probe-uncreatable-output"}),
                ),
                Outcome::Panic(m, loc) => self.out.violation(&format!("C17/panic:{loc}"), format!("output path in a directory that does not exist: {m}"), json!({"lab": "reconstruct", "kind": "probe-uncreatable-output"})),
                Outcome::Hang { .. } => self.out.violation("C17/hang", "output path in a directory that does not exist: the download never returned".to_string(), json!({"lab": "reconstruct", "kind": "probe-uncreatable-output"})),
                _ => self.out.count("info:uncreatable_output_path_reported_as_error", 1),
            }
        }
        // an output path that already holds a longer file: FileProvider opens without truncation
        self.eng.prefill = Some(vec![0xEE; 64]);
        let p = plan(&xorbs, &file, None, Style::Whole).unwrap();
        let tk: Vec<Option<Key>> = chosen_keys(&p).into_iter().map(Some).collect();
        let script: Vec<Key> = tk.iter().flatten().copied().collect();
        let tr = self.eng.reconstruct(&client, &file, None, Style::Whole, 0, &script, &tk);
        let o = tr.out.unwrap_or_default();
        let text = if o == file.bytes { "truncated_to_the_download" } else if o.starts_with(&file.bytes) { "old_tail_kept_after_the_download" } else { "other" };
        self.out.count(&format!("info:probe_out_of_domain:output_path_holds_longer_file:{text}"), 1);
    }
}

// ------------------------------------------------------------------ process structure

fn kind_name(writer_seq: bool, conc: usize) -> String {
    format!("{}/{}", if writer_seq { "seq" } else { "par" }, conc)
}

fn worker(args: &Args, spec: &str) {
    std::env::set_var("NO_PROXY", "*");
    std::env::set_var("no_proxy", "*");
    std::panic::set_hook(Box::new(|info| {
        let loc = info.location().map(|l| format!("{}:{}", l.file().trim_start_matches("/repo/"), l.line())).unwrap_or_default();
        if let Ok(mut g) = PANIC_LOC.lock() {
            *g = loc;
        }
    }));
    let spec: Value = serde_json::from_str(spec).unwrap_or_else(|e| machinery_error(&format!("bad worker spec: {e}")));
    let writer_seq = spec["writer"].as_str() == Some("seq");
    let conc = spec["conc"].as_u64().unwrap_or(16) as usize;
    if *cas_client::remote_client::RECONSTRUCT_WRITE_SEQUENTIALLY != writer_seq || *cas_client::remote_client::NUM_CONCURRENT_RANGE_GETS != conc {
        machinery_error("the process-global writer mode / concurrency do not match the worker spec (environment not applied)");
    }
    let sabotage: u8 = std::env::var("RECON_LAB_SABOTAGE").ok().and_then(|s| s.parse().ok()).unwrap_or(0);
    let tier = if spec["tier"].as_str() == Some("thorough") { Tier::Thorough } else { Tier::Quick };
    let base = spec["scratch"].as_str().map(PathBuf::from).unwrap_or_else(|| PathBuf::from(if Path::new("/dev/shm").is_dir() { "/dev/shm" } else { "/tmp" }));
    let root = base.join(format!("verif-recon-w{}", std::process::id()));
    let _ = std::fs::remove_dir_all(&root);
    std::fs::create_dir_all(&root).unwrap_or_else(|e| machinery_error(&format!("scratch {root:?}: {e}")));
    let eng = Engine::new(writer_seq, conc, sabotage, root);
    let mut ex = Explorer { eng, epoch: None, batch: 400, out: Partial::default(), roll: blake3::Hasher::new(), sample_every: 1, cases: 0 };
    if sabotage != 0 {
        ex.out.notes.push(format!("RECON_LAB_SABOTAGE={sabotage}: the reference server is deliberately wrong in this run"));
    }
    let t0 = Instant::now();
    if spec["replay"].is_object() {
        let r = &spec["replay"];
        let terms: Vec<T> = r["terms"]
            .as_array()
            .cloned()
            .unwrap_or_default()
            .iter()
            .map(|t| T { x: t[0].as_u64().unwrap_or(0) as u8, i: t[1].as_u64().unwrap_or(0) as u8, j: t[2].as_u64().unwrap_or(1) as u8 })
            .collect();
        if terms.is_empty() || terms.iter().any(|t| t.x > 2 || t.i >= t.j || t.j > nchunks(t.x)) {
            machinery_error("replay: bad term list");
        }
        let fv = Fv::parse(r["fetch"].as_str().unwrap_or("exact"));
        let file = Arc::new(FileDef::new(&ex.eng.xorbs.clone(), &terms, fv));
        let rg = if r["range"].is_array() { Ranges::All } else { Ranges::NoneOnly };
        let any = r["cache"].as_str() == Some("any");
        let s = Stratum {
            name: "replay",
            what: "replay",
            plans: vec![terms.clone()],
            fvs: vec![fv],
            ranges: rg,
            trim: true,
            cache_off: any || r["cache"].as_str() == Some("off"),
            cache_on: any || r["cache"].as_str() == Some("on"),
            all_orders: true,
            parts: 1,
        };
        let mut filt = r.clone();
        if any {
            // replay of a modes-disagree case: every cache mode and order of that (file, range, style)
            ex.explore_any(file, &s, &filt);
        } else {
            if r["range"].is_null() {
                filt["range"] = Value::Null;
            }
            ex.explore_file(file, &s, Some(&filt));
        }
        if ex.cases == 0 {
            machinery_error("replay: the recorded case does not exist in this process kind");
        }
    } else if spec["probes"].as_bool() == Some(true) {
        ex.probes();
    } else {
        let name = spec["stratum"].as_str().unwrap_or("");
        let s = strata(tier).into_iter().find(|s| s.name == name).unwrap_or_else(|| machinery_error(&format!("unknown stratum {name}")));
        let part = spec["part"].as_u64().unwrap_or(0) as usize;
        let files = stratum_files(&s);
        ex.sample_every = 4001;
        let xorbs = ex.eng.xorbs.clone();
        let limit = spec["limit"].as_u64().unwrap_or(u64::MAX);
        for (k, (terms, fv)) in files.iter().enumerate() {
            if k % s.parts != part || ex.out.get("files") >= limit {
                continue;
            }
            ex.explore_file(Arc::new(FileDef::new(&xorbs, terms, *fv)), &s, None);
        }
        let d = ex.roll.finalize();
        ex.out.facts.insert(format!("dig|{name}|{part}|{}|{}", kind_name(writer_seq, conc), vcore::util::hex(&d.as_bytes()[..12])));
    }
    ex.flush_epoch();
    ex.out.count("transitions_gates_released", ex.eng.transitions);
    if std::env::var_os("RECON_LAB_TIMING").is_some() {
        ex.out.max("max:worker_wall_ms", t0.elapsed().as_millis() as u64);
        ex.out.count(&format!("wall_ms:{}", spec["stratum"].as_str().unwrap_or("other")), t0.elapsed().as_millis() as u64);
    }
    let lz4: u64 = ex.eng.xorbs.iter().map(|x| x.schemes.iter().filter(|s| **s == 1).count() as u64).sum();
    ex.out.max("max:lz4_frames_in_synthetic_xorbs", lz4);
    ex.out.write_out(args.out.as_ref().expect("--out"));
    let root = ex.eng.root.clone();
    let _ = std::fs::remove_dir_all(root);
    std::process::exit(0);
}

impl Explorer {
    fn explore_any(&mut self, file: Arc<FileDef>, s: &Stratum, filt: &Value) {
        // every cache mode and order, restricted to the recorded range and style
        for cache in ["off", "on"] {
            let mut f = filt.clone();
            f["cache"] = json!(cache);
            let mut s2 = s.clone();
            s2.cache_off = cache == "off";
            s2.cache_on = cache == "on";
            let xorbs = self.eng.xorbs.clone();
            let hdr = filt["range"].as_array().map(|a| (a[0].as_u64().unwrap_or(0), a[1].as_u64().unwrap_or(1) - 1));
            let style = match filt["server_style"].as_str() {
                Some("trim") => Style::Trim,
                Some("one-url") => Style::OneUrl,
                _ => Style::Whole,
            };
            let Ok(p) = plan(&xorbs, &file, hdr, style) else { machinery_error("replay: range out of domain") };
            let mut ro: Vec<Key> = vec![];
            for k in chosen_keys(&p) {
                if !ro.contains(&k) {
                    ro.push(k);
                }
            }
            for order in if self.eng.conc > 1 { permutations(&ro) } else { vec![ro.clone()] } {
                f["release_order"] = keys_json(&order);
                self.explore_file(file.clone(), &s2, Some(&f));
            }
        }
    }
}

fn kinds() -> Vec<(bool, usize)> {
    vec![(true, 1), (true, 16), (false, 1), (false, 16)]
}

fn job(name: String, writer_seq: bool, conc: usize, mut spec: Value, tier: Tier, scratch: &Path) -> Job {
    spec["scratch"] = json!(scratch.display().to_string());
    spec["writer"] = json!(if writer_seq { "seq" } else { "par" });
    spec["conc"] = json!(conc);
    spec["tier"] = json!(tier.name());
    Job {
        name,
        env: vec![
            ("HF_XET_RECONSTRUCT_WRITE_SEQUENTIALLY".into(), if writer_seq { "true" } else { "false" }.into()),
            ("HF_XET_NUM_CONCURRENT_RANGE_GETS".into(), conc.to_string()),
        ],
        args: vec!["--worker".into(), spec.to_string()],
    }
}

/// `--count`: the size of every stratum (no execution): files, cases and reconstructions per process kind
fn count_mode(tier: Tier) {
    let xorbs = build_xorbs();
    let mut grand = 0u64;
    for s in strata(tier) {
        let files = stratum_files(&s);
        let mut per_kind = [0u64; 2]; // [conc 1, conc 16]
        let mut cases = [0u64; 2];
        for (terms, fv) in &files {
            let file = FileDef::new(&xorbs, terms, *fv);
            for req in ranges_of(&file, s.ranges) {
                let hdr = req.map(|(s, e)| (s, e - 1));
                let pw = plan(&xorbs, &file, hdr, Style::Whole).unwrap();
                let mut plans = vec![pw.clone()];
                if s.trim && req.is_some() {
                    let pt = plan(&xorbs, &file, hdr, Style::Trim).unwrap();
                    if pt != pw {
                        plans.push(pt);
                    }
                }
                if pw.fetch.iter().any(|(_, v)| v.len() >= 2) {
                    plans.push(pw.clone());
                }
                for p in plans {
                    let k: BTreeSet<Key> = chosen_keys(&p).into_iter().collect();
                    let perms: u64 = (1..=k.len() as u64).product();
                    for (ci, orders) in [(0, 1u64), (1, if s.all_orders { perms } else { 1 })] {
                        let c = orders * (s.cache_off as u64 + s.cache_on as u64);
                        cases[ci] += c;
                        per_kind[ci] += orders * (s.cache_off as u64 + 4 * s.cache_on as u64);
                    }
                }
            }
        }
        let total = 2 * (per_kind[0] + per_kind[1]);
        grand += total;
        println!("{:28} plans={:6} files={:6} cases/kind: c1={:8} c16={:8}  reconstructions/kind: c1={:8} c16={:8}  total(4 kinds)={:9}", s.name, s.plans.len(), files.len(), cases[0], cases[1], per_kind[0], per_kind[1], total);
    }
    println!("grand total reconstructions = {grand}");
}

fn main() {
    let args = Args::parse();
    if let Some(w) = &args.worker {
        worker(&args, w);
        return;
    }
    if args.rest.iter().any(|a| a == "--count") {
        count_mode(args.tier);
        return;
    }
    if args.prop != PROP {
        machinery_error("lab_reconstruct serves C17");
    }
    let tier = args.tier;
    let mut run = Run::new(&args, PROP, "model_checking");
    let scratch = Scratch::new("recon-parent");
    let mut jobs: Vec<Job> = vec![];
    let st = strata(tier);
    if let Some(rp) = &args.replay {
        let v: Value = serde_json::from_slice(&std::fs::read(rp).unwrap_or_else(|e| machinery_error(&format!("read replay: {e}")))).unwrap_or_else(|e| machinery_error(&format!("parse replay: {e}")));
        let r = v["replay"].clone();
        if r["lab"].as_str() != Some("reconstruct") {
            machinery_error("replay file is not from lab_reconstruct");
        }
        if r["kind"].as_str() == Some("probe-uncreatable-output") {
            // the probes are few and cheap: all of them are run again in every process kind
            for (ws, c) in kinds() {
                jobs.push(job(format!("probes {}", kind_name(ws, c)), ws, c, json!({"probes": true}), tier, scratch.path()));
            }
        }
        let both = r["cache"].as_str() == Some("any") && r["writer"].is_null();
        for (ws, c) in kinds() {
            let this = r["writer"].as_str() == Some(if ws { "seq" } else { "par" }) && r["concurrency"].as_u64() == Some(c as u64);
            if this || both {
                jobs.push(job(format!("replay {}", kind_name(ws, c)), ws, c, json!({"replay": r}), tier, scratch.path()));
            }
        }
        if jobs.is_empty() {
            machinery_error("replay: no process kind matches the recorded writer / concurrency");
        }
    } else {
        // biggest strata first so that the pool stays busy
        let mut order: Vec<&Stratum> = st.iter().collect();
        order.sort_by_key(|s| std::cmp::Reverse(s.parts));
        for s in order {
            for part in 0..s.parts {
                for (ws, c) in [(false, 16), (true, 16), (false, 1), (true, 1)] {
                    jobs.push(job(format!("{} {}/{} {}", s.name, part, s.parts, kind_name(ws, c)), ws, c, json!({"stratum": s.name, "part": part}), tier, scratch.path()));
                }
            }
        }
        for (ws, c) in kinds() {
            jobs.push(job(format!("probes {}", kind_name(ws, c)), ws, c, json!({"probes": true}), tier, scratch.path()));
        }
    }
    let njobs = jobs.len();
    let results = fanout(jobs, 16, scratch.path(), tier.pick(300, 1500));
    let mut all = Partial::default();
    for r in results {
        match r.partial {
            Some(p) => all.merge(p),
            None => run.machinery(format!("worker {} died: {} :: {}", r.job.name, r.died.unwrap_or_default(), r.stderr_tail.lines().last().unwrap_or(""))),
        }
    }
    // sequential == parallel == every concurrency: the per-slice digests of the four process kinds must agree
    let mut by_slice: BTreeMap<String, BTreeMap<String, String>> = BTreeMap::new();
    for f in &all.facts {
        let p: Vec<&str> = f.split('|').collect();
        if p.len() == 5 && p[0] == "dig" {
            by_slice.entry(format!("{}|{}", p[1], p[2])).or_default().insert(p[3].to_string(), p[4].to_string());
        }
    }
    let mut slices_compared = 0u64;
    for (slice, m) in &by_slice {
        if args.replay.is_some() {
            break;
        }
        if m.len() != 4 {
            run.machinery(format!("slice {slice}: only {} of the 4 process kinds reported", m.len()));
            continue;
        }
        slices_compared += 1;
        let vals: BTreeSet<&String> = m.values().collect();
        if vals.len() > 1 {
            let seq: BTreeSet<&String> = m.iter().filter(|(k, _)| k.starts_with("seq")).map(|(_, v)| v).collect();
            let par: BTreeSet<&String> = m.iter().filter(|(k, _)| k.starts_with("par")).map(|(_, v)| v).collect();
            let sig = if seq != par { "C17/writers-disagree" } else { "C17/concurrency-levels-disagree" };
            // the deviating case itself carries its own violation and replay; point at it
            let dev: Vec<&String> = all.facts.iter().filter(|f| f.starts_with("dev|")).take(3).collect();
            let replay = dev
                .first()
                .and_then(|d| d.split('|').nth(1))
                .and_then(|s| serde_json::from_str::<Value>(s).ok())
                .map(|mut v| {
                    v["cache"] = json!("any");
                    v["writer"] = Value::Null;
                    v
                })
                .unwrap_or(json!({"lab": "reconstruct", "slice": slice}));
            all.violation(sig, format!("slice {slice}: output digests per process kind {m:?}; deviating cases: {dev:?}"), replay);
        }
    }
    all.count("cross_kind_slices_compared", slices_compared);
    all.facts.clear();
    let watchdogs = all.get("machinery:watchdog");
    if watchdogs > 0 {
        run.machinery(format!("{watchdogs} reconstructions hit the 10 s watchdog without a verdict (see notes)"));
    }
    let anomalies = all.get("machinery:responder-anomalies");
    if anomalies > 0 && all.violations.is_empty() {
        run.machinery(format!("{anomalies} responder anomalies (unexpected requests) without any violation (see notes)"));
    }
    if args.replay.is_none() {
        for k in [
            "vac:first_term_offset_gt0",
            "vac:last_term_trimmed",
            "vac:fetch_range_larger_than_term",
            "vac:fetch_range_shared_by_two_terms",
            "vac:singleflight_shared_fetch",
            "vac:cache_hit_served_all_terms_without_http",
            "vac:fresh_client_served_from_warm_directory",
            "vac:cache_hit_within_one_download",
            "vac:partially_warm_download",
            "vac:release_order_differs_from_request_order",
            "vac:completion_order_confirmed_by_progress_callbacks",
            "vac:repeated_xorb",
            "vac:lz4_frame_served",
            "vac:single_byte_range",
            "vac:range_starts_mid_term",
            "vac:range_ends_mid_term",
            "vac:answer_omits_terms",
            "vac:whole_file",
            "vac:cold_download_filled_the_cache",
        ] {
            all.count(k, 0);
        }
    }
    let recon = all.get("reconstructions");
    run.set("states", json!(all.get("states")));
    run.set("transitions", json!(all.get("transitions_gates_released")));
    run.set("traces_validated_against_impl", json!(recon));
    run.set("worker_processes", json!(njobs));
    run.set("distinct_outputs", json!(all.distinct.len()));
    run.set(
        "strata",
        json!(st.iter().map(|s| json!({"name": s.name, "what": s.what, "plans": s.plans.len(), "files": stratum_files(s).len(), "slices": s.parts})).collect::<Vec<_>>()),
    );
    run.set(
        "synthetic_xorbs",
        json!(build_xorbs().iter().map(|x| json!({"chunk_sizes": x.chunks.iter().map(|c| c.len()).collect::<Vec<_>>(), "frame_schemes": x.schemes, "serialized_len": x.ser.len()})).collect::<Vec<_>>()),
    );
    run.assume("distinct fetch ranges have distinct URLs (the client's singleflight key is the URL alone; a presigning server derives the URL from xorb + range): the responder hands out /g<n>/x<xorb>/<fs>-<fe>");
    run.assume("the reference server answers like a correct CAS server: terms overlapping the requested range (whole, or narrowed to the overlapping chunks), offset_into_first_range = s - start of the first returned term, every returned term contained in one of its xorb's fetch ranges, url_range = the inclusive byte span of those chunk frames; 416 when the range starts at or past the end");
    run.assume("byte ranges are within the file's length (0 <= s < e <= len); ranges reaching past the end, empty ranges and starts at the end are probed and counted under info:probe_out_of_domain, not judged");
    run.assume("the output path does not exist before the download (FileProvider opens without truncation); the chunk cache is large enough that nothing is evicted");
    run.assume("building a RemoteClient costs ~0.3 s, so cache cases share a RemoteClient + cache directory in batches of 400: each case presents its xorbs under fresh hashes (cold cache for that case); the fresh-client phase re-runs the whole batch on a new RemoteClient (new DiskCache instance scanning the directory) before the directory is deleted; cache-off cases share one RemoteClient per process");
    run.assume("completion order = the order in which the held HTTP responses are released; between two releases the explorer waits until the client reported the progress the released terms imply and all runtime workers are parked again (tokio park/unpark callbacks); sub-response interleavings inside one runtime tick are not enumerated");
    run.assume("HTTP transport (reqwest/hyper over loopback, tiny_http) and lz4_flex are a trusted base shared by the client and the responder");
    run.all = all;
    drop(scratch); // Run::finish exits the process
    run.finish(
        recon,
        "bounded exhaustive per stratum (see coverage.strata): files = term lists over three synthetic xorbs (4-5 chunks, distinct chunk sizes, pairwise distinct bytes) x fetch-range variants {exact, +1 chunk before / after / both, hull shared by the terms of a xorb, whole xorb, staggered}; requests = every byte range or the boundary-adjacent ranges, plus the whole file; server styles {whole terms, chunk-narrowed terms}; cache phases {off, cold, warm same client, other request on the warm directory, fresh client on the warm directory}; with concurrency 16 every permutation of the gate releases; each case runs in four process kinds (sequential / parallel writer x concurrency 1 / 16). evaluations = reconstructions executed by the real RemoteClient::get_file; states = (file, request, server style, cache mode, release order, process kind) cases; transitions = HTTP responses released by the explorer; distinct_nontrivial = distinct non-empty output byte strings (6-byte BLAKE3 prefix)",
        true,
    );
}

//! Shard dedup lab: decides C05 (dedup answers are truthful; model_checking) and C18 (keyed
//! shards protect chunk hashes, keep dedup working, and expire; exploration) by bounded
//! exhaustive exploration of the real mdb_shard code against a boring reference model (a list of
//! xorbs, each with its chunk (hash, len) list).
//!
//! Self-test of the oracles: env LAB_SELFTEST=bytes|index|hmac|expiry|expiry-|leak makes the *reference* wrong
//! on purpose; the run must then report violations.

vcore::interpose!();

use std::collections::{BTreeMap, BTreeSet};
use std::io::Cursor;
use std::panic::{catch_unwind, AssertUnwindSafe};
use std::path::{Path, PathBuf};
use std::sync::atomic::{AtomicU64, AtomicUsize, Ordering};
use std::sync::{Arc, Mutex};
use std::time::Duration;

use labs::refmodel::{self, from_mh, to_mh, RH, ZERO};
use mdb_shard::cas_structs::{CASChunkSequenceEntry, CASChunkSequenceHeader, MDBCASInfo};
use mdb_shard::file_structs::{
    FileDataSequenceEntry, FileDataSequenceHeader, FileMetadataExt, FileVerificationEntry, MDBFileInfo,
};
use mdb_shard::session_directory::consolidate_shards_in_directory;
use mdb_shard::shard_file_reconstructor::FileReconstructor;
use mdb_shard::shard_in_memory::MDBInMemoryShard;
use mdb_shard::{MDBShardFile, MDBShardInfo, ShardFileManager};
use merklehash::MerkleHash;
use vcore::report::{machinery_error, Args, Partial, Run, Tier};
use vcore::util::{last_panic_loc, panic_text, Scratch};
use vcore::{json, Value};

/// the constant fake "now" of every phase that does not vary the clock
const T0: i64 = 1_700_000_000;

// ------------------------------------------------------------------ hashes and the alphabet

fn hw(w: [u64; 4]) -> RH {
    let mut h = [0u8; 32];
    for i in 0..4 {
        h[i * 8..i * 8 + 8].copy_from_slice(&w[i].to_le_bytes());
    }
    h
}
/// the 64 bits the shard format keeps in its lookup tables: the first little-endian word
fn prefix(h: &RH) -> u64 {
    u64::from_le_bytes(h[..8].try_into().unwrap())
}
fn mix(x: u64) -> u64 {
    let mut z = x.wrapping_add(0x9E37_79B9_7F4A_7C15);
    z = (z ^ (z >> 30)).wrapping_mul(0xBF58_476D_1CE4_E5B9);
    z = (z ^ (z >> 27)).wrapping_mul(0x94D0_49BB_1331_11EB);
    z ^ (z >> 31)
}
fn hx(h: &RH) -> String {
    for (i, n) in SYM_NAMES.iter().enumerate() {
        if *h == sym_hash(i as u8) {
            return n.to_string();
        }
    }
    refmodel::hex(h)[..16].to_string()
}

const PA: u64 = 0x8111_2222_3333_4444; // prefix of A and B
const PC: u64 = 0x0000_0000_0000_0C0C; // prefix of C and D (sorts first)
const PE: u64 = 0x4555_0000_FFFF_0001; // prefix of E and of the absent hash Y
const PZ: u64 = 0xF999_9999_9999_9999; // prefix of the absent hash Z (occurs nowhere)
const SYM_NAMES: [&str; 9] = ["A", "B", "C", "D", "E", "Y", "Z", "F", "G"];
/// F = kc_msg(KC_X) and G = kc_msg(KC_Y) are unrelated as plain hashes, but their HMACs under key k1
/// share the first 64 bits (found once by a distinguished-point collision search; checked at start-up)
const KC_X: u64 = 0x3ac1_b6c0_ac99_cf23;
const KC_Y: u64 = 0x778e_8e48_1801_3ee7;
fn kc_msg(x: u64) -> RH {
    hw([x, 0xF00D_0001, 0x6b31, 0xC0111DE])
}
const N_STORED: u8 = 5; // A..E may be stored; Y and Z never are

/// A,B share their 64-bit prefix and differ only in the last word; C,D share theirs and differ in
/// the second word; E is alone among stored hashes; Y (never stored) collides with E; Z (never
/// stored) has a prefix that occurs nowhere.
fn sym_hash(s: u8) -> RH {
    match s {
        0 => hw([PA, 1, 2, 3]),
        1 => hw([PA, 1, 2, 4]),
        2 => hw([PC, 10, 0, 0]),
        3 => hw([PC, 11, 0, 0]),
        4 => hw([PE, 5, 5, 5]),
        5 => hw([PE, 5, 5, 6]),
        6 => hw([PZ, 9, 9, 9]),
        7 => kc_msg(KC_X),
        _ => kc_msg(KC_Y),
    }
}
fn key_of(k: u8) -> RH {
    match k {
        0 => ZERO,
        1 => hw([0x6b31_6b31_6b31_6b31, 0x1111, 0x2222, 0x3333]),
        _ => hw([0x6b32_0000_0000_0001, 0xAAAA, 0xBBBB, 0xCCCC]),
    }
}

#[derive(Clone, Debug, PartialEq, Eq)]
struct Xorb {
    hash: RH,
    chunks: Vec<(RH, u32)>,
}

/// small-family xorb: hash and lengths are functions of the symbol sequence, so xorb hashes are
/// distinct exactly when contents are; lengths depend on symbol and position so that byte sums
/// tell ranges apart.
fn small_xorb(syms: &[u8]) -> Xorb {
    let mut code = 0u64;
    for (i, s) in syms.iter().enumerate() {
        code += (*s as u64 + 1) * 10u64.pow(i as u32);
    }
    // a single-chunk xorb is named like a real one: the merkle root of a one-element list is the
    // chunk hash itself, so an xorb hash can equal a chunk hash that occurs in queries (a scan that
    // runs past a xorb's end then reads the next xorb's header as if it were a chunk entry)
    let hash = if syms.len() == 1 { sym_hash(syms[0]) } else { hw([mix(code ^ 0xCA5), 0xCA5, code, 0x58]) };
    Xorb {
        hash,
        chunks: syms.iter().enumerate().map(|(i, s)| (sym_hash(*s), 4096 + 512 * (*s as u32) + (1 << i))).collect(),
    }
}
fn syms_str(s: &[u8]) -> String {
    if s.is_empty() {
        return "()".into();
    }
    s.iter().map(|x| SYM_NAMES[*x as usize]).collect()
}
fn shard_str(x: &[Vec<u8>]) -> String {
    format!("{{{}}}", x.iter().map(|s| syms_str(s)).collect::<Vec<_>>().join("|"))
}
fn to_cas(x: &Xorb) -> MDBCASInfo {
    let mut pos = 0u32;
    let mut chunks = Vec::with_capacity(x.chunks.len());
    for (h, l) in &x.chunks {
        chunks.push(CASChunkSequenceEntry::new(to_mh(h), *l, pos));
        pos += *l;
    }
    MDBCASInfo {
        metadata: CASChunkSequenceHeader::new(to_mh(&x.hash), x.chunks.len(), pos),
        chunks,
    }
}

// ------------------------------------------------------------------ self-test mutations of the reference

#[derive(Clone, Copy, Default, Debug)]
struct Mutation {
    bytes_plus_one: bool,
    index_shift: bool,
    hmac_identity: bool,
    expiry_plus_two: bool,
    expiry_minus_two: bool,
    leak_search_keyed: bool,
}
fn mutation() -> Mutation {
    let mut m = Mutation::default();
    match std::env::var("LAB_SELFTEST").ok().as_deref() {
        None | Some("") => {},
        Some("bytes") => m.bytes_plus_one = true,
        Some("index") => m.index_shift = true,
        Some("hmac") => m.hmac_identity = true,
        Some("expiry") => m.expiry_plus_two = true,
        Some("expiry-") => m.expiry_minus_two = true,
        Some("leak") => m.leak_search_keyed = true,
        Some(o) => machinery_error(&format!("unknown LAB_SELFTEST={o}")),
    }
    m
}

// ------------------------------------------------------------------ the reference world and the C05 oracle

#[derive(Clone, Debug)]
struct Rec {
    xhash: RH,
    key: RH,
    /// the hashes as recorded in the shard: HMAC(key, original) for a keyed recording
    hashes: Vec<RH>,
    lens: Vec<u32>,
}
#[derive(Clone, Default)]
struct World {
    recs: Vec<Rec>,
    keys: BTreeSet<RH>,
    /// (key, prefix of recorded hash) -> distinct recorded hashes
    by_prefix: BTreeMap<(RH, u64), BTreeSet<RH>>,
    /// (key, recorded hash) -> number of locations
    locations: BTreeMap<(RH, RH), usize>,
}
fn keyed(h: &RH, key: &RH, m: &Mutation) -> RH {
    if *key == ZERO || m.hmac_identity {
        *h
    } else {
        refmodel::hmac(h, key)
    }
}
impl World {
    fn add(&mut self, x: &Xorb, key: &RH, m: &Mutation) {
        if self.recs.iter().any(|r| r.xhash == x.hash && r.key == *key) {
            return;
        }
        let hashes: Vec<RH> = x.chunks.iter().map(|(h, _)| keyed(h, key, m)).collect();
        for h in &hashes {
            self.by_prefix.entry((*key, prefix(h))).or_default().insert(*h);
            *self.locations.entry((*key, *h)).or_default() += 1;
        }
        self.keys.insert(*key);
        self.recs.push(Rec {
            xhash: x.hash,
            key: *key,
            hashes,
            lens: x.chunks.iter().map(|c| c.1).collect(),
        });
    }
    fn n_locations(&self, h: &RH, m: &Mutation) -> usize {
        self.keys.iter().map(|k| self.locations.get(&(*k, keyed(h, k, m))).copied().unwrap_or(0)).sum()
    }
    /// some different recorded hash shares the keyed 64-bit prefix of `h` *inside a key domain in which `h` is
    /// stored* ("last writer wins" can then legitimately hide it).  A colliding prefix in another key domain is
    /// no excuse for a miss: the manager verifies the full hash and must go on to the next collection.
    fn prefix_shared_where_stored(&self, h: &RH, m: &Mutation) -> bool {
        self.keys.iter().any(|k| {
            let kh = keyed(h, k, m);
            self.locations.get(&(*k, kh)).copied().unwrap_or(0) > 0
                && self.by_prefix.get(&(*k, prefix(&kh))).map(|s| s.iter().any(|o| *o != kh)).unwrap_or(false)
        })
    }
    /// some different recorded hash shares the (keyed) 64-bit prefix of `h` in some key domain
    #[allow(dead_code)]
    fn prefix_shared(&self, h: &RH, m: &Mutation) -> bool {
        self.keys.iter().any(|k| {
            let kh = keyed(h, k, m);
            self.by_prefix.get(&(*k, prefix(&kh))).map(|s| s.iter().any(|o| *o != kh)).unwrap_or(false)
        })
    }
}

#[derive(Clone, Debug, PartialEq, Eq)]
struct Ans {
    n: usize,
    xorb: RH,
    start: u32,
    end: u32,
    bytes: u32,
    flags: u32,
}
/// Err = the lookup itself failed ("error: .." / "panic: ..")
type Obs = Result<Option<Ans>, String>;

fn ans_of(r: Option<(usize, FileDataSequenceEntry)>) -> Option<Ans> {
    r.map(|(n, f)| Ans {
        n,
        xorb: from_mh(&f.cas_hash),
        start: f.chunk_index_start,
        end: f.chunk_index_end,
        bytes: f.unpacked_segment_bytes,
        flags: f.cas_flags,
    })
}
fn guarded<F: FnOnce() -> Result<Option<(usize, FileDataSequenceEntry)>, String>>(f: F) -> Obs {
    match catch_unwind(AssertUnwindSafe(f)) {
        Ok(Ok(v)) => Ok(ans_of(v)),
        Ok(Err(e)) => Err(format!("error: {e}")),
        Err(p) => Err(format!("panic: {} at {}", short_text(&panic_text(&p)), last_panic_loc())),
    }
}
fn obs_str(o: &Obs) -> String {
    match o {
        Ok(None) => "-".into(),
        Ok(Some(a)) => format!("{}@{}[{},{})={}f{}", a.n, &refmodel::hex(&a.xorb)[..8], a.start, a.end, a.bytes, a.flags),
        Err(e) => format!("!{e}"),
    }
}

enum Verdict {
    Miss { present: bool },
    Hit { partial: bool, past_end: bool, keyed: bool, collided: bool },
    Bad(&'static str, String),
}

/// Soundness only: an answer (n, X, [a, a+n), bytes) must name an added xorb, stay inside it, name
/// chunks whose recorded hashes are the first n queried hashes (directly or under the recording's
/// key), and report the sum of their lengths.  A miss is never a violation, n need not be maximal.
fn judge(w: &World, q: &[RH], obs: &Obs, m: &Mutation) -> Verdict {
    let a = match obs {
        Err(e) if e.starts_with("panic") => return Verdict::Bad("lookup-panicked", e.clone()),
        Err(e) => return Verdict::Bad("lookup-failed", e.clone()),
        Ok(None) => {
            return Verdict::Miss {
                present: !q.is_empty() && w.n_locations(&q[0], m) > 0,
            }
        },
        Ok(Some(a)) => a,
    };
    if a.n == 0 {
        return Verdict::Bad("zero-length-hit", "a hit that matches no query hash".into());
    }
    if a.n > q.len() {
        return Verdict::Bad("hit-longer-than-query", format!("n={} for a query of {} hashes", a.n, q.len()));
    }
    if a.end < a.start || (a.end - a.start) as usize != a.n {
        return Verdict::Bad("range-length-mismatch", format!("n={} but chunk range [{},{})", a.n, a.start, a.end));
    }
    let recs: Vec<&Rec> = w.recs.iter().filter(|r| r.xhash == a.xorb).collect();
    if recs.is_empty() {
        return Verdict::Bad("answer-names-unknown-xorb", format!("xorb {} was never added", refmodel::hex(&a.xorb)));
    }
    let shift = if m.index_shift { 1 } else { 0 };
    let start = a.start as usize + shift;
    let mut why = String::new();
    let mut range_ok = false;
    for r in &recs {
        if start + a.n > r.hashes.len() {
            why = format!("range [{},{}) exceeds the xorb's {} chunks", a.start, a.end, r.hashes.len());
            continue;
        }
        range_ok = true;
        let mut ok = true;
        for i in 0..a.n {
            if r.hashes[start + i] != keyed(&q[i], &r.key, m) {
                ok = false;
                why = format!(
                    "chunk {} of xorb {} is recorded as {} but query hash {} is {}{}",
                    start + i,
                    &refmodel::hex(&a.xorb)[..8],
                    hx(&r.hashes[start + i]),
                    i,
                    hx(&q[i]),
                    if r.key == ZERO { "" } else { " (compared under the shard's key)" }
                );
                break;
            }
        }
        if !ok {
            continue;
        }
        let mut sum: u64 = r.lens[start..start + a.n].iter().map(|x| *x as u64).sum();
        if m.bytes_plus_one {
            sum += 1;
        }
        if sum != a.bytes as u64 {
            return Verdict::Bad("byte-count", format!("reported {} bytes, chunks [{},{}) hold {}", a.bytes, a.start, a.end, sum));
        }
        let kq0 = keyed(&q[0], &r.key, m);
        let collided = w.by_prefix.get(&(r.key, prefix(&kq0))).map(|s| s.iter().any(|o| *o != kq0)).unwrap_or(false);
        let only_keyed = recs.iter().all(|r| r.key != ZERO);
        return Verdict::Hit {
            partial: a.n < q.len(),
            past_end: a.n < q.len() && start + a.n == r.hashes.len(),
            keyed: only_keyed,
            collided,
        };
    }
    if !range_ok {
        return Verdict::Bad("index-out-of-range", why);
    }
    Verdict::Bad("answer-names-wrong-chunks", why)
}

#[derive(Clone)]
struct Query {
    label: String,
    hs: Vec<RH>,
    mh: Vec<MerkleHash>,
}
fn mk_query(label: String, hs: Vec<RH>) -> Query {
    let mh = hs.iter().map(to_mh).collect();
    Query { label, hs, mh }
}
/// ALL sequences of length <= maxlen over the 7-symbol alphabet (A..E, Y, Z), shortest first
fn all_queries(maxlen: usize) -> Vec<Query> {
    queries_over(&[0, 1, 2, 3, 4, 5, 6], maxlen)
}
/// queries of the keyed-collision family: all sequences over F, G, A and the absent Z
fn kc_queries(maxlen: usize) -> Vec<Query> {
    queries_over(&[7, 8, 0, 6], maxlen)
}
fn queries_over(alpha: &[u8], maxlen: usize) -> Vec<Query> {
    let mut out = vec![];
    let mut level: Vec<Vec<u8>> = vec![vec![]];
    out.push(mk_query("()".into(), vec![]));
    for _ in 0..maxlen {
        let mut next = vec![];
        for s in &level {
            for &c in alpha {
                let mut t = s.clone();
                t.push(c);
                out.push(mk_query(syms_str(&t), t.iter().map(|x| sym_hash(*x)).collect()));
                next.push(t);
            }
        }
        level = next;
    }
    out
}

#[derive(Default)]
struct Stats {
    evals: u64,
    hits: u64,
    partial: u64,
    collided: u64,
    keyed: u64,
    past_end: u64,
    misses: u64,
    miss_present: u64,
}
impl Stats {
    fn flush(&self, tag: &str, out: &mut Partial) {
        out.count("evals", self.evals);
        out.count(&format!("evals[{tag}]"), self.evals);
        out.count("vac:hits", self.hits);
        out.count(&format!("hits[{tag}]"), self.hits);
        out.count("vac:partial_hits", self.partial);
        out.count("vac:hits_past_colliding_prefix", self.collided);
        out.count(&format!("hits_past_colliding_prefix[{tag}]"), self.collided);
        out.count("vac:keyed_hits", self.keyed);
        out.count("vac:queries_running_past_xorb_end", self.past_end);
        out.count("misses", self.misses);
        out.count("info:misses_although_first_hash_is_stored", self.miss_present);
    }
}

/// Runs every query through `f`, judges each answer, records violations as `<sigpre><shape>`.
#[allow(clippy::too_many_arguments)]
fn eval(
    sigpre: &str,
    tag: &str,
    desc: &str,
    w: &World,
    qs: &[Query],
    m: &Mutation,
    replay: &Value,
    out: &mut Partial,
    mut f: impl FnMut(&Query) -> Obs,
) -> Vec<Obs> {
    let mut st = Stats::default();
    let mut res = Vec::with_capacity(qs.len());
    for q in qs {
        let obs = f(q);
        st.evals += 1;
        match judge(w, &q.hs, &obs, m) {
            Verdict::Miss { present } => {
                st.misses += 1;
                if present {
                    st.miss_present += 1;
                }
            },
            Verdict::Hit { partial, past_end, keyed, collided } => {
                st.hits += 1;
                st.partial += partial as u64;
                st.past_end += past_end as u64;
                st.keyed += keyed as u64;
                st.collided += collided as u64;
            },
            Verdict::Bad(shape, why) => {
                let mut r = replay.clone();
                r["impl"] = json!(tag);
                r["query"] = json!(q.label);
                out.violation(
                    &format!("{sigpre}{shape}"),
                    format!("[{tag}] query {} on {desc}: answer {}: {why}", q.label, obs_str(&obs)),
                    r,
                );
            },
        }
        res.push(obs);
    }
    if st.hits > 0 && st.misses > 0 {
        out.distinct(format!("{desc}:{tag}"));
    }
    st.flush(tag, out);
    res
}

// ------------------------------------------------------------------ execution context

static DIR_COUNTER: AtomicU64 = AtomicU64::new(0);

struct Ctx {
    rt: tokio::runtime::Runtime,
    root: PathBuf,
    m: Mutation,
    #[allow(dead_code)]
    prop: String,
    pre: Option<Arc<Prebuilt>>,
}
impl Ctx {
    fn new(root: &Path, prop: &str, pre: Option<Arc<Prebuilt>>) -> Ctx {
        Ctx {
            rt: tokio::runtime::Builder::new_current_thread().build().expect("tokio runtime"),
            root: root.to_path_buf(),
            m: mutation(),
            prop: prop.to_string(),
            pre,
        }
    }
    /// a directory no other case ever used (the repo caches shard files by path)
    fn fresh_dir(&self, tag: &str) -> PathBuf {
        let n = DIR_COUNTER.fetch_add(1, Ordering::SeqCst);
        let p = self.root.join(format!("{tag}{n}"));
        std::fs::create_dir_all(&p).expect("create case dir");
        p
    }
}
fn rm(p: &Path) {
    let _ = std::fs::remove_dir_all(p);
}

/// Runs a step of the code under test that must succeed for the observation to exist; a panic or
/// an error is reported as `<prop>/<site>-panicked|-failed`.
fn step<T>(
    prop: &str,
    site: &str,
    desc: &str,
    replay: &Value,
    out: &mut Partial,
    f: impl FnOnce() -> Result<T, String>,
) -> Option<T> {
    match catch_unwind(AssertUnwindSafe(f)) {
        Ok(Ok(v)) => Some(v),
        Ok(Err(e)) => {
            out.violation(&format!("{prop}/{site}-failed"), format!("{site} on {desc}: error: {e}"), replay.clone());
            None
        },
        Err(p) => {
            let loc = last_panic_loc();
            // the debug-build self check of shard files (MDBShardFile::verify_shard_integrity) is a
            // failing site of its own, whichever operation ran it
            let sig = if loc.contains("shard_file_handle.rs") { format!("{prop}/verify-shard-integrity-panicked") } else { format!("{prop}/{site}-panicked") };
            out.violation(&sig, format!("{site} on {desc}: panic: {} at {loc}", short_text(&panic_text(&p))), replay.clone());
            None
        },
    }
}
fn short_text(s: &str) -> String {
    let one: String = s.split_whitespace().collect::<Vec<_>>().join(" ");
    if one.len() > 260 {
        format!("{} ...[{} more characters]", &one[..260], one.len() - 260)
    } else {
        one
    }
}
fn es<E: std::fmt::Display>(e: E) -> String {
    e.to_string()
}

fn permutations(n: usize) -> Vec<Vec<usize>> {
    fn rec(cur: &mut Vec<usize>, n: usize, out: &mut Vec<Vec<usize>>) {
        if cur.len() == n {
            out.push(cur.clone());
            return;
        }
        for i in 0..n {
            if !cur.contains(&i) {
                cur.push(i);
                rec(cur, n, out);
                cur.pop();
            }
        }
    }
    let mut out = vec![];
    rec(&mut vec![], n, &mut out);
    out
}

fn mem_shard(xs: &[Xorb], order: &[usize]) -> MDBInMemoryShard {
    let mut mem = MDBInMemoryShard::default();
    for i in order {
        mem.add_cas_block(to_cas(&xs[*i])).expect("add_cas_block is infallible");
    }
    mem
}

// ------------------------------------------------------------------ C05: small shards, every implementation below the manager

fn run_small(ctx: &Ctx, idx: usize, xorbs: &[Vec<u8>], qs: &[Query], qlen: usize, out: &mut Partial) {
    let prop = "C05";
    let xs: Vec<Xorb> = xorbs.iter().map(|s| small_xorb(s)).collect();
    let desc = shard_str(xorbs);
    let replay = json!({"kind": "small", "xorbs": xorbs, "qlen": qlen, "case_index": idx});
    let m = &ctx.m;
    let mut w = World::default();
    for x in &xs {
        w.add(x, &ZERO, m);
    }
    out.count("shards_small", 1);
    // in-memory index, every insertion order (the index is last-writer-wins)
    for perm in permutations(xs.len()) {
        let mem = mem_shard(&xs, &perm);
        let tag = if perm.windows(2).all(|p| p[0] < p[1]) { "mem" } else { "mem-permuted" };
        eval("C05/", tag, &desc, &w, qs, m, &replay, out, |q| guarded(|| Ok(mem.chunk_hash_dedup_query(&q.mh))));
    }
    let ident: Vec<usize> = (0..xs.len()).collect();
    let mem = mem_shard(&xs, &ident);
    // serialized shard through MDBShardInfo
    let Some(buf) = step(prop, "serialize-from", &desc, &replay, out, || {
        let mut b = Vec::new();
        MDBShardInfo::serialize_from(&mut b, &mem).map_err(es)?;
        Ok(b)
    }) else {
        return;
    };
    if let Some(info) = step(prop, "load-from-reader", &desc, &replay, out, || MDBShardInfo::load_from_reader(&mut Cursor::new(&buf)).map_err(es)) {
        eval("C05/", "info", &desc, &w, qs, m, &replay, out, |q| {
            guarded(|| info.chunk_hash_dedup_query(&mut Cursor::new(&buf), &q.mh).map_err(es))
        });
    }
    // shard file
    let d = ctx.fresh_dir("s");
    let sf = step(prop, "write-to-directory", &desc, &replay, out, || {
        let p = mem.write_to_directory(&d).map_err(es)?;
        MDBShardFile::load_from_file(&p).map_err(es)
    });
    if let Some(sf) = sf {
        eval("C05/", "file", &desc, &w, qs, m, &replay, out, |q| guarded(|| sf.chunk_hash_dedup_query(&q.mh).map_err(es)));
        // the same shard re-exported under key k1, queried with unkeyed hashes
        let d2 = ctx.fresh_dir("k");
        let k1 = key_of(1);
        let kf = step(prop, "export-as-keyed-shard", &desc, &replay, out, || {
            sf.export_as_keyed_shard(&d2, to_mh(&k1), Duration::from_secs(1000), true, true, true).map_err(es)
        });
        if let Some(kf) = kf {
            let mut wk = World::default();
            for x in &xs {
                wk.add(x, &k1, m);
            }
            eval("C05/", "keyedfile", &desc, &wk, qs, m, &replay, out, |q| guarded(|| kf.chunk_hash_dedup_query(&q.mh).map_err(es)));
        }
        rm(&d2);
    }
    rm(&d);
    if idx == 40 {
        out.sample(json!({"case": "small shard", "xorbs": desc, "queries": qs.len(), "implementations": ["mem (all insertion orders)", "info", "file", "keyedfile"]}));
    }
}

// ------------------------------------------------------------------ C05: structured large shards

#[derive(Clone, Debug)]
struct LargeSpec {
    layout: Vec<usize>,
    /// 0 distinct hashes; 1 consecutive groups of `param` chunks share a 64-bit prefix;
    /// 2 the hash sequence repeats with period `param` (duplicates within and across xorbs);
    /// 3 chunk j shares its prefix with every chunk j' = j mod `param`
    mode: u8,
    param: u64,
}
impl LargeSpec {
    fn to_json(&self) -> Value {
        json!({"kind": "large", "layout": rle(&self.layout), "mode": self.mode, "param": self.param})
    }
    fn desc(&self) -> String {
        format!("large{{layout={:?},mode={},param={}}}", rle(&self.layout), self.mode, self.param)
    }
}
fn rle(l: &[usize]) -> Vec<(usize, usize)> {
    let mut out: Vec<(usize, usize)> = vec![];
    for x in l {
        match out.last_mut() {
            Some((v, c)) if *v == *x => *c += 1,
            _ => out.push((*x, 1)),
        }
    }
    out
}
fn unrle(v: &Value) -> Vec<usize> {
    let mut out = vec![];
    for p in v.as_array().cloned().unwrap_or_default() {
        let x = p[0].as_u64().unwrap_or(0) as usize;
        for _ in 0..p[1].as_u64().unwrap_or(0) {
            out.push(x);
        }
    }
    out
}
fn large_chunk_hash(j: u64, mode: u8, param: u64) -> RH {
    let p = param.max(1);
    match mode {
        0 => hw([mix(j), mix(j ^ 0x55), j, 0xD15]),
        1 => hw([mix(0x1000_0000 + j / p), mix(j ^ 0x55), j, 0xC011]),
        2 => hw([mix(j % p), mix((j % p) ^ 0x55), j % p, 0xD15]),
        _ => hw([mix(0x2000_0000 + j % p), mix(j ^ 0x55), j, 0xC012]),
    }
}
fn large_xorbs(s: &LargeSpec) -> Vec<Xorb> {
    let mut j = 0u64;
    let mut out = vec![];
    for (i, n) in s.layout.iter().enumerate() {
        let mut chunks = Vec::with_capacity(*n);
        for _ in 0..*n {
            chunks.push((large_chunk_hash(j, s.mode, s.param), 1000 + ((j % 997) as u32) * 3 + 1));
            j += 1;
        }
        out.push(Xorb {
            hash: hw([mix(0xABCD_0000 + i as u64), i as u64, 0xCA5, 0x1A26E]),
            chunks,
        });
    }
    out
}
/// Queries for a large shard: windows of the global chunk sequence that start near xorb starts /
/// middles / ends, with lengths that stop short of, exactly at, and beyond the xorb end (beyond =
/// continuing with the next xorb's chunks, or absent hashes after the last), each also with one
/// hash in the middle replaced by an absent one; plus absent-first queries.
fn large_queries(xs: &[Xorb]) -> Vec<Query> {
    let global: Vec<RH> = xs.iter().flat_map(|x| x.chunks.iter().map(|c| c.0)).collect();
    let total = global.len();
    let absent = |i: usize| hw([mix(0xDEAD_0000 + i as u64), 0xAB5E, i as u64, 7]);
    let mut out = vec![mk_query("()".into(), vec![]), mk_query("absent".into(), vec![absent(0)]), mk_query("absent,absent".into(), vec![absent(0), absent(1)])];
    let nx = xs.len();
    let sel: Vec<usize> = if nx <= 64 {
        (0..nx).collect()
    } else {
        let mut s: BTreeSet<usize> = (0..8).chain(nx - 8..nx).collect();
        let stride = (nx / 48).max(1);
        s.extend((0..nx).step_by(stride));
        s.into_iter().collect()
    };
    let mut base = vec![0usize; nx + 1];
    for i in 0..nx {
        base[i + 1] = base[i] + xs[i].chunks.len();
    }
    for &xi in &sel {
        let n = xs[xi].chunks.len();
        if n == 0 {
            continue;
        }
        let starts: BTreeSet<usize> = if total <= 64 {
            (0..n).collect()
        } else {
            [0usize, 1, 2, n / 2, n.saturating_sub(3), n.saturating_sub(2), n - 1, 255, 256, 257, 65534, 65535, 65536, 65537]
                .into_iter()
                .filter(|p| *p < n)
                .collect()
        };
        for p in starts {
            let rem = n - p;
            let lens: BTreeSet<usize> = [1usize, 2, 3, 5, rem.saturating_sub(1), rem, rem + 1, rem + 3].into_iter().filter(|l| *l > 0).collect();
            for l in lens {
                let g = base[xi] + p;
                let hs: Vec<RH> = (0..l).map(|i| if g + i < total { global[g + i] } else { absent(100 + i) }).collect();
                out.push(mk_query(format!("x{xi}+{p}..+{l}"), hs.clone()));
                if l >= 2 {
                    let mut c = hs;
                    c[l / 2] = absent(50);
                    out.push(mk_query(format!("x{xi}+{p}..+{l} (hash {} replaced)", l / 2), c));
                }
            }
        }
        // a never-stored hash that shares the 64-bit prefix of this xorb's first chunk
        let mut y = xs[xi].chunks[0].0;
        y[31] ^= 0x80;
        let mut hs = vec![y];
        if n > 1 {
            hs.push(xs[xi].chunks[1].0);
        }
        out.push(mk_query(format!("x{xi}: prefix twin of chunk 0"), hs));
    }
    out
}

fn run_large(ctx: &Ctx, idx: usize, s: &LargeSpec, out: &mut Partial) {
    let prop = "C05";
    let xs = large_xorbs(s);
    let desc = s.desc();
    let mut replay = s.to_json();
    replay["case_index"] = json!(idx);
    let m = &ctx.m;
    let mut w = World::default();
    for x in &xs {
        w.add(x, &ZERO, m);
    }
    let qs = large_queries(&xs);
    out.count("shards_large", 1);
    out.max("max:chunks_in_one_shard", xs.iter().map(|x| x.chunks.len() as u64).sum());
    let ident: Vec<usize> = (0..xs.len()).collect();
    let mem = mem_shard(&xs, &ident);
    eval("C05/", "large-mem", &desc, &w, &qs, m, &replay, out, |q| guarded(|| Ok(mem.chunk_hash_dedup_query(&q.mh))));
    if let Some(buf) = step(prop, "serialize-from", &desc, &replay, out, || {
        let mut b = Vec::new();
        MDBShardInfo::serialize_from(&mut b, &mem).map_err(es)?;
        Ok(b)
    }) {
        if let Some(info) = step(prop, "load-from-reader", &desc, &replay, out, || MDBShardInfo::load_from_reader(&mut Cursor::new(&buf)).map_err(es)) {
            eval("C05/", "large-info", &desc, &w, &qs, m, &replay, out, |q| {
                guarded(|| info.chunk_hash_dedup_query(&mut Cursor::new(&buf), &q.mh).map_err(es))
            });
        }
    }
    let d = ctx.fresh_dir("l");
    if let Some(sf) = step(prop, "write-to-directory", &desc, &replay, out, || {
        let p = mem.write_to_directory(&d).map_err(es)?;
        MDBShardFile::load_from_file(&p).map_err(es)
    }) {
        eval("C05/", "large-file", &desc, &w, &qs, m, &replay, out, |q| guarded(|| sf.chunk_hash_dedup_query(&q.mh).map_err(es)));
    } else if let Some(n) = shard_names(&d).first() {
        // reported above; the file itself was written before the self check ran, so its answers can
        // still be observed (load_from_file does not run the check)
        if let Ok(sf) = MDBShardFile::load_from_file(&d.join(n)) {
            eval("C05/", "large-file-after-failed-self-check", &desc, &w, &qs, m, &replay, out, |q| guarded(|| sf.chunk_hash_dedup_query(&q.mh).map_err(es)));
        }
    }
    rm(&d);
    // the manager: unflushed, then flushed
    let d = ctx.fresh_dir("lm");
    if let Some(mgr) = step(prop, "manager-open", &desc, &replay, out, || ctx.rt.block_on(ShardFileManager::new_in_session_directory(&d)).map_err(es)) {
        let added = step(prop, "manager-add-cas-block", &desc, &replay, out, || {
            for x in &xs {
                ctx.rt.block_on(mgr.add_cas_block(to_cas(x))).map_err(es)?;
            }
            Ok(())
        });
        if added.is_some() {
            eval("C05/", "large-manager-unflushed", &desc, &w, &qs[1..], m, &replay, out, |q| {
                guarded(|| ctx.rt.block_on(mgr.chunk_hash_dedup_query(&q.mh)).map_err(es))
            });
            if step(prop, "manager-flush", &desc, &replay, out, || ctx.rt.block_on(mgr.flush()).map_err(es)).is_some() {
                eval("C05/", "large-manager-flushed", &desc, &w, &qs[1..], m, &replay, out, |q| {
                    guarded(|| ctx.rt.block_on(mgr.chunk_hash_dedup_query(&q.mh)).map_err(es))
                });
            }
        }
    }
    rm(&d);
    if idx % 1_000_000 == 30 || idx % 1_000_000 == 75 {
        out.sample(json!({"case": "large shard", "spec": s.to_json(), "queries": qs.len()}));
    }
}

// ------------------------------------------------------------------ C05: histories of the real ShardFileManager

#[derive(Clone, Copy, PartialEq, Eq, PartialOrd, Ord, Debug)]
enum Op {
    Add(u8),
    Flush,
    RegPlain,
    RegKeyed(u8),
    Consolidate,
    Refresh,
}
const OPS: [Op; 9] = [Op::Add(0), Op::Add(1), Op::Add(2), Op::Flush, Op::RegPlain, Op::RegKeyed(1), Op::RegKeyed(2), Op::Consolidate, Op::Refresh];
fn op_name(o: Op) -> String {
    match o {
        Op::Add(i) => format!("add{i}"),
        Op::Flush => "flush".into(),
        Op::RegPlain => "regplain".into(),
        Op::RegKeyed(k) => format!("regkeyed{k}"),
        Op::Consolidate => "consolidate".into(),
        Op::Refresh => "refresh".into(),
    }
}
fn op_parse(s: &str) -> Option<Op> {
    OPS.iter().copied().find(|o| op_name(*o) == s)
}
/// the xorbs a history may add one by one
fn menu() -> Vec<Vec<u8>> {
    vec![vec![0, 2, 4], vec![1, 0, 3], vec![0, 1, 2]] // ACE, BAD, ABC
}
fn plain_shard() -> Vec<Vec<u8>> {
    vec![vec![2, 0], vec![3, 4, 1]] // CA, DEB
}
fn keyed_shard(k: u8) -> (Vec<Vec<u8>>, (bool, bool, bool)) {
    if k == 1 {
        (vec![vec![0, 1, 2], vec![4, 3]], (true, true, true)) // ABC (also in the menu), ED; with lookup tables
    } else {
        (vec![vec![3, 3, 0], vec![1]], (false, false, false)) // DDA, B; without file info and lookup tables
    }
}

struct PreShard {
    name: String,
    bytes: Vec<u8>,
    xorbs: Vec<Xorb>,
    key: RH,
}
/// shard files built once (by the real code) and copied into every history that registers them
struct Prebuilt {
    plain: PreShard,
    keyed: BTreeMap<u8, PreShard>,
}
fn prebuild(root: &Path) -> Result<Prebuilt, String> {
    let build = |xorbs: &[Vec<u8>], key: u8, flags: (bool, bool, bool), tag: &str| -> Result<PreShard, String> {
        let xs: Vec<Xorb> = xorbs.iter().map(|s| small_xorb(s)).collect();
        let mem = mem_shard(&xs, &(0..xs.len()).collect::<Vec<_>>());
        let d = root.join(format!("forge-{tag}"));
        std::fs::create_dir_all(&d).map_err(es)?;
        let p = mem.write_to_directory(&d).map_err(es)?;
        let path = if key == 0 {
            p
        } else {
            let sf = MDBShardFile::load_from_file(&p).map_err(es)?;
            let d2 = root.join(format!("forge-{tag}-keyed"));
            std::fs::create_dir_all(&d2).map_err(es)?;
            sf.export_as_keyed_shard(&d2, to_mh(&key_of(key)), Duration::from_secs(1_000_000), flags.0, flags.1, flags.2)
                .map_err(es)?
                .path
                .clone()
        };
        Ok(PreShard {
            name: path.file_name().unwrap().to_string_lossy().to_string(),
            bytes: std::fs::read(&path).map_err(es)?,
            xorbs: xs,
            key: key_of(key),
        })
    };
    let r = catch_unwind(AssertUnwindSafe(|| -> Result<Prebuilt, String> {
        let mut keyed = BTreeMap::new();
        for k in [1u8, 2] {
            let (x, f) = keyed_shard(k);
            keyed.insert(k, build(&x, k, f, &format!("k{k}"))?);
        }
        Ok(Prebuilt {
            plain: build(&plain_shard(), 0, (true, true, true), "plain")?,
            keyed,
        })
    }));
    match r {
        Ok(v) => v,
        Err(p) => Err(format!("panic: {} at {}", panic_text(&p), last_panic_loc())),
    }
}

fn set_mtime(p: &Path, secs: i64) {
    use std::os::unix::ffi::OsStrExt;
    let c = std::ffi::CString::new(p.as_os_str().as_bytes()).unwrap();
    let ts = [libc::timespec { tv_sec: secs, tv_nsec: 0 }, libc::timespec { tv_sec: secs, tv_nsec: 0 }];
    unsafe {
        libc::utimensat(libc::AT_FDCWD, c.as_ptr(), ts.as_ptr(), 0);
    }
}
fn shard_names(d: &Path) -> Vec<String> {
    let mut v: Vec<String> = std::fs::read_dir(d)
        .map(|rd| rd.flatten().map(|e| e.file_name().to_string_lossy().to_string()).filter(|n| n.ends_with(".mdb")).collect())
        .unwrap_or_default();
    v.sort();
    v
}
/// copies the shard files of `src` into the fresh directory `dst` with mtimes T0+1, T0+2, .. in
/// name order (fresh paths are not in the repo's shard-file cache, so these mtimes are what it sees)
fn copy_shards_with_mtimes(src: &Path, dst: &Path) -> usize {
    std::fs::create_dir_all(dst).expect("create copy dir");
    let names = shard_names(src);
    for (i, n) in names.iter().enumerate() {
        std::fs::copy(src.join(n), dst.join(n)).expect("copy shard");
        set_mtime(&dst.join(n), T0 + 1 + i as i64);
    }
    names.len()
}

struct HistOut {
    /// canonical form of the property-relevant observable state reached by the history
    key: String,
}

fn run_history(ctx: &Ctx, idx: usize, ops: &[Op], qs: &[Query], qlen: usize, out: &mut Partial) -> Option<HistOut> {
    let prop = "C05";
    let pre = ctx.pre.as_ref().expect("prebuilt shards");
    let names: Vec<String> = ops.iter().map(|o| op_name(*o)).collect();
    let desc = format!("history [{}]", names.join(" "));
    let replay = json!({"kind": "history", "ops": names, "qlen": qlen, "case_index": idx});
    let m = &ctx.m;
    let dir = ctx.fresh_dir("h");
    let ext = dir.join("ext");
    std::fs::create_dir_all(&ext).expect("ext dir");
    let menu: Vec<Xorb> = menu().iter().map(|s| small_xorb(s)).collect();
    let mut w = World::default();
    let mut pending: BTreeSet<u8> = BTreeSet::new();
    out.count("histories", 1);
    let mgr = step(prop, "manager-open", &desc, &replay, out, || ctx.rt.block_on(ShardFileManager::new_in_session_directory(&dir)).map_err(es));
    let Some(mgr) = mgr else {
        rm(&dir);
        return None;
    };
    for (i, op) in ops.iter().enumerate() {
        let site = match op {
            Op::Add(_) => "manager-add-cas-block",
            Op::Flush => "manager-flush",
            Op::RegPlain => "manager-register-shards-by-path",
            Op::RegKeyed(_) => "manager-register-shards",
            Op::Consolidate => "consolidate-shards-in-directory",
            Op::Refresh => "manager-refresh-shard-dir",
        };
        let sdesc = format!("{desc} at step {i}");
        let ok = step(prop, site, &sdesc, &replay, out, || {
            match op {
                Op::Add(k) => {
                    ctx.rt.block_on(mgr.add_cas_block(to_cas(&menu[*k as usize]))).map_err(es)?;
                },
                Op::Flush => {
                    ctx.rt.block_on(mgr.flush()).map_err(es)?;
                },
                Op::RegPlain => {
                    let p = ext.join(&pre.plain.name);
                    if !p.exists() {
                        std::fs::write(&p, &pre.plain.bytes).map_err(es)?;
                    }
                    ctx.rt.block_on(mgr.register_shards_by_path(&[&p])).map_err(es)?;
                },
                Op::RegKeyed(k) => {
                    let ps = &pre.keyed[k];
                    let p = ext.join(&ps.name);
                    if !p.exists() {
                        std::fs::write(&p, &ps.bytes).map_err(es)?;
                    }
                    let sf = MDBShardFile::load_from_file(&p).map_err(es)?;
                    ctx.rt.block_on(mgr.register_shards(&[sf])).map_err(es)?;
                },
                Op::Consolidate => {
                    consolidate_shards_in_directory(&dir, 1 << 20).map_err(es)?;
                },
                Op::Refresh => {
                    ctx.rt.block_on(mgr.refresh_shard_dir()).map_err(es)?;
                },
            }
            Ok(())
        });
        if ok.is_none() {
            rm(&dir);
            return None;
        }
        match op {
            Op::Add(k) => {
                w.add(&menu[*k as usize], &ZERO, m);
                pending.insert(*k);
            },
            Op::Flush => pending.clear(),
            Op::RegPlain => {
                for x in &pre.plain.xorbs {
                    w.add(x, &ZERO, m);
                }
            },
            Op::RegKeyed(k) => {
                for x in &pre.keyed[k].xorbs {
                    w.add(x, &pre.keyed[k].key, m);
                }
            },
            Op::Consolidate | Op::Refresh => {},
        }
    }
    // the empty query: the statement constrains only answers; whether the manager survives it is logged
    match catch_unwind(AssertUnwindSafe(|| ctx.rt.block_on(mgr.chunk_hash_dedup_query(&[])))) {
        Ok(Ok(None)) => out.count("info:manager_empty_query_answers_none", 1),
        Ok(Ok(Some(_))) => out.violation("C05/zero-length-hit", format!("[manager] the empty query is answered with a hit on {desc}"), replay.clone()),
        Ok(Err(_)) => out.count("info:manager_empty_query_returns_error", 1),
        Err(_) => out.count("info:manager_empty_query_panics", 1),
    }
    let answers = eval("C05/", "manager", &desc, &w, &qs[1..], m, &replay, out, |q| {
        guarded(|| ctx.rt.block_on(mgr.chunk_hash_dedup_query(&q.mh)).map_err(es))
    });
    // canonical state: what is pending in memory, which shard files exist, which are registered, and every answer
    let registered = ctx.rt.block_on(mgr.registered_shard_list()).map(|l| {
        let mut v: Vec<String> = l.iter().map(|s| refmodel::hex(&from_mh(&s.shard_hash))[..16].to_string()).collect();
        v.sort();
        v
    });
    let mut hasher = blake3::Hasher::new();
    for a in &answers {
        hasher.update(obs_str(a).as_bytes());
        hasher.update(b"\n");
    }
    let key = format!(
        "pending={:?};dir={:?};ext={:?};registered={:?};answers={}",
        pending,
        shard_names(&dir).iter().map(|n| n[..16].to_string()).collect::<Vec<_>>(),
        shard_names(&ext).iter().map(|n| n[..16].to_string()).collect::<Vec<_>>(),
        registered.unwrap_or_default(),
        &hasher.finalize().to_hex()[..24]
    );
    drop(mgr);
    // second observation: a new manager over a copy of what is on disk (unflushed xorbs are gone;
    // the oracle is soundness, so the world of everything ever added still applies)
    let re = ctx.fresh_dir("r");
    let n_top = copy_shards_with_mtimes(&dir, &re);
    let n_ext = copy_shards_with_mtimes(&ext, &re.join("ext"));
    let sdesc = format!("{desc}, reopened on a copy ({n_top} session shards, {n_ext} external)");
    if let Some(m2) = step(prop, "manager-reopen", &sdesc, &replay, out, || {
        let m2 = ctx.rt.block_on(ShardFileManager::new_in_session_directory(&re)).map_err(es)?;
        ctx.rt.block_on(m2.register_shards_by_path(&[re.join("ext")])).map_err(es)?;
        Ok(m2)
    }) {
        eval("C05/", "manager-reopened", &sdesc, &w, &qs[1..], m, &replay, out, |q| {
            guarded(|| ctx.rt.block_on(m2.chunk_hash_dedup_query(&q.mh)).map_err(es))
        });
    }
    rm(&re);
    rm(&dir);
    if ops.len() == 3 && idx % 97 == 0 {
        out.sample(json!({"case": "manager history", "ops": names, "state": key}));
    }
    Some(HistOut { key })
}

// ------------------------------------------------------------------ C05: a collection of more than 2^16 shards

/// One manager over 65536 + 6 shards registered in a fixed order.  Shards 0..3 each hold two xorbs
/// (a 3-, 2- or 4-chunk one followed by one holding the chunks c_k, d_k); shards 3..65536 are one-chunk
/// fillers; shards 65536..65539 hold a xorb in which c_k, d_k sit at the same entry position as in shard k,
/// and shards 65539..65542 a few more stored chunks.  The manager's per-chunk index records the shard
/// position in 16 bits; every query is judged for truthfulness against the model of everything registered.
fn run_many_shards(ctx: &Ctx, out: &mut Partial) {
    let prop = "C05";
    let desc = "65542 shards in one collection".to_string();
    let replay = json!({"kind": "many-shards"});
    let m = &ctx.m;
    let dir = ctx.fresh_dir("many");
    // registered shards have to live under the manager's directory (a sub-directory keeps them out of its own scan)
    let store = dir.join("session").join("store");
    std::fs::create_dir_all(&store).expect("store dir");
    let ch = |tag: u64, j: u64| -> (RH, u32) { (hw([mix(0x3A00_0000_0000 + tag * 1000 + j), tag, j, 0x3A17]), 700 + (tag * 37 + j * 11) as u32 % 900) };
    let xh = |tag: u64| -> RH { hw([mix(0x3B00_0000_0000 + tag), tag, 0xCA5, 0x3A17]) };
    let mut shards: Vec<Vec<Xorb>> = vec![];
    let lead = [3u64, 2, 4];
    for k in 0..3u64 {
        // shard k: X1_k = `lead[k]` chunks, X2_k = [c_k, d_k]
        let x1 = Xorb { hash: xh(10 + k), chunks: (0..lead[k as usize]).map(|j| ch(10 + k, j)).collect() };
        let x2 = Xorb { hash: xh(20 + k), chunks: vec![ch(30 + k, 0), ch(30 + k, 1)] };
        shards.push(vec![x1, x2]);
    }
    for f in 3..65536u64 {
        shards.push(vec![Xorb { hash: xh(1_000_000 + f), chunks: vec![ch(1_000_000 + f, 0)] }]);
    }
    for k in 0..3u64 {
        // shard 65536 + k: Y_k = lead[k] + 1 own chunks, then c_k, d_k, then one more: c_k is entry #(lead[k] + 2)
        // counted over xorb headers and chunk entries, exactly where shard k has it
        let mut chunks: Vec<(RH, u32)> = (0..lead[k as usize] + 1).map(|j| ch(40 + k, j)).collect();
        chunks.push(ch(30 + k, 0));
        chunks.push(ch(30 + k, 1));
        chunks.push(ch(40 + k, 99));
        shards.push(vec![Xorb { hash: xh(40 + k), chunks }]);
    }
    for k in 0..3u64 {
        shards.push(vec![Xorb { hash: xh(50 + k), chunks: (0..3).map(|j| ch(50 + k, j)).collect() }]);
    }
    let mut w = World::default();
    let mut files = vec![];
    let built = step(prop, "write-many-shards", &desc, &replay, out, || {
        for xs in &shards {
            let order: Vec<usize> = (0..xs.len()).collect();
            let p = mem_shard(xs, &order).write_to_directory(&store).map_err(es)?;
            files.push(MDBShardFile::load_from_file(&p).map_err(es)?);
        }
        Ok(())
    });
    if built.is_none() {
        rm(&dir);
        return;
    }
    for xs in &shards {
        for x in xs {
            w.add(x, &ZERO, m);
        }
    }
    let mgr = step(prop, "manager-open", &desc, &replay, out, || {
        let mgr = ctx.rt.block_on(ShardFileManager::new_in_session_directory(&dir.join("session"))).map_err(es)?;
        for f in &files {
            ctx.rt.block_on(mgr.register_shards(&[f.clone()])).map_err(es)?;
        }
        Ok(mgr)
    });
    if let Some(mgr) = mgr {
        // queries: every window of length 1..=3 of every xorb of the first and last shards, the pairs
        // (c_k, d_k), a few fillers and absent hashes
        let mut qs: Vec<Query> = vec![];
        let interesting: Vec<&Vec<Xorb>> = shards[..4].iter().chain(shards[65534..].iter()).collect();
        for xs in interesting {
            for x in xs {
                for a in 0..x.chunks.len() {
                    for b in a + 1..=(a + 3).min(x.chunks.len()) {
                        qs.push(mk_query(format!("{}[{a},{b})", &hx(&x.hash)[..8]), x.chunks[a..b].iter().map(|c| c.0).collect()));
                    }
                }
            }
        }
        for k in 0..3u64 {
            qs.push(mk_query(format!("c{k}d{k}+absent"), vec![ch(30 + k, 0).0, ch(30 + k, 1).0, ch(999, k).0]));
            qs.push(mk_query(format!("absent{k}"), vec![ch(998, k).0]));
        }
        out.count("many_shards_registered", shards.len() as u64);
        out.count("many_shards_queries", qs.len() as u64);
        eval("C05/", "manager-many-shards", &desc, &w, &qs, m, &replay, out, |q| guarded(|| ctx.rt.block_on(mgr.chunk_hash_dedup_query(&q.mh)).map_err(es)));
    }
    rm(&dir);
}

// ------------------------------------------------------------------ parallel driver

const THREADS: usize = 16;

/// Runs `f` on every item over THREADS threads (each with its own Ctx); results come back in item order.
fn par_run<T: Sync, R: Send>(
    items: &[T],
    root: &Path,
    prop: &str,
    pre: Option<Arc<Prebuilt>>,
    f: impl Fn(&Ctx, usize, &T, &mut Partial) -> R + Sync,
) -> (Vec<R>, Partial) {
    let next = AtomicUsize::new(0);
    let results: Mutex<Vec<(usize, R)>> = Mutex::new(Vec::with_capacity(items.len()));
    let partials: Mutex<Vec<Partial>> = Mutex::new(vec![]);
    std::thread::scope(|s| {
        for t in 0..THREADS.min(items.len()).max(1) {
            let (next, results, partials, f, pre) = (&next, &results, &partials, &f, pre.clone());
            s.spawn(move || {
                let ctx = Ctx::new(&root.join(format!("t{t}")), prop, pre);
                let mut out = Partial::default();
                let mut local = vec![];
                loop {
                    let i = next.fetch_add(1, Ordering::SeqCst);
                    if i >= items.len() {
                        break;
                    }
                    local.push((i, f(&ctx, i, &items[i], &mut out)));
                }
                results.lock().unwrap().extend(local);
                partials.lock().unwrap().push(out);
            });
        }
    });
    let mut r = results.into_inner().unwrap();
    r.sort_by_key(|x| x.0);
    let mut all = Partial::default();
    for p in partials.into_inner().unwrap() {
        all.merge_keep_all(p);
    }
    (r.into_iter().map(|x| x.1).collect(), all)
}

trait MergeAll {
    fn merge_keep_all(&mut self, o: Partial);
}
impl MergeAll for Partial {
    /// like merge, but keeps every violation (normalise() picks the first three per signature later)
    fn merge_keep_all(&mut self, mut o: Partial) {
        let v = std::mem::take(&mut o.violations);
        let s = std::mem::take(&mut o.samples);
        self.merge(o);
        self.violations.extend(v);
        self.samples.extend(s);
    }
}
/// deterministic choice of what is kept: violations by (signature, case index), three per
/// signature; samples by text
fn normalise(all: &mut Partial) {
    all.violations.sort_by(|a, b| {
        (a.signature.clone(), a.replay["case_index"].as_u64().unwrap_or(0), a.what.clone()).cmp(&(
            b.signature.clone(),
            b.replay["case_index"].as_u64().unwrap_or(0),
            b.what.clone(),
        ))
    });
    let mut seen: BTreeMap<String, usize> = BTreeMap::new();
    all.violations.retain(|v| {
        let c = seen.entry(v.signature.clone()).or_default();
        *c += 1;
        *c <= 3
    });
    all.samples.sort_by_key(|s| s.to_string());
    all.samples.dedup();
    all.samples.truncate(6);
    all.notes.sort();
    all.notes.dedup();
}

// ------------------------------------------------------------------ families

/// all chunk sequences of length 1..=max over the stored symbols A..E
fn xorb_seqs(max: usize) -> Vec<Vec<u8>> {
    seqs_over(&[0, 1, 2, 3, 4], max)
}
fn seqs_over(alpha: &[u8], max: usize) -> Vec<Vec<u8>> {
    let mut out = vec![];
    let mut level: Vec<Vec<u8>> = vec![vec![]];
    for _ in 0..max {
        let mut next = vec![];
        for s in &level {
            for &c in alpha {
                let mut t = s.clone();
                t.push(c);
                next.push(t);
            }
        }
        out.extend(next.iter().cloned());
        level = next;
    }
    out
}
fn subsets_upto(items: &[Vec<u8>], k: usize) -> Vec<Vec<Vec<u8>>> {
    let mut out = vec![vec![]];
    let n = items.len();
    if k >= 1 {
        for a in 0..n {
            out.push(vec![items[a].clone()]);
        }
    }
    if k >= 2 {
        for a in 0..n {
            for b in a + 1..n {
                out.push(vec![items[a].clone(), items[b].clone()]);
            }
        }
    }
    out
}
fn subsets_exactly3(items: &[Vec<u8>]) -> Vec<Vec<Vec<u8>>> {
    let n = items.len();
    let mut out = vec![];
    for a in 0..n {
        for b in a + 1..n {
            for c in b + 1..n {
                out.push(vec![items[a].clone(), items[b].clone(), items[c].clone()]);
            }
        }
    }
    out
}
/// shards holding a xorb without chunks
fn empty_xorb_shards() -> Vec<Vec<Vec<u8>>> {
    vec![vec![vec![]], vec![vec![], vec![0]], vec![vec![], vec![0, 1], vec![2]], vec![vec![], vec![4, 4, 4]]]
}
/// C05 small family.  quick: every set of <= 2 xorbs of <= 2 chunks, every single xorb of 3 chunks.
/// thorough: every set of <= 2 xorbs of <= 3 chunks, every set of 3 xorbs of <= 2 chunks.
fn small_family(tier: Tier) -> Vec<Vec<Vec<u8>>> {
    let mut out;
    match tier {
        Tier::Quick => {
            out = subsets_upto(&xorb_seqs(2), 2);
            out.extend(xorb_seqs(3).into_iter().filter(|s| s.len() == 3).map(|s| vec![s]));
        },
        Tier::Thorough => {
            out = subsets_upto(&xorb_seqs(3), 2);
            out.extend(subsets_exactly3(&xorb_seqs(2)));
        },
    }
    out.extend(empty_xorb_shards());
    out
}
fn large_family(tier: Tier) -> Vec<LargeSpec> {
    let mut layouts: Vec<Vec<usize>> = vec![
        vec![1], vec![2], vec![3], vec![8], vec![9], vec![20], vec![21], vec![22], vec![32], vec![33], vec![34], vec![40], vec![255], vec![256], vec![257], vec![1000], vec![2999], vec![3000],
        vec![1, 1, 1], vec![1, 2, 3, 4, 5], vec![3, 1, 3], vec![7, 0, 7], vec![0, 5], vec![16, 16], vec![100; 30], vec![1; 300], vec![1000, 1000, 1000], vec![1; 3000],
        vec![2999, 1], vec![1, 2999],
    ];
    if tier == Tier::Thorough {
        for n in 4..=64usize {
            if ![8, 9, 20, 21, 22, 32, 33, 34, 40].contains(&n) {
                layouts.push(vec![n]);
            }
            layouts.push(vec![n, n]);
            layouts.push(vec![1, n, 2]);
        }
        for n in [500usize, 1500, 2000, 2500] {
            layouts.push(vec![n]);
            layouts.push(vec![n, 3000 - n]);
        }
        layouts.push(vec![10; 300]);
        layouts.push(vec![3; 1000]);
    }
    let all_modes: Vec<(u8, u64)> = vec![(0, 0), (1, 2), (1, 8), (1, 9), (1, 20), (2, 1), (2, 2), (2, 7), (3, 5), (3, 2)];
    let big_modes: Vec<(u8, u64)> = vec![(0, 0), (1, 2), (1, 9), (2, 7), (3, 5)];
    let mut out = vec![];
    for l in layouts {
        let total: usize = l.iter().sum();
        let modes = if total <= 300 || tier == Tier::Thorough { &all_modes } else { &big_modes };
        for (mode, param) in modes {
            out.push(LargeSpec { layout: l.clone(), mode: *mode, param: *param });
        }
    }
    if tier == Tier::Thorough {
        // a xorb longer than 65536 chunks: the manager's index keeps 16-bit chunk offsets
        out.push(LargeSpec { layout: vec![66000], mode: 0, param: 0 });
        out.push(LargeSpec { layout: vec![3, 66000, 3], mode: 1, param: 2 });
    }
    // simplest first, so that the first violation of a signature is the smallest shard showing it
    out.sort_by_key(|s| (s.layout.iter().sum::<usize>(), s.layout.len()));
    out
}

// ------------------------------------------------------------------ C05: prefix collisions inside a keyed shard

/// every set of <= 2 xorbs of <= 3 chunks over {F, G, A}: F and G collide only after HMAC under k1
fn kc_family() -> Vec<Vec<Vec<u8>>> {
    subsets_upto(&seqs_over(&[7, 8, 0], 3), 2)
}
fn run_kc(ctx: &Ctx, idx: usize, xorbs: &[Vec<u8>], qs: &[Query], out: &mut Partial) {
    let prop = "C05";
    let xs: Vec<Xorb> = xorbs.iter().map(|s| small_xorb(s)).collect();
    let desc = format!("{} exported under k1", shard_str(xorbs));
    let replay = json!({"kind": "kc", "xorbs": xorbs, "case_index": idx});
    let m = &ctx.m;
    let k1 = key_of(1);
    let mut wk = World::default();
    for x in &xs {
        wk.add(x, &k1, m);
    }
    out.count("shards_keyed_collision", 1);
    let Some((d_o, sf)) = step(prop, "write-to-directory", &desc, &replay, out, || build_plain(ctx, &xs, &[], "kc")) else { return };
    for (flags, tag) in [((true, true, true), "with-tables"), ((false, false, false), "without-tables")] {
        let d = ctx.fresh_dir("kd");
        if let Some(kf) = step(prop, "export-as-keyed-shard", &desc, &replay, out, || {
            sf.export_as_keyed_shard(&d, to_mh(&k1), Duration::from_secs(1000), flags.0, flags.1, flags.2).map_err(es)
        }) {
            eval("C05/", &format!("kc-keyedfile-{tag}"), &desc, &wk, qs, m, &replay, out, |q| guarded(|| kf.chunk_hash_dedup_query(&q.mh).map_err(es)));
            if let Some(mgr) = step(prop, "manager-open", &desc, &replay, out, || ctx.rt.block_on(ShardFileManager::new_in_session_directory(&d)).map_err(es)) {
                eval("C05/", &format!("kc-manager-{tag}"), &desc, &wk, &qs[1..], m, &replay, out, |q| {
                    guarded(|| ctx.rt.block_on(mgr.chunk_hash_dedup_query(&q.mh)).map_err(es))
                });
            }
        }
        rm(&d);
    }
    rm(&d_o);
    if idx == 3_000_040 {
        out.sample(json!({"case": "keyed shard whose keyed hashes collide in the 64-bit prefix", "xorbs": shard_str(xorbs), "queries": qs.len()}));
    }
}

// ------------------------------------------------------------------ C05 main

fn main_c05(args: &Args) -> ! {
    let mut run = Run::new(args, "C05", "model_checking");
    let scratch = Scratch::new("sdd");
    let tier = args.tier;
    vcore::vfs::set_clock(Some(T0));
    check_alphabet();
    let pre = Arc::new(prebuild(scratch.path()).unwrap_or_else(|e| machinery_error(&format!("building the pre-built shards failed: {e}"))));
    let mut all = Partial::default();

    if let Some(rp) = &args.replay {
        let r = read_replay(rp);
        let ctx = Ctx::new(&scratch.path().join("replay"), "C05", Some(pre.clone()));
        replay_c05(&ctx, &r, &mut all);
        finish_c05(run, scratch, all, 0, 0, 0, 0);
    }

    let qlen = 4;
    let qs = all_queries(qlen);
    // 1. small shards x all queries x {mem (all orders), info, file, keyedfile}
    let fam = small_family(tier);
    let (_, p) = par_run(&fam, scratch.path(), "C05", None, |ctx, i, x, out| run_small(ctx, i, x, &qs, qlen, out));
    all.merge_keep_all(p);
    // 2. structured large shards
    let lf = large_family(tier);
    let (_, p) = par_run(&lf, scratch.path(), "C05", None, |ctx, i, s, out| run_large(ctx, 1_000_000 + i, s, out));
    all.merge_keep_all(p);
    // 2b. keyed shards whose keyed hashes collide in the 64-bit prefix
    let kf = kc_family();
    let kq = kc_queries(4);
    let (_, p) = par_run(&kf, scratch.path(), "C05", None, |ctx, i, x, out| run_kc(ctx, 3_000_000 + i, x, &kq, out));
    all.merge_keep_all(p);
    run.set("keyed_collision_shards", json!(kf.len()));
    // 3. breadth-first search over manager histories
    let depth = tier.pick(4, 6);
    let mut visited: BTreeSet<String> = BTreeSet::new();
    let mut frontier: Vec<Vec<Op>> = vec![];
    let mut traces = 0u64;
    let mut transitions = 0u64;
    let mut max_depth = 0u64;
    let mut layer_sizes = vec![];
    {
        let (r, p) = par_run(&[Vec::<Op>::new()], scratch.path(), "C05", Some(pre.clone()), |ctx, i, h, out| run_history(ctx, 2_000_000 + i, h, &qs, qlen, out));
        all.merge_keep_all(p);
        traces += 1;
        if let Some(Some(h)) = r.into_iter().next() {
            visited.insert(h.key);
            frontier.push(vec![]);
        }
        layer_sizes.push(frontier.len());
    }
    let mut case_base = 2_000_001usize;
    for d in 1..=depth {
        let mut children: Vec<Vec<Op>> = vec![];
        for h in &frontier {
            for op in OPS {
                let mut c = h.clone();
                c.push(op);
                children.push(c);
            }
        }
        if children.is_empty() {
            break;
        }
        let (r, p) = par_run(&children, scratch.path(), "C05", Some(pre.clone()), |ctx, i, h, out| run_history(ctx, case_base + i, h, &qs, qlen, out));
        all.merge_keep_all(p);
        case_base += children.len();
        traces += children.len() as u64;
        transitions += children.len() as u64;
        let mut next = vec![];
        for (c, res) in children.into_iter().zip(r) {
            if let Some(h) = res {
                if visited.insert(h.key) {
                    next.push(c);
                }
            }
        }
        if !next.is_empty() {
            max_depth = d as u64;
        }
        layer_sizes.push(next.len());
        frontier = next;
    }
    // 4. one collection of more than 2^16 shards (the per-chunk index stores the shard position in 16 bits)
    {
        let ctx = Ctx::new(&scratch.path().join("many"), "C05", None);
        let mut p = Partial::default();
        run_many_shards(&ctx, &mut p);
        all.merge_keep_all(p);
    }
    run.set("new_states_per_depth", json!(layer_sizes));
    run.set("history_depth_bound", json!(depth));
    run.set("query_length_bound", json!(qlen));
    run.set("small_shards", json!(fam.len()));
    run.set("large_shards", json!(lf.len()));
    finish_c05(run, scratch, all, visited.len() as u64, transitions, traces, max_depth);
}

fn finish_c05(mut run: Run, scratch: Scratch, mut all: Partial, states: u64, transitions: u64, traces: u64, max_depth: u64) -> ! {
    drop(scratch); // finish() exits the process
    normalise(&mut all);
    all.violations.retain(|v| v.signature.starts_with("C05/"));
    let evaluations = all.get("evals");
    run.set("states", json!(states));
    run.set("transitions", json!(transitions));
    run.set("traces_validated_against_impl", json!(traces));
    run.set("max_depth", json!(max_depth));
    run.assume("xorb hashes are distinct exactly when xorb contents are (by construction of the menus), so an answer's xorb is unambiguous");
    run.assume("prefix collisions are engineered among unkeyed hashes only; two hashes that collide after HMAC under a given key are not constructed");
    run.assume("pre-built and keyed shards are registered from a sub-directory of the session directory, so consolidation never merges shards of different keys");
    run.assume("the oracle is soundness only: misses and non-maximal matches are counted, not alarmed");
    if mutation_active() {
        run.assume("LAB_SELFTEST is set: the reference is wrong on purpose, violations are expected");
    }
    run.all = all;
    run.finish(
        evaluations,
        "every (implementation, shard or manager history, query) triple is one evaluation of the real lookup judged against the recorded chunk lists; shards: all sets of xorbs over a 5-hash alphabet with two colliding 64-bit prefix pairs (bounds in small_shards / tier) plus structured large shards; queries: all sequences up to query_length_bound over the alphabet and two absent hashes; manager: breadth-first search over all histories up to history_depth_bound of 9 operations, frontier deduplicated by (pending xorbs, shard files, registered shards, all answers). A case is distinct and non-trivial when it is a different (shard or history, implementation) pair that produced both hits and misses",
        true,
    );
}

fn mutation_active() -> bool {
    std::env::var("LAB_SELFTEST").map(|s| !s.is_empty()).unwrap_or(false)
}

/// the engineered collisions must be collisions for the code under test, too
fn check_alphabet() {
    let t = |s: u8| mdb_shard::utils::truncate_hash(&to_mh(&sym_hash(s)));
    let ok = t(0) == t(1) && t(2) == t(3) && t(4) == t(5) && t(0) != t(2) && t(0) != t(4) && t(2) != t(4) && t(6) != t(0) && t(6) != t(2) && t(6) != t(4);
    let ok2 = (0..7u8).all(|s| t(s) == prefix(&sym_hash(s)));
    let mut distinct = BTreeSet::new();
    for s in 0..7u8 {
        distinct.insert(sym_hash(s));
    }
    let k1 = key_of(1);
    let (kf, kg) = (refmodel::hmac(&sym_hash(7), &k1), refmodel::hmac(&sym_hash(8), &k1));
    if sym_hash(7) == sym_hash(8) || prefix(&sym_hash(7)) == prefix(&sym_hash(8)) || kf == kg || prefix(&kf) != prefix(&kg) {
        machinery_error("F and G must be different hashes with different prefixes whose HMACs under k1 share the 64-bit prefix");
    }
    if !ok || !ok2 || distinct.len() != 7 {
        machinery_error("the alphabet's engineered 64-bit prefix collisions are not collisions under mdb_shard::utils::truncate_hash");
    }
}

fn read_replay(p: &Path) -> Value {
    let v: Value = serde_json::from_slice(&std::fs::read(p).unwrap_or_else(|e| machinery_error(&format!("read replay: {e}"))))
        .unwrap_or_else(|e| machinery_error(&format!("parse replay: {e}")));
    v["replay"].clone()
}
fn json_xorbs(v: &Value) -> Vec<Vec<u8>> {
    v.as_array()
        .cloned()
        .unwrap_or_default()
        .iter()
        .map(|x| x.as_array().cloned().unwrap_or_default().iter().map(|s| s.as_u64().unwrap_or(0) as u8).collect())
        .collect()
}

fn replay_c05(ctx: &Ctx, r: &Value, out: &mut Partial) {
    let idx = r["case_index"].as_u64().unwrap_or(0) as usize;
    let qlen = r["qlen"].as_u64().unwrap_or(3) as usize;
    match r["kind"].as_str() {
        Some("small") => run_small(ctx, idx, &json_xorbs(&r["xorbs"]), &all_queries(qlen), qlen, out),
        Some("large") => {
            let s = LargeSpec {
                layout: unrle(&r["layout"]),
                mode: r["mode"].as_u64().unwrap_or(0) as u8,
                param: r["param"].as_u64().unwrap_or(0),
            };
            run_large(ctx, idx, &s, out)
        },
        Some("kc") => run_kc(ctx, idx, &json_xorbs(&r["xorbs"]), &kc_queries(4), out),
        Some("many-shards") => run_many_shards(ctx, out),
        Some("history") => {
            let ops: Vec<Op> = r["ops"]
                .as_array()
                .cloned()
                .unwrap_or_default()
                .iter()
                .map(|o| op_parse(o.as_str().unwrap_or("")).unwrap_or_else(|| machinery_error("bad op in replay")))
                .collect();
            run_history(ctx, idx, &ops, &all_queries(qlen), qlen, out);
        },
        o => machinery_error(&format!("replay kind {o:?} is not a C05 case")),
    }
}

// ------------------------------------------------------------------ C18: reference parser of the shard file layout

#[derive(Debug, Clone, PartialEq)]
struct PFile {
    hash: RH,
    flags: u32,
    segs: Vec<(RH, u32, u32, u32, u32)>,
    verif: Vec<RH>,
    ext: Option<RH>,
}
#[derive(Debug, Clone, PartialEq)]
struct PCas {
    hash: RH,
    flags: u32,
    bytes_in_cas: u32,
    bytes_on_disk: u32,
    /// (hash, byte range start, length)
    chunks: Vec<(RH, u32, u32)>,
}
#[derive(Debug, Clone)]
struct PShard {
    files: Vec<PFile>,
    cas: Vec<PCas>,
    file_lookup_n: u64,
    cas_lookup_n: u64,
    chunk_lookup: Vec<(u64, u32, u32)>,
    key: RH,
    creation: u64,
    expiry: u64,
}
fn rd_u32(b: &[u8], p: usize) -> Result<u32, String> {
    b.get(p..p + 4).map(|s| u32::from_le_bytes(s.try_into().unwrap())).ok_or_else(|| format!("read past the end at {p}"))
}
fn rd_u64(b: &[u8], p: usize) -> Result<u64, String> {
    b.get(p..p + 8).map(|s| u64::from_le_bytes(s.try_into().unwrap())).ok_or_else(|| format!("read past the end at {p}"))
}
fn rd_h(b: &[u8], p: usize) -> Result<RH, String> {
    b.get(p..p + 32).map(|s| s.try_into().unwrap()).ok_or_else(|| format!("read past the end at {p}"))
}
/// Layout (from the format description): 48-byte header; file info = 48-byte records (header:
/// hash, flags, n, pad; n entries: xorb hash, flags, bytes, start, end; if flag bit 31: n
/// verification hashes; if bit 30: one sha record) ended by an all-ones hash; xorb info = 48-byte
/// records (header: hash, flags, n, bytes in xorb, bytes on disk; n chunks: hash, range start,
/// length, pad) ended by an all-ones hash; three lookup tables; 200-byte footer.
fn parse_shard(b: &[u8]) -> Result<PShard, String> {
    const FOOT: usize = 200;
    if b.len() < 48 + FOOT {
        return Err("shorter than header + footer".into());
    }
    let f = b.len() - FOOT;
    let file_info_offset = rd_u64(b, f + 8)? as usize;
    let cas_info_offset = rd_u64(b, f + 16)? as usize;
    let file_lookup_n = rd_u64(b, f + 32)?;
    let cas_lookup_n = rd_u64(b, f + 48)?;
    let chunk_lookup_offset = rd_u64(b, f + 56)? as usize;
    let chunk_lookup_n = rd_u64(b, f + 64)?;
    let key = rd_h(b, f + 72)?;
    let creation = rd_u64(b, f + 104)?;
    let expiry = rd_u64(b, f + 112)?;
    let ones = [0xFFu8; 32];
    let mut files = vec![];
    let mut p = file_info_offset;
    loop {
        let hash = rd_h(b, p)?;
        if hash == ones {
            p += 48;
            break;
        }
        let flags = rd_u32(b, p + 32)?;
        let n = rd_u32(b, p + 36)? as usize;
        p += 48;
        let mut segs = vec![];
        for _ in 0..n {
            segs.push((rd_h(b, p)?, rd_u32(b, p + 32)?, rd_u32(b, p + 36)?, rd_u32(b, p + 40)?, rd_u32(b, p + 44)?));
            p += 48;
        }
        let mut verif = vec![];
        if flags & (1 << 31) != 0 {
            for _ in 0..n {
                verif.push(rd_h(b, p)?);
                p += 48;
            }
        }
        let ext = if flags & (1 << 30) != 0 {
            let h = rd_h(b, p)?;
            p += 48;
            Some(h)
        } else {
            None
        };
        files.push(PFile { hash, flags, segs, verif, ext });
    }
    if p != cas_info_offset {
        return Err(format!("file info section ends at {p}, footer says xorb info starts at {cas_info_offset}"));
    }
    let mut cas = vec![];
    loop {
        let hash = rd_h(b, p)?;
        if hash == ones {
            break;
        }
        let flags = rd_u32(b, p + 32)?;
        let n = rd_u32(b, p + 36)? as usize;
        let bytes_in_cas = rd_u32(b, p + 40)?;
        let bytes_on_disk = rd_u32(b, p + 44)?;
        p += 48;
        let mut chunks = vec![];
        for _ in 0..n {
            chunks.push((rd_h(b, p)?, rd_u32(b, p + 32)?, rd_u32(b, p + 36)?));
            p += 48;
        }
        cas.push(PCas { hash, flags, bytes_in_cas, bytes_on_disk, chunks });
    }
    let mut chunk_lookup = vec![];
    for i in 0..chunk_lookup_n as usize {
        let q = chunk_lookup_offset + 16 * i;
        chunk_lookup.push((rd_u64(b, q)?, rd_u32(b, q + 8)?, rd_u32(b, q + 12)?));
    }
    Ok(PShard { files, cas, file_lookup_n, cas_lookup_n, chunk_lookup, key, creation, expiry })
}
fn contains(hay: &[u8], needle: &[u8]) -> Option<usize> {
    hay.windows(needle.len()).position(|w| w == needle)
}

// ------------------------------------------------------------------ C18: one export

fn file_records(xs: &[Xorb], code: u64) -> Vec<MDBFileInfo> {
    let mut segs: Vec<FileDataSequenceEntry> = xs
        .iter()
        .map(|x| FileDataSequenceEntry::new(to_mh(&x.hash), x.chunks.iter().map(|c| c.1).sum::<u32>(), 0u32, x.chunks.len() as u32))
        .collect();
    if segs.is_empty() {
        segs.push(FileDataSequenceEntry::new(to_mh(&hw([0xF0E1, 1, 1, 1])), 77u32, 0u32, 1u32));
    }
    let f1 = MDBFileInfo {
        metadata: FileDataSequenceHeader::new(to_mh(&hw([0xF11E_0001, code, 1, 0])), segs.len(), false, false),
        segments: segs,
        verification: vec![],
        metadata_ext: None,
    };
    let segs2 = vec![
        FileDataSequenceEntry::new(to_mh(&hw([0xF0E2, 2, 2, 2])), 500u32, 1u32, 3u32),
        FileDataSequenceEntry::new(to_mh(&hw([0xF0E3, 3, 3, 3])), 900u32, 0u32, 2u32),
    ];
    let f2 = MDBFileInfo {
        metadata: FileDataSequenceHeader::new(to_mh(&hw([0xF11E_0002, code, 2, 0])), 2usize, true, true),
        segments: segs2,
        verification: vec![FileVerificationEntry::new(to_mh(&hw([0x7E51F1, 1, 0, 0]))), FileVerificationEntry::new(to_mh(&hw([0x7E51F1, 2, 0, 0])))],
        metadata_ext: Some(FileMetadataExt::new(to_mh(&hw([0x5AA256, 6, 5, 2])))),
    };
    vec![f1, f2]
}
fn shard_code(xorbs: &[Vec<u8>]) -> u64 {
    let mut c = 7u64;
    for x in xorbs {
        c = mix(c ^ 0x99);
        for s in x {
            c = mix(c.wrapping_mul(31).wrapping_add(*s as u64 + 1));
        }
    }
    c
}
/// no chunk hash occurs twice, no two different chunk hashes share a 64-bit prefix, and neither do
/// their keyed forms within one shard (`groups`: the xorbs of one shard with that shard's key)
fn clean(groups: &[(&[Xorb], RH)], m: &Mutation) -> bool {
    let mut hashes = BTreeSet::new();
    let mut prefixes = BTreeSet::new();
    for (xs, key) in groups {
        let mut keyed_prefixes = BTreeSet::new();
        for x in xs.iter() {
            for (h, _) in &x.chunks {
                if !hashes.insert(*h) || !prefixes.insert(prefix(h)) || !keyed_prefixes.insert(prefix(&keyed(h, key, m))) {
                    return false;
                }
            }
        }
    }
    true
}
fn build_plain(ctx: &Ctx, xs: &[Xorb], files: &[MDBFileInfo], tag: &str) -> Result<(PathBuf, Arc<MDBShardFile>), String> {
    let mut mem = mem_shard(xs, &(0..xs.len()).collect::<Vec<_>>());
    for f in files {
        mem.add_file_reconstruction_info(f.clone()).map_err(es)?;
    }
    let d = ctx.fresh_dir(tag);
    let p = mem.write_to_directory(&d).map_err(es)?;
    Ok((d, MDBShardFile::load_from_file(&p).map_err(es)?))
}

/// structural oracles on one exported file against the original file (both read by the reference parser)
#[allow(clippy::too_many_arguments)]
fn check_export_bytes(orig: &[u8], exp: &[u8], key: &RH, flags: (bool, bool, bool), desc: &str, replay: &Value, m: &Mutation, out: &mut Partial) {
    let (po, pe) = match (parse_shard(orig), parse_shard(exp)) {
        (Ok(a), Ok(b)) => (a, b),
        (Err(e), _) => {
            out.notes.push(format!("reference parser cannot read an original shard: {e}"));
            out.count("info:original_unparsable", 1);
            return;
        },
        (_, Err(e)) => {
            out.violation("C18/export-unreadable", format!("{desc}: the exported file does not follow the shard layout: {e}"), replay.clone());
            return;
        },
    };
    // xorb records: hashes kept, chunk hashes keyed
    let mut ok = po.cas.len() == pe.cas.len();
    if ok {
        for (a, b) in po.cas.iter().zip(&pe.cas) {
            if (a.hash, a.flags, a.bytes_in_cas, a.bytes_on_disk, a.chunks.len()) != (b.hash, b.flags, b.bytes_in_cas, b.bytes_on_disk, b.chunks.len()) {
                ok = false;
                break;
            }
        }
    }
    if !ok {
        out.violation("C18/xorb-record-changed", format!("{desc}: xorb headers of the export differ from the original: {:?} vs {:?}", po.cas.iter().map(|c| hx(&c.hash)).collect::<Vec<_>>(), pe.cas.iter().map(|c| hx(&c.hash)).collect::<Vec<_>>()), replay.clone());
        return;
    }
    let mut expected_lookup: Vec<(u64, u32, u32)> = vec![];
    let mut cas_index = 0u32;
    for (a, b) in po.cas.iter().zip(&pe.cas) {
        for (j, (ca, cb)) in a.chunks.iter().zip(&b.chunks).enumerate() {
            let want = keyed(&ca.0, key, m);
            out.count("chunk_hashes_compared", 1);
            if cb.0 != want {
                out.violation(
                    "C18/chunk-hash-not-keyed",
                    format!("{desc}: chunk {j} of xorb {} is {} in the export, expected {} of original {}", &refmodel::hex(&a.hash)[..8], refmodel::hex(&cb.0), if *key == ZERO { "the unchanged hash" } else { "HMAC(key, original)" }, hx(&ca.0)),
                    replay.clone(),
                );
            }
            if (ca.1, ca.2) != (cb.1, cb.2) {
                out.violation("C18/chunk-record-changed", format!("{desc}: chunk {j} of xorb {}: (start,len) {:?} became {:?}", &refmodel::hex(&a.hash)[..8], (ca.1, ca.2), (cb.1, cb.2)), replay.clone());
            }
            expected_lookup.push((prefix(&want), cas_index, j as u32));
        }
        cas_index += 1 + a.chunks.len() as u32;
    }
    // chunk lookup table
    if flags.2 {
        let mut got = pe.chunk_lookup.clone();
        got.sort();
        expected_lookup.sort();
        out.count("chunk_lookup_tables_compared", 1);
        if got != expected_lookup {
            out.violation("C18/chunk-lookup-not-keyed", format!("{desc}: the export's chunk lookup table is {:x?}, expected the keyed prefixes {:x?}", got, expected_lookup), replay.clone());
        }
        if !pe.chunk_lookup.windows(2).all(|w| w[0].0 <= w[1].0) {
            out.count("info:chunk_lookup_not_sorted", 1);
        }
    } else if !pe.chunk_lookup.is_empty() {
        out.count("info:chunk_lookup_present_although_not_requested", 1);
    }
    if !flags.1 && pe.cas_lookup_n != 0 {
        out.count("info:cas_lookup_present_although_not_requested", 1);
    }
    // raw hashes must not survive anywhere in a keyed export
    if *key != ZERO {
        // xorb and file hashes are *kept* by the statement: a raw chunk hash that is also the hash of a
        // xorb of this shard (a single-chunk xorb is named by its chunk's hash) or of a file legitimately
        // stays in the export in that role and is not a leak
        let kept: BTreeSet<RH> = po.cas.iter().map(|c| c.hash).chain(po.files.iter().map(|f| f.hash)).collect();
        for a in &po.cas {
            for c in &a.chunks {
                if kept.contains(&c.0) {
                    out.count("info:raw_chunk_hash_equals_a_kept_xorb_or_file_hash", 1);
                    continue;
                }
                out.count("vac:raw_hash_searches", 1);
                let needle = if m.leak_search_keyed { keyed(&c.0, key, m) } else { c.0 };
                if let Some(pos) = contains(exp, &needle) {
                    out.violation("C18/raw-hash-leaked", format!("{desc}: the raw chunk hash {} occurs at byte {pos} of the keyed export", hx(&c.0)), replay.clone());
                }
            }
        }
    } else {
        out.count("zero_key_exports", 1);
    }
    // file records kept or dropped as requested
    if flags.0 {
        if pe.files != po.files {
            let sig = if pe.files.is_empty() { "C18/file-records-dropped" } else { "C18/file-record-changed" };
            out.violation(sig, format!("{desc}: file records requested; original has {:?}, export has {:?}", po.files.iter().map(|f| (refmodel::hex(&f.hash)[..8].to_string(), f.segs.len())).collect::<Vec<_>>(), pe.files.iter().map(|f| (refmodel::hex(&f.hash)[..8].to_string(), f.segs.len())).collect::<Vec<_>>()), replay.clone());
        }
        out.count("vac:exports_keeping_file_records", 1);
    } else {
        if !pe.files.is_empty() || pe.file_lookup_n != 0 {
            out.violation("C18/file-records-kept-unrequested", format!("{desc}: file records not requested, export holds {} records / {} lookup entries", pe.files.len(), pe.file_lookup_n), replay.clone());
        }
        out.count("vac:exports_dropping_file_records", 1);
    }
    if pe.key != *key {
        out.count("info:footer_key_differs_from_requested", 1);
    }
}

/// manager-level comparison: answers over `dir_e` (exports) against answers over `dir_o` (originals)
#[allow(clippy::too_many_arguments)]
fn compare_managers(ctx: &Ctx, dir_o: &Path, dir_e: &Path, w: &World, equal_family: bool, qs: &[Query], desc: &str, replay: &Value, out: &mut Partial) -> Option<Arc<ShardFileManager>> {
    let prop = "C18";
    let m = &ctx.m;
    let mo = step(prop, "manager-open-originals", desc, replay, out, || ctx.rt.block_on(ShardFileManager::new_in_session_directory(dir_o)).map_err(es))?;
    let me = step(prop, "manager-open-exports", desc, replay, out, || ctx.rt.block_on(ShardFileManager::new_in_session_directory(dir_e)).map_err(es))?;
    let a_e = eval("C18/answer-", "manager-over-exports", desc, w, &qs[1..], m, replay, out, |q| guarded(|| ctx.rt.block_on(me.chunk_hash_dedup_query(&q.mh)).map_err(es)));
    let mut a_o = vec![];
    for q in &qs[1..] {
        a_o.push(guarded(|| ctx.rt.block_on(mo.chunk_hash_dedup_query(&q.mh)).map_err(es)));
    }
    for ((q, e), o) in qs[1..].iter().zip(&a_e).zip(&a_o) {
        if equal_family {
            out.count("vac:answers_compared_for_equality", 1);
            if matches!(o, Ok(Some(_))) {
                out.count("vac:equal_hits", 1);
            }
            if e != o {
                let mut r = replay.clone();
                r["query"] = json!(q.label);
                out.violation("C18/keyed-answer-differs", format!("query {} on {desc}: manager over the originals answers {}, over the exports {}", q.label, obs_str(o), obs_str(e)), r);
            }
        } else {
            out.count("answers_checked_for_truthfulness_only", 1);
            // a hash stored at exactly one place, whose prefix nothing else shares, is found
            if w.n_locations(&q.hs[0], m) == 1 && !w.prefix_shared_where_stored(&q.hs[0], m) {
                out.count("vac:unique_hash_lookups", 1);
                if w.prefix_shared(&q.hs[0], m) {
                    out.count("vac:unique_hash_lookups_past_a_colliding_prefix_in_another_key_domain", 1);
                }
                if !matches!(e, Ok(Some(_))) {
                    let mut r = replay.clone();
                    r["query"] = json!(q.label);
                    out.violation("C18/keyed-lookup-misses-unique-chunk", format!("query {} on {desc}: first hash is stored exactly once and nothing shares its prefix in the key domain that stores it, yet the manager over the exports answers {}", q.label, obs_str(e)), r);
                }
            }
        }
    }
    drop(mo);
    Some(me)
}

fn run_export(ctx: &Ctx, idx: usize, case: &(Vec<Vec<u8>>, u8, u8), qs: &[Query], qlen: usize, out: &mut Partial) {
    let prop = "C18";
    let (xorbs, k, fl) = case;
    let flags = (fl & 1 != 0, fl & 2 != 0, fl & 4 != 0);
    let key = key_of(*k);
    let xs: Vec<Xorb> = xorbs.iter().map(|s| small_xorb(s)).collect();
    let desc = format!("export of {} under key k{} flags(file_info={},cas_lookup={},chunk_lookup={})", shard_str(xorbs), k, flags.0, flags.1, flags.2);
    let replay = json!({"kind": "export", "xorbs": xorbs, "key": k, "flags": fl, "qlen": qlen, "case_index": idx});
    let m = &ctx.m;
    let files = file_records(&xs, shard_code(xorbs));
    out.count("exports", 1);
    let Some((d_o, sf)) = step(prop, "build-original", &desc, &replay, out, || build_plain(ctx, &xs, &files, "o")) else { return };
    let d_e = ctx.fresh_dir("e");
    let exp = step(prop, "export-as-keyed-shard", &desc, &replay, out, || {
        sf.export_as_keyed_shard(&d_e, to_mh(&key), Duration::from_secs(1000), flags.0, flags.1, flags.2).map_err(es)
    });
    if let Some(exp) = exp {
        let ob = std::fs::read(&sf.path).unwrap_or_default();
        let eb = std::fs::read(&exp.path).unwrap_or_default();
        check_export_bytes(&ob, &eb, &key, flags, &desc, &replay, m, out);
        let mut w = World::default();
        for x in &xs {
            w.add(x, &key, m);
        }
        let eq = clean(&[(&xs[..], key)], m);
        if let Some(me) = compare_managers(ctx, &d_o, &d_e, &w, eq, qs, &desc, &replay, out) {
            // file records through the manager
            for f in &files {
                let got = catch_unwind(AssertUnwindSafe(|| ctx.rt.block_on(me.get_file_reconstruction_info(&f.metadata.file_hash))));
                match got {
                    Ok(Ok(Some((fi, _)))) => {
                        if !flags.0 {
                            out.violation("C18/file-record-present-unrequested", format!("{desc}: the manager still reconstructs file {}", refmodel::hex(&from_mh(&f.metadata.file_hash))), replay.clone());
                        } else if fi != *f {
                            out.violation("C18/file-record-changed", format!("{desc}: the manager returns a different record for file {}", refmodel::hex(&from_mh(&f.metadata.file_hash))), replay.clone());
                        } else {
                            out.count("vac:file_records_found_through_manager", 1);
                        }
                    },
                    Ok(Ok(None)) => {
                        if flags.0 {
                            out.violation("C18/file-records-dropped", format!("{desc}: the manager finds no record for file {}", refmodel::hex(&from_mh(&f.metadata.file_hash))), replay.clone());
                        } else {
                            out.count("vac:file_records_absent_through_manager", 1);
                        }
                    },
                    Ok(Err(e)) => out.violation("C18/file-lookup-failed", format!("{desc}: get_file_reconstruction_info: {e}"), replay.clone()),
                    Err(p) => out.violation("C18/file-lookup-panicked", format!("{desc}: get_file_reconstruction_info: {} at {}", panic_text(&p), last_panic_loc()), replay.clone()),
                }
            }
        }
        // the keyed export given a new expiry: chunk hashes, lookup tables and key are those of the export, and the
        // manager still answers like the original
        let d_r = ctx.fresh_dir("r");
        let sdesc = format!("{desc}, then export_with_expiration of the export");
        let rex = step(prop, "export-with-expiration-of-export", &sdesc, &replay, out, || exp.export_with_expiration(&d_r, Duration::from_secs(2000)).map_err(es));
        if let Some(rex) = rex {
            out.count("vac:exports_given_a_new_expiry", 1);
            let rb = std::fs::read(&rex.path).unwrap_or_default();
            check_export_bytes(&ob, &rb, &key, flags, &sdesc, &replay, m, out);
            let eq = clean(&[(&xs[..], key)], m);
            let _ = compare_managers(ctx, &d_o, &d_r, &w, eq, qs, &sdesc, &replay, out);
        }
        rm(&d_r);
        out.distinct(format!("{}:k{}:f{}", shard_str(xorbs), k, fl));
    }
    rm(&d_o);
    rm(&d_e);
    if idx % 97 == 5 && idx < 600 {
        out.sample(json!({"case": "export", "shard": shard_str(xorbs), "key": format!("k{k}"), "flags": {"file_info": flags.0, "cas_lookup": flags.1, "chunk_lookup": flags.2}, "queries": qs.len() - 1}));
    }
}

// ------------------------------------------------------------------ C18: mixtures of keys in one directory

fn mixed_base() -> Vec<Vec<Vec<u8>>> {
    vec![
        vec![vec![0, 2, 4]],            // ACE
        vec![vec![1, 3]],               // BD
        vec![vec![0], vec![1]],         // A | B
        vec![vec![4, 4]],               // EE
        vec![vec![2, 0], vec![3, 4, 1]], // CA | DEB
        vec![vec![0, 1, 2]],            // ABC
        vec![],                         // empty shard
        vec![vec![0]],                  // A
        vec![vec![2]],                  // C
        vec![vec![4]],                  // E
        vec![vec![3]],                  // D
        vec![vec![4, 0, 2]],            // EAC
        vec![vec![2], vec![4]],         // C | E
    ]
}
fn mixed_family(tier: Tier) -> Vec<([usize; 3], u8)> {
    let n = tier.pick(9, mixed_base().len());
    let flagsets: &[u8] = tier.pick(&[7u8, 0][..], &[7u8, 0, 5, 2][..]);
    let mut out = vec![];
    for a in 0..n {
        for b in 0..n {
            for c in 0..n {
                if a != b && b != c && a != c {
                    for f in flagsets {
                        out.push(([a, b, c], *f));
                    }
                }
            }
        }
    }
    out
}

fn run_mixed(ctx: &Ctx, idx: usize, case: &([usize; 3], u8), qs: &[Query], qlen: usize, out: &mut Partial) {
    let prop = "C18";
    let (ids, fl) = case;
    let flags = (fl & 1 != 0, fl & 2 != 0, fl & 4 != 0);
    let base = mixed_base();
    let desc = format!(
        "directory of {} unkeyed + {} under k1 + {} under k2, flags(file_info={},cas_lookup={},chunk_lookup={})",
        shard_str(&base[ids[0]]), shard_str(&base[ids[1]]), shard_str(&base[ids[2]]), flags.0, flags.1, flags.2
    );
    let replay = json!({"kind": "mixed", "shards": ids, "flags": fl, "qlen": qlen, "case_index": idx});
    let m = &ctx.m;
    out.count("mixed_directories", 1);
    let stage_o = ctx.fresh_dir("mo");
    let stage_e = ctx.fresh_dir("me");
    let mut w = World::default();
    let mut per_slot: Vec<Vec<Xorb>> = vec![];
    let mut tmp = vec![];
    let mut ok = true;
    for (slot, id) in ids.iter().enumerate() {
        let xs: Vec<Xorb> = base[*id].iter().map(|s| small_xorb(s)).collect();
        let key = key_of(slot as u8);
        let files = file_records(&xs, shard_code(&base[*id]) ^ slot as u64);
        let Some((d_o, sf)) = step(prop, "build-original", &desc, &replay, out, || build_plain(ctx, &xs, &files, "mb")) else {
            ok = false;
            break;
        };
        tmp.push(d_o);
        let _ = std::fs::copy(&sf.path, stage_o.join(sf.path.file_name().unwrap()));
        let exp = if slot == 0 {
            Some(sf.clone())
        } else {
            step(prop, "export-as-keyed-shard", &desc, &replay, out, || {
                sf.export_as_keyed_shard(&stage_e, to_mh(&key), Duration::from_secs(1000), flags.0, flags.1, flags.2).map_err(es)
            })
        };
        let Some(exp) = exp else {
            ok = false;
            break;
        };
        if slot == 0 {
            let _ = std::fs::copy(&exp.path, stage_e.join(exp.path.file_name().unwrap()));
        } else {
            let ob = std::fs::read(&sf.path).unwrap_or_default();
            let eb = std::fs::read(&exp.path).unwrap_or_default();
            check_export_bytes(&ob, &eb, &key, flags, &desc, &replay, m, out);
        }
        for x in &xs {
            w.add(x, &key, m);
        }
        per_slot.push(xs);
    }
    if ok {
        // fresh copies with fixed, distinct mtimes: registration order is by mtime
        let d_o = ctx.fresh_dir("mO");
        let d_e = ctx.fresh_dir("mE");
        copy_shards_with_mtimes(&stage_o, &d_o);
        copy_shards_with_mtimes(&stage_e, &d_e);
        // a xorb present in two of the three shards is a duplicate location, too (clean() sees its hashes twice)
        let groups: Vec<(&[Xorb], RH)> = per_slot.iter().enumerate().map(|(i, xs)| (&xs[..], key_of(i as u8))).collect();
        let eq = clean(&groups, m);
        if eq {
            out.count("vac:mixed_directories_compared_for_equality", 1);
        }
        compare_managers(ctx, &d_o, &d_e, &w, eq, qs, &desc, &replay, out);
        out.distinct(format!("mixed:{ids:?}:f{fl}"));
        rm(&d_o);
        rm(&d_e);
    }
    for d in tmp {
        rm(&d);
    }
    rm(&stage_o);
    rm(&stage_e);
    if idx % 101 == 7 && idx < 400 {
        out.sample(json!({"case": "mixed directory", "desc": desc}));
    }
}

// ------------------------------------------------------------------ C18: expiry (sequential: owns the clock)

#[derive(Clone, Debug)]
struct ExpirySpec {
    /// 0 export_as_keyed_shard under k1, 1 export_with_expiration, 2 export_as_keyed_shard under the zero key
    kind: u8,
    t: i64,
    d: u64,
    g: u64,
}
fn expiry_family(tier: Tier) -> Vec<ExpirySpec> {
    let ts: &[i64] = tier.pick(&[T0][..], &[T0, 1000, 4_000_000_000][..]);
    let ds: &[u64] = tier.pick(&[0u64, 1, 100][..], &[0u64, 1, 2, 100, 86_400][..]);
    let gs: &[u64] = tier.pick(&[0u64, 100][..], &[0u64, 1, 100][..]);
    let mut out = vec![];
    for kind in 0..4u8 {
        for t in ts {
            for d in ds {
                for g in gs {
                    out.push(ExpirySpec { kind, t: *t, d: *d, g: *g });
                }
            }
        }
    }
    out
}

fn run_expiry(ctx: &Ctx, idx: usize, s: &ExpirySpec, out: &mut Partial) {
    let prop = "C18";
    let m = &ctx.m;
    let kind_name = ["export_as_keyed_shard(k1)", "export_with_expiration", "export_as_keyed_shard(zero key)", "export_as_keyed_shard(k1, 1h) re-expired 7 s later by export_with_expiration"][s.kind as usize];
    let desc = format!("{kind_name} created at t={} valid for d={}s, grace g={}s", s.t, s.d, s.g);
    let replay = json!({"kind": "expiry", "export": s.kind, "t": s.t, "d": s.d, "g": s.g, "case_index": idx});
    out.count("expiry_cases", 1);
    vcore::vfs::set_clock(Some(s.t));
    let xs = vec![small_xorb(&[0, 2, 4])];
    let Some((d_o, sf)) = step(prop, "build-original", &desc, &replay, out, || build_plain(ctx, &xs, &[], "xo")) else {
        vcore::vfs::set_clock(Some(T0));
        return;
    };
    let d_e = ctx.fresh_dir("xe");
    // kind 3: the validity counts from the moment of the re-export, whatever the age of the shard it is made from
    let age: i64 = if s.kind == 3 { 7 } else { 0 };
    let d_e0 = ctx.fresh_dir("xe0");
    let exp = step(prop, "export", &desc, &replay, out, || match s.kind {
        0 => sf.export_as_keyed_shard(&d_e, to_mh(&key_of(1)), Duration::from_secs(s.d), true, true, true).map_err(es),
        1 => sf.export_with_expiration(&d_e, Duration::from_secs(s.d)).map_err(es),
        2 => sf.export_as_keyed_shard(&d_e, to_mh(&ZERO), Duration::from_secs(s.d), false, false, false).map_err(es),
        _ => {
            let first = sf.export_as_keyed_shard(&d_e0, to_mh(&key_of(1)), Duration::from_secs(3600), true, true, true).map_err(es)?;
            vcore::vfs::set_clock(Some(s.t + age));
            first.export_with_expiration(&d_e, Duration::from_secs(s.d)).map_err(es)
        },
    });
    rm(&d_e0);
    if let Some(exp) = exp {
        let name = exp.path.file_name().unwrap().to_string_lossy().to_string();
        if let Ok(p) = parse_shard(&std::fs::read(&exp.path).unwrap_or_default()) {
            if p.expiry != ((s.t + age) as u64) + s.d {
                out.count("info:footer_expiry_differs_from_creation_plus_validity", 1);
            }
            if s.kind != 1 && p.creation != s.t as u64 {
                out.count("info:footer_creation_differs_from_clock", 1);
            }
        }
        let expiry = s.t + age + s.d as i64 + if m.expiry_plus_two { 2 } else { 0 } - if m.expiry_minus_two { 2 } else { 0 };
        let g = s.g as i64;
        let nows: BTreeSet<i64> = [s.t + age, expiry - 1, expiry, expiry + 1, expiry + g - 1, expiry + g, expiry + g + 1].into_iter().filter(|n| *n >= 0).collect();
        let probe = mk_query("A".into(), vec![sym_hash(0)]);
        for now in nows {
            vcore::vfs::set_clock(Some(now));
            let cp = ctx.fresh_dir("xc");
            std::fs::copy(&exp.path, cp.join(&name)).expect("copy export");
            let r = catch_unwind(AssertUnwindSafe(|| -> Result<(bool, bool, bool), String> {
                let loaded = MDBShardFile::load_all_valid(&cp).map_err(es)?.iter().any(|x| x.path.file_name().map(|n| n.to_string_lossy() == name).unwrap_or(false));
                let mgr = ctx.rt.block_on(ShardFileManager::new_in_session_directory(&cp)).map_err(es)?;
                let answering = ctx.rt.block_on(mgr.chunk_hash_dedup_query(&probe.mh)).map_err(es)?.is_some();
                MDBShardFile::clean_expired_shards(&cp, s.g).map_err(es)?;
                Ok((loaded, answering, !cp.join(&name).exists()))
            }));
            let (loaded, answering, deleted) = match r {
                Ok(Ok(v)) => v,
                Ok(Err(e)) => {
                    out.violation("C18/expiry-check-failed", format!("{desc}, now={now}: {e}"), replay.clone());
                    rm(&cp);
                    continue;
                },
                Err(p) => {
                    out.violation("C18/expiry-check-panicked", format!("{desc}, now={now}: {} at {}", panic_text(&p), last_panic_loc()), replay.clone());
                    rm(&cp);
                    continue;
                },
            };
            out.count("evals", 1);
            let at = format!("{desc}, now={now} (expiry {expiry}, end of grace {})", expiry + g);
            if now > expiry {
                out.count("vac:instants_past_expiry", 1);
                if loaded || answering {
                    out.violation("C18/expired-shard-loaded", format!("{at}: loaded by load_all_valid={loaded}, answering through a new manager={answering}"), replay.clone());
                }
            } else if now < expiry {
                out.count("vac:instants_before_expiry", 1);
                if !loaded || !answering {
                    out.violation("C18/unexpired-shard-not-loaded", format!("{at}: loaded by load_all_valid={loaded}, answering through a new manager={answering}"), replay.clone());
                }
            } else {
                out.count(if loaded { "info:at_expiry_instant_loaded" } else { "info:at_expiry_instant_not_loaded" }, 1);
            }
            if now < expiry + g {
                out.count("vac:instants_within_grace", 1);
                if deleted {
                    out.violation("C18/deleted-within-grace", format!("{at}: clean_expired_shards removed the file"), replay.clone());
                }
            } else if now > expiry + g {
                out.count("vac:instants_past_grace", 1);
                if !deleted {
                    out.violation("C18/expired-shard-not-deleted", format!("{at}: clean_expired_shards kept the file"), replay.clone());
                }
            } else {
                out.count(if deleted { "info:at_end_of_grace_instant_deleted" } else { "info:at_end_of_grace_instant_kept" }, 1);
            }
            rm(&cp);
        }
        out.distinct(format!("expiry:{}:{}:{}:{}", s.kind, s.t, s.d, s.g));
        if idx % 11 == 0 {
            out.sample(json!({"case": "expiry", "desc": desc}));
        }
    }
    vcore::vfs::set_clock(Some(T0));
    rm(&d_o);
    rm(&d_e);
}

// ------------------------------------------------------------------ C18: two expiring exports in one directory

/// Two exports with their own keys and validity periods side by side in one directory: at every instant around either
/// expiry and either end of grace, a scan / a new manager must use exactly the unexpired ones and the cleanup must
/// delete exactly those past their own grace period - one shard's expiry must not decide the other's fate.
#[derive(Clone, Debug)]
struct ExpiryPairSpec {
    /// per export: 0 export_as_keyed_shard under k1, 1 export_with_expiration, 2 export_as_keyed_shard under the zero key, 3 under k2
    ka: u8,
    kb: u8,
    /// both exports made from one original (true) or from two originals sharing one chunk (false)
    same: bool,
    da: u64,
    db: u64,
    g: u64,
}
fn expiry_pair_family(tier: Tier) -> Vec<ExpiryPairSpec> {
    let kinds: &[u8] = tier.pick(&[0u8, 1, 3][..], &[0u8, 1, 2, 3][..]);
    let ds: &[u64] = tier.pick(&[1u64, 100][..], &[1u64, 2, 100][..]);
    let gs: &[u64] = tier.pick(&[0u64, 100][..], &[0u64, 1, 100][..]);
    let mut out = vec![];
    for ka in kinds {
        for kb in kinds {
            for same in [true, false] {
                for da in ds {
                    for db in ds {
                        if same && ka == kb && da == db {
                            continue; // the same file twice
                        }
                        for g in gs {
                            out.push(ExpiryPairSpec { ka: *ka, kb: *kb, same, da: *da, db: *db, g: *g });
                        }
                    }
                }
            }
        }
    }
    out
}

fn export_kind(sf: &Arc<MDBShardFile>, dir: &Path, kind: u8, d: u64) -> Result<Arc<MDBShardFile>, String> {
    match kind {
        0 => sf.export_as_keyed_shard(dir, to_mh(&key_of(1)), Duration::from_secs(d), true, true, true).map_err(es),
        1 => sf.export_with_expiration(dir, Duration::from_secs(d)).map_err(es),
        2 => sf.export_as_keyed_shard(dir, to_mh(&ZERO), Duration::from_secs(d), false, false, false).map_err(es),
        _ => sf.export_as_keyed_shard(dir, to_mh(&key_of(2)), Duration::from_secs(d), true, false, true).map_err(es),
    }
}

fn run_expiry_pair(ctx: &Ctx, idx: usize, s: &ExpiryPairSpec, out: &mut Partial) {
    let prop = "C18";
    let m = &ctx.m;
    let kn = ["keyed(k1)", "with_expiration", "keyed(zero key)", "keyed(k2)"];
    let desc = format!(
        "two exports in one directory: a={} valid {}s, b={} valid {}s, {}, grace {}s",
        kn[s.ka as usize],
        s.da,
        kn[s.kb as usize],
        s.db,
        if s.same { "of one original" } else { "of two originals sharing chunk A" },
        s.g
    );
    let replay = json!({"kind": "expiry-pair", "ka": s.ka, "kb": s.kb, "same": s.same, "da": s.da, "db": s.db, "g": s.g, "case_index": idx});
    out.count("expiry_pair_cases", 1);
    vcore::vfs::set_clock(Some(T0));
    // A, C and E have three different 64-bit prefixes (C and D share one, which would let one export's entry shadow the other's)
    let xa = vec![small_xorb(&[0, 2])];
    let xb = if s.same { xa.clone() } else { vec![small_xorb(&[0, 4])] };
    let built = step(prop, "build-originals", &desc, &replay, out, || Ok((build_plain(ctx, &xa, &[], "pa")?, build_plain(ctx, &xb, &[], "pb")?)));
    let Some(((d_a, sf_a), (d_b, sf_b))) = built else {
        return;
    };
    let d_ea = ctx.fresh_dir("pea");
    let d_eb = ctx.fresh_dir("peb");
    let exps = step(prop, "export", &desc, &replay, out, || Ok((export_kind(&sf_a, &d_ea, s.ka, s.da)?, export_kind(&sf_b, &d_eb, s.kb, s.db)?)));
    if let Some((ea, eb)) = exps {
        let name = |e: &Arc<MDBShardFile>| e.path.file_name().unwrap().to_string_lossy().to_string();
        let (na, nb) = (name(&ea), name(&eb));
        if na == nb {
            machinery_error(&format!("{desc}: the two exports have one name"));
        }
        let skew = if m.expiry_plus_two { 2 } else { 0 } - if m.expiry_minus_two { 2 } else { 0 };
        let e = [T0 + s.da as i64 + skew, T0 + s.db as i64 + skew];
        let g = s.g as i64;
        let mut nows: BTreeSet<i64> = BTreeSet::new();
        nows.insert(T0);
        for x in e {
            nows.extend([x - 1, x, x + 1, x + g - 1, x + g, x + g + 1]);
        }
        // probes: A is in both exports; C only in a (or in both when they share the original); E only in b
        let probes: Vec<(Query, [bool; 2])> = vec![
            (mk_query("A".into(), vec![sym_hash(0)]), [true, true]),
            (mk_query("C".into(), vec![sym_hash(2)]), [true, s.same]),
            (mk_query("E".into(), vec![sym_hash(4)]), [false, !s.same]),
        ];
        let xorb_of = [xa[0].hash, xb[0].hash];
        for now in nows {
            vcore::vfs::set_clock(Some(now));
            let cp = ctx.fresh_dir("pc");
            std::fs::copy(&ea.path, cp.join(&na)).expect("copy export a");
            std::fs::copy(&eb.path, cp.join(&nb)).expect("copy export b");
            type Answers = Vec<Obs>;
            let ask = |mgr: &Arc<ShardFileManager>| -> Answers { probes.iter().map(|(q, _)| guarded(|| ctx.rt.block_on(mgr.chunk_hash_dedup_query(&q.mh)).map_err(es))).collect() };
            let r = catch_unwind(AssertUnwindSafe(|| -> Result<([bool; 2], Answers, [bool; 2], Answers, Answers), String> {
                let l = MDBShardFile::load_all_valid(&cp).map_err(es)?;
                let has = |n: &str| l.iter().any(|x| x.path.file_name().map(|f| f.to_string_lossy() == n).unwrap_or(false));
                let loaded = [has(&na), has(&nb)];
                let mgr = ctx.rt.block_on(ShardFileManager::new_in_session_directory(&cp)).map_err(es)?;
                let before = ask(&mgr);
                MDBShardFile::clean_expired_shards(&cp, s.g).map_err(es)?;
                let deleted = [!cp.join(&na).exists(), !cp.join(&nb).exists()];
                let open_after = ask(&mgr);
                let mgr2 = ctx.rt.block_on(ShardFileManager::new_in_session_directory(&cp)).map_err(es)?;
                let fresh_after = ask(&mgr2);
                Ok((loaded, before, deleted, open_after, fresh_after))
            }));
            let (loaded, before, deleted, open_after, fresh_after) = match r {
                Ok(Ok(v)) => v,
                Ok(Err(err)) => {
                    out.violation("C18/expiry-check-failed", format!("{desc}, now={now}: {err}"), replay.clone());
                    rm(&cp);
                    continue;
                },
                Err(p) => {
                    out.violation("C18/expiry-check-panicked", format!("{desc}, now={now}: {} at {}", panic_text(&p), last_panic_loc()), replay.clone());
                    rm(&cp);
                    continue;
                },
            };
            out.count("evals", 1);
            let at = format!("{desc}, now={now} (expiries a={} b={}, grace {g})", e[0], e[1]);
            for i in 0..2 {
                let who = ["a", "b"][i];
                if now > e[i] {
                    out.count("vac:pair_instants_past_expiry", 1);
                    if loaded[i] {
                        out.violation("C18/expired-shard-loaded", format!("{at}: export {who} is returned by load_all_valid"), replay.clone());
                    }
                } else if now < e[i] {
                    out.count("vac:pair_instants_before_expiry", 1);
                    if !loaded[i] {
                        out.violation("C18/unexpired-shard-not-loaded", format!("{at}: export {who} is not returned by load_all_valid"), replay.clone());
                    }
                }
                if now < e[i] + g {
                    if deleted[i] {
                        out.violation("C18/deleted-within-grace", format!("{at}: clean_expired_shards removed export {who}"), replay.clone());
                    }
                } else if now > e[i] + g {
                    out.count("vac:pair_instants_past_grace", 1);
                    if !deleted[i] {
                        out.violation("C18/expired-shard-not-deleted", format!("{at}: clean_expired_shards kept export {who}"), replay.clone());
                    }
                }
            }
            if (now > e[0]) != (now > e[1]) && now != e[0] && now != e[1] {
                out.count("vac:pair_instants_with_one_export_expired", 1);
            }
            // answers: a chunk must be found when an unexpired export holds it, must not be found when every export
            // holding it is past its expiry, and an answer must name the xorb of an export that may still be used
            for (pi, (q, holds)) in probes.iter().enumerate() {
                let must = (0..2).any(|i| holds[i] && now < e[i]);
                let may: Vec<RH> = (0..2).filter(|i| holds[*i] && now <= e[*i]).map(|i| xorb_of[i]).collect();
                for (which, answers, strict) in [("a new manager", &before, true), ("a new manager after the cleanup", &fresh_after, true), ("the manager opened before the cleanup", &open_after, false)] {
                    match &answers[pi] {
                        Err(err) => out.violation("C18/expiry-check-failed", format!("{at}: query {} through {which}: {err}", q.label), replay.clone()),
                        Ok(Some(a)) => {
                            if !may.contains(&a.xorb) {
                                out.violation("C18/expired-shard-loaded", format!("{at}: query {} through {which} is answered from xorb {} although no usable export holds it there", q.label, hx(&a.xorb)), replay.clone());
                            }
                        },
                        Ok(None) => {
                            if must && strict {
                                out.violation("C18/unexpired-shard-not-loaded", format!("{at}: query {} through {which} finds nothing although an unexpired export holds the chunk", q.label), replay.clone());
                            } else if must {
                                // a manager that was open while files were removed may miss (get_reader_if_present); logged
                                out.count("info:open_manager_misses_after_cleanup", 1);
                            }
                        },
                    }
                }
            }
            rm(&cp);
        }
        out.distinct(format!("expiry-pair:{}:{}:{}:{}:{}:{}", s.ka, s.kb, s.same, s.da, s.db, s.g));
        if idx % 37 == 0 {
            out.sample(json!({"case": "expiry-pair", "desc": desc}));
        }
    }
    vcore::vfs::set_clock(Some(T0));
    for d in [d_a, d_b, d_ea, d_eb] {
        rm(&d);
    }
}

// ------------------------------------------------------------------ C18 main

/// C18 small family.  quick: every set of <= 2 xorbs of <= 2 chunks.  thorough: additionally every
/// single xorb of 3 chunks and every pair {3-chunk xorb, 1-chunk xorb}.
fn export_family(tier: Tier) -> Vec<(Vec<Vec<u8>>, u8, u8)> {
    let mut shards = subsets_upto(&xorb_seqs(2), 2);
    if tier == Tier::Thorough {
        let three: Vec<Vec<u8>> = xorb_seqs(3).into_iter().filter(|s| s.len() == 3).collect();
        for t in &three {
            shards.push(vec![t.clone()]);
        }
        for t in &three {
            for c in 0..N_STORED {
                shards.push(vec![t.clone(), vec![c]]);
            }
        }
    }
    shards.extend(empty_xorb_shards());
    // F and G collide in the 64-bit prefix only after HMAC under k1
    shards.extend(subsets_upto(&seqs_over(&[7, 8, 0], 2), 2).into_iter().filter(|s| s.iter().flatten().any(|c| *c >= 7)));
    let mut out = vec![];
    for s in shards {
        for k in 0..3u8 {
            for f in 0..8u8 {
                out.push((s.clone(), k, f));
            }
        }
    }
    out
}

fn is_kc(x: &[Vec<u8>]) -> bool {
    x.iter().flatten().any(|c| *c >= 7)
}

fn main_c18(args: &Args) -> ! {
    let mut run = Run::new(args, "C18", "exploration");
    let scratch = Scratch::new("sdk");
    let tier = args.tier;
    vcore::vfs::set_clock(Some(T0));
    check_alphabet();
    let mut all = Partial::default();
    if let Some(rp) = &args.replay {
        let r = read_replay(rp);
        let ctx = Ctx::new(&scratch.path().join("replay"), "C18", None);
        let idx = r["case_index"].as_u64().unwrap_or(0) as usize;
        let qlen = r["qlen"].as_u64().unwrap_or(3) as usize;
        match r["kind"].as_str() {
            Some("export") => {
                let x = json_xorbs(&r["xorbs"]);
                let q = if is_kc(&x) { kc_queries(qlen) } else { all_queries(qlen) };
                run_export(&ctx, idx, &(x, r["key"].as_u64().unwrap_or(0) as u8, r["flags"].as_u64().unwrap_or(0) as u8), &q, qlen, &mut all)
            },
            Some("mixed") => {
                let ids: Vec<usize> = r["shards"].as_array().cloned().unwrap_or_default().iter().map(|x| x.as_u64().unwrap_or(0) as usize).collect();
                if ids.len() != 3 {
                    machinery_error("bad mixed replay");
                }
                run_mixed(&ctx, idx, &([ids[0], ids[1], ids[2]], r["flags"].as_u64().unwrap_or(0) as u8), &all_queries(qlen), qlen, &mut all)
            },
            Some("expiry") => run_expiry(
                &ctx,
                idx,
                &ExpirySpec { kind: r["export"].as_u64().unwrap_or(0) as u8, t: r["t"].as_i64().unwrap_or(T0), d: r["d"].as_u64().unwrap_or(0), g: r["g"].as_u64().unwrap_or(0) },
                &mut all,
            ),
            Some("expiry-pair") => run_expiry_pair(
                &ctx,
                idx,
                &ExpiryPairSpec {
                    ka: r["ka"].as_u64().unwrap_or(0) as u8,
                    kb: r["kb"].as_u64().unwrap_or(0) as u8,
                    same: r["same"].as_bool().unwrap_or(true),
                    da: r["da"].as_u64().unwrap_or(0),
                    db: r["db"].as_u64().unwrap_or(0),
                    g: r["g"].as_u64().unwrap_or(0),
                },
                &mut all,
            ),
            o => machinery_error(&format!("replay kind {o:?} is not a C18 case")),
        }
        finish_c18(run, scratch, all);
    }
    let qlen = tier.pick(3, 4);
    let qs = all_queries(qlen);
    let fam = export_family(tier);
    let kq = kc_queries(qlen);
    let (_, p) = par_run(&fam, scratch.path(), "C18", None, |ctx, i, c, out| run_export(ctx, i, c, if is_kc(&c.0) { &kq } else { &qs }, qlen, out));
    all.merge_keep_all(p);
    let mf = mixed_family(tier);
    let (_, p) = par_run(&mf, scratch.path(), "C18", None, |ctx, i, c, out| run_mixed(ctx, 1_000_000 + i, c, &qs, qlen, out));
    all.merge_keep_all(p);
    // expiry last and alone: it moves the process-wide fake clock
    let ef = expiry_family(tier);
    let ctx = Ctx::new(&scratch.path().join("expiry"), "C18", None);
    for (i, s) in ef.iter().enumerate() {
        run_expiry(&ctx, 2_000_000 + i, s, &mut all);
    }
    let pf = expiry_pair_family(tier);
    for (i, s) in pf.iter().enumerate() {
        run_expiry_pair(&ctx, 3_000_000 + i, s, &mut all);
    }
    run.set("expiry_pair_cases", json!(pf.len()));
    run.set("exports", json!(fam.len()));
    run.set("mixed_directories", json!(mf.len()));
    run.set("expiry_cases", json!(ef.len()));
    run.set("query_length_bound", json!(qlen));
    finish_c18(run, scratch, all);
}

fn finish_c18(mut run: Run, scratch: Scratch, mut all: Partial) -> ! {
    drop(scratch); // finish() exits the process
    normalise(&mut all);
    all.violations.retain(|v| v.signature.starts_with("C18/"));
    let evaluations = all.get("evals") + all.get("chunk_hashes_compared");
    run.assume("HMAC(key, h) is the BLAKE3 keyed hash of the 32 hash bytes under the 32 key bytes (reference: labs::refmodel::hmac); the zero key means 'unkeyed': hashes unchanged");
    run.assume("answers are demanded EQUAL to the original's only for shards without duplicate chunk hashes and without colliding 64-bit prefixes; elsewhere truthfulness and 'a hash stored exactly once whose prefix nothing shares is found'");
    run.assume("the instants now == expiry and now == expiry + grace are executed and logged (info:at_...) but not constrained");
    run.assume("validity periods are whole seconds and the fake clock has zero nanoseconds");
    if mutation_active() {
        run.assume("LAB_SELFTEST is set: the reference is wrong on purpose, violations are expected");
    }
    run.all = all;
    run.finish(
        evaluations,
        "exports: every small shard (sets of xorbs over a 5-hash alphabet, two file records each) x keys {zero, k1, k2} x all 8 include-flag combinations, each export read back by an independent parser of the shard layout and queried through a real ShardFileManager with all query sequences up to query_length_bound; mixed directories: ordered triples of base shards as (unkeyed, k1, k2); expiry: (export kind, creation, validity, grace) x the seven instants around expiry and end of grace under the fake clock; expiry pairs: two exports (kinds, validities, one or two originals, grace) side by side in one directory x every instant around either expiry and either end of grace, judged per export (scan, new manager before and after the cleanup, deletion). A case is distinct and non-trivial when it is a different (shard, key, flags) export, mixed directory, or expiry configuration that was executed to the end",
        true,
    );
}

fn main() {
    let args = Args::parse();
    vcore::util::quiet_panics();
    unsafe {
        let mut rl = libc::rlimit { rlim_cur: 0, rlim_max: 0 };
        if libc::getrlimit(libc::RLIMIT_NOFILE, &mut rl) == 0 {
            rl.rlim_cur = rl.rlim_max.min(1 << 16);
            libc::setrlimit(libc::RLIMIT_NOFILE, &rl);
        }
    }
    match args.prop.as_str() {
        "C05" => main_c05(&args),
        "C18" => main_c18(&args),
        _ => machinery_error("lab_shard_dedup serves C05 and C18"),
    }
}

//! Xorb lab: decides C07 (serialization round trip, exploration) and C08 (validators, fault
//! enumeration) by bounded exhaustive enumeration against the reference frame/footer model in
//! `labs::refmodel`.
//!
//! C07 runs in-process on 16 threads.  C08 runs its inputs in worker sub-processes so that an
//! abort, a stack overflow or a runaway allocation of the code under test is an observation.

use std::alloc::{GlobalAlloc, Layout, System};
use std::collections::BTreeMap;
use std::io::Cursor;
use std::panic::{catch_unwind, AssertUnwindSafe};
use std::pin::Pin;
use std::sync::atomic::{AtomicBool, AtomicIsize, AtomicUsize, Ordering};
use std::sync::Mutex;
use std::task::{Context, Poll};

use cas_object::{CasObject, CompressionScheme};
use labs::refmodel::{self as rm, RH};
use vcore::report::{fanout, machinery_error, Args, Job, Partial, Run, Tier};
use vcore::util::{Lcg, Scratch};
use vcore::{json, Value};

// ------------------------------------------------------------------ counting allocator

struct CountingAlloc;
static TRACK: AtomicBool = AtomicBool::new(false);
static CAP_ON: AtomicBool = AtomicBool::new(false);
static LIVE: AtomicIsize = AtomicIsize::new(0);
static PEAK: AtomicIsize = AtomicIsize::new(0);
static MAX_SINGLE: AtomicUsize = AtomicUsize::new(0);
const SINGLE_CAP: usize = 64 << 20;
const TOTAL_CAP: isize = 256 << 20;

fn cap_exceeded(req: usize, live: isize) -> ! {
    // no allocation here: format by hand, write(2), abort
    let mut buf = [0u8; 96];
    let mut n = 0;
    let mut put = |s: &[u8], n: &mut usize| {
        for &b in s {
            if *n < 96 {
                buf[*n] = b;
                *n += 1;
            }
        }
    };
    let num = |mut v: u64| {
        let mut d = [0u8; 20];
        let mut i = 20;
        if v == 0 {
            i -= 1;
            d[i] = b'0';
        }
        while v > 0 {
            i -= 1;
            d[i] = b'0' + (v % 10) as u8;
            v /= 10;
        }
        (d, i)
    };
    put(b"ALLOC-CAP-EXCEEDED request=", &mut n);
    let (d, i) = num(req as u64);
    put(&d[i..], &mut n);
    put(b" live=", &mut n);
    let (d, i) = num(live.max(0) as u64);
    put(&d[i..], &mut n);
    put(b"\n", &mut n);
    unsafe {
        libc::write(2, buf.as_ptr() as *const libc::c_void, n);
        libc::abort();
    }
}

#[inline]
fn note_alloc(size: usize) {
    if !TRACK.load(Ordering::Relaxed) {
        return;
    }
    let live = LIVE.fetch_add(size as isize, Ordering::Relaxed) + size as isize;
    PEAK.fetch_max(live, Ordering::Relaxed);
    MAX_SINGLE.fetch_max(size, Ordering::Relaxed);
    if CAP_ON.load(Ordering::Relaxed) && (size > SINGLE_CAP || live > TOTAL_CAP) {
        cap_exceeded(size, live);
    }
}
#[inline]
fn note_free(size: usize) {
    if TRACK.load(Ordering::Relaxed) {
        LIVE.fetch_sub(size as isize, Ordering::Relaxed);
    }
}

unsafe impl GlobalAlloc for CountingAlloc {
    unsafe fn alloc(&self, l: Layout) -> *mut u8 {
        note_alloc(l.size());
        System.alloc(l)
    }
    unsafe fn alloc_zeroed(&self, l: Layout) -> *mut u8 {
        note_alloc(l.size());
        System.alloc_zeroed(l)
    }
    unsafe fn dealloc(&self, p: *mut u8, l: Layout) {
        note_free(l.size());
        System.dealloc(p, l)
    }
    unsafe fn realloc(&self, p: *mut u8, l: Layout, new: usize) -> *mut u8 {
        note_alloc(new);
        note_free(l.size());
        System.realloc(p, l, new)
    }
}

#[global_allocator]
static GLOBAL: CountingAlloc = CountingAlloc;

// ------------------------------------------------------------------ small helpers

fn hx(b: &[u8]) -> String {
    vcore::util::hex(b)
}
fn unhex(s: &str) -> Option<Vec<u8>> {
    if s.len() % 2 != 0 {
        return None;
    }
    (0..s.len() / 2).map(|i| u8::from_str_radix(&s[2 * i..2 * i + 2], 16).ok()).collect()
}
fn fp(b: &[u8]) -> String {
    hx(&blake3::hash(b).as_bytes()[..8])
}
fn panic_sig(prop: &str) -> String {
    let loc = vcore::util::last_panic_loc();
    let loc = loc.strip_prefix("/repo/").unwrap_or(&loc).to_string();
    // registry paths: keep crate dir + file
    let loc = match loc.find("/registry/src/") {
        Some(i) => loc[i + 14..].splitn(2, '/').nth(1).unwrap_or(&loc).to_string(),
        None => loc,
    };
    format!("{prop}/panic:{loc}")
}

/// AsyncRead (tokio and futures flavours) over a slice that yields at most `k` bytes per poll and,
/// when `pend` is set, returns Pending (after waking itself) on every other poll.
struct Dribble<'a> {
    data: &'a [u8],
    pos: usize,
    k: usize,
    pend: bool,
    flip: bool,
}
impl<'a> Dribble<'a> {
    fn new(data: &'a [u8], k: usize, pend: bool) -> Self {
        Dribble {
            data,
            pos: 0,
            k: k.max(1),
            pend,
            flip: false,
        }
    }
}
impl tokio::io::AsyncRead for Dribble<'_> {
    fn poll_read(mut self: Pin<&mut Self>, cx: &mut Context<'_>, buf: &mut tokio::io::ReadBuf<'_>) -> Poll<std::io::Result<()>> {
        if self.pend {
            self.flip = !self.flip;
            if self.flip {
                cx.waker().wake_by_ref();
                return Poll::Pending;
            }
        }
        let n = self.k.min(self.data.len() - self.pos).min(buf.remaining());
        let p = self.pos;
        buf.put_slice(&self.data[p..p + n]);
        self.pos += n;
        Poll::Ready(Ok(()))
    }
}
impl futures::io::AsyncRead for Dribble<'_> {
    fn poll_read(mut self: Pin<&mut Self>, cx: &mut Context<'_>, buf: &mut [u8]) -> Poll<std::io::Result<usize>> {
        if self.pend {
            self.flip = !self.flip;
            if self.flip {
                cx.waker().wake_by_ref();
                return Poll::Pending;
            }
        }
        let n = self.k.min(self.data.len() - self.pos).min(buf.len());
        let p = self.pos;
        buf[..n].copy_from_slice(&self.data[p..p + n]);
        self.pos += n;
        Poll::Ready(Ok(n))
    }
}

fn scheme_opt(s: u8) -> Option<CompressionScheme> {
    match s {
        0 => Some(CompressionScheme::None),
        1 => Some(CompressionScheme::LZ4),
        2 => Some(CompressionScheme::ByteGrouping4LZ4),
        _ => None,
    }
}
const SCHEME_NAMES: [&str; 4] = ["none", "lz4", "bg4-lz4", "auto"];
fn scheme_from_name(s: &str) -> u8 {
    SCHEME_NAMES.iter().position(|x| *x == s).unwrap_or(3) as u8
}

// ================================================================== C07

const LENGTHS: [usize; 20] = [1, 2, 3, 4, 5, 7, 8, 63, 64, 65, 255, 256, 257, 4095, 4096, 4097, 65535, 65536, 131071, 131072];
const CLASS_NAMES: [&str; 8] = ["zeros", "noise", "ramp", "f32", "f16", "period4", "text", "period3"];

fn gen_chunk(len: usize, class: usize, salt: u64) -> Vec<u8> {
    let mut v = Vec::with_capacity(len + 4);
    match class {
        0 => v.resize(len, 0),
        1 => v = Lcg::new(0xC07_0000 + len as u64 * 7 + salt).bytes(len),
        2 => v.extend((0..len).map(|i| (i as u64 + salt) as u8)),
        3 => {
            // little-endian f32 samples of a smooth function
            let mut i = 0u32;
            while v.len() < len {
                let x = (i as f32 + salt as f32) * 0.013;
                let f = x.sin() * 2.5 + (x * 0.31).cos();
                v.extend_from_slice(&f.to_le_bytes());
                i += 1;
            }
            v.truncate(len);
        },
        4 => {
            // f16-like: noisy low (mantissa) byte, slowly varying high (sign/exponent) byte
            let mut l = Lcg::new(0xF16 + len as u64 + salt);
            let mut i = 0usize;
            while v.len() < len {
                v.push(l.byte());
                v.push(0x38 + ((i / 64) % 4) as u8);
                i += 1;
            }
            v.truncate(len);
        },
        6 => {
            // text-like: words from a small vocabulary (byte-level repetition at distances that are not
            // multiples of 4: plain LZ4 compresses it, byte grouping does not help)
            const WORDS: [&str; 12] = ["the", "chunk", "hash", "xorb", "of", "a", "shard", "merkle", "is", "stored", "in", "and"];
            let mut l = Lcg::new(0x7E87 + len as u64 + salt);
            while v.len() < len {
                v.extend_from_slice(WORDS[(l.next_u64() % 12) as usize].as_bytes());
                v.push(b' ');
            }
            v.truncate(len);
        },
        7 => {
            // period-3 records: counter, noise nibble, constant (structure at an odd distance)
            let mut l = Lcg::new(0x9E3 + len as u64 + salt);
            let mut i = 0usize;
            while v.len() < len {
                v.push((i as u64 + salt) as u8);
                v.push(l.byte() & 0x0f);
                v.push(0x41);
                i += 1;
            }
            v.truncate(len);
        },
        _ => {
            // period-4 records: counter, constant, noise nibble, constant
            let mut l = Lcg::new(0x9E4 + len as u64 + salt);
            let mut i = 0usize;
            while v.len() < len {
                v.push((i as u64 + salt) as u8);
                v.push(0);
                v.push(l.byte() & 0x0f);
                v.push(0x3f);
                i += 1;
            }
            v.truncate(len);
        },
    }
    v
}

struct AChunk {
    len: usize,
    class: usize,
    salt: u64,
    data: Vec<u8>,
    hash: RH,
}
impl AChunk {
    fn new(len: usize, class: usize, salt: u64) -> AChunk {
        let data = gen_chunk(len, class, salt);
        let hash = rm::chunk_hash(&data);
        AChunk { len, class, salt, data, hash }
    }
    fn desc(&self) -> Value {
        json!({"len": self.len, "class": CLASS_NAMES[self.class], "salt": self.salt})
    }
}

fn alphabet(lengths: &[usize], classes: &[usize]) -> Vec<AChunk> {
    let mut v = vec![];
    for &l in lengths {
        for &c in classes {
            v.push(AChunk::new(l, c, 0));
        }
    }
    v
}

#[derive(Clone, Copy, PartialEq)]
enum Ranges {
    /// every (i, j), bytes and metadata
    All,
    /// metadata for every (i, j); bytes for the documented sparse family (prefixes/suffixes at every stride-th index)
    Sparse(usize),
}

struct ObjCheck<'a> {
    chunks: Vec<&'a AChunk>,
    scheme: u8,
    ranges: Ranges,
    pieces: &'a [usize],
    kind: &'a str,
    /// when non-zero: piece sizes below 8 are used only on frame regions up to this many bytes
    small_pieces_limit: usize,
    /// range loops take start indices i with i % nparts == part; the non-range checks run in part 0 only
    part: usize,
    nparts: usize,
    /// sanity switch (env XORB_LAB_SABOTAGE): make the expectation wrong on purpose
    sabotage: u8,
}

fn tiny_list(n: usize) -> Vec<AChunk> {
    const TL: [usize; 10] = [1, 2, 3, 4, 5, 7, 8, 33, 64, 100];
    (0..n).map(|i| AChunk::new(TL[i % 10], (i * 5 + i / 10) % 6, i as u64)).collect()
}

fn sparse_family(n: usize, stride: usize) -> Vec<(usize, usize)> {
    let mut v = vec![];
    for i in 0..n {
        v.push((i, i + 1));
        if i % stride == 0 || i + 1 == n {
            v.push((0, i + 1));
            v.push((i, n));
        }
        for w in [2usize, 3, 17] {
            if i + w <= n {
                v.push((i, i + w));
            }
        }
    }
    let mut s: Vec<usize> = vec![0, 1, 2, 3, n / 2 - 1, n / 2, n / 2 + 1, n - 3, n - 2, n - 1, n];
    s.sort();
    s.dedup();
    for &i in &s {
        for &j in &s {
            if i < j && j <= n {
                v.push((i, j));
            }
        }
    }
    v.sort();
    v.dedup();
    v
}

fn check_object(oc: &ObjCheck, out: &mut Partial) {
    let n = oc.chunks.len();
    let replay = json!({
        "lab": "xorb", "kind": oc.kind, "scheme": SCHEME_NAMES[oc.scheme as usize],
        "chunks": if n <= 8 { json!(oc.chunks.iter().map(|c| c.desc()).collect::<Vec<_>>()) } else { json!(n) },
    });
    let what = |s: &str| -> String {
        let cs: Vec<String> = oc.chunks.iter().take(6).map(|c| format!("{}x{}", CLASS_NAMES[c.class], c.len)).collect();
        format!("{s} [list of {n}: {}{} ; scheme {}]", cs.join(","), if n > 6 { ",..." } else { "" }, SCHEME_NAMES[oc.scheme as usize])
    };
    let first = oc.part == 0;
    if first {
        out.count("objects", 1);
    }
    // ---- the input
    let mut data = Vec::new();
    let mut ends: Vec<u32> = vec![];
    let mut list = vec![];
    for c in &oc.chunks {
        data.extend_from_slice(&c.data);
        ends.push(data.len() as u32);
        list.push((c.hash, c.len as u64));
    }
    let starts: Vec<u32> = std::iter::once(0).chain(ends.iter().copied()).collect();
    let h_ref = rm::xorb_hash(&list);
    let mh_list: Vec<(merklehash::MerkleHash, usize)> = oc.chunks.iter().map(|c| (rm::to_mh(&c.hash), c.len)).collect();
    let h = merkledb::aggregate_hashes::cas_node_hash(&mh_list);
    if first {
        out.count(if rm::from_mh(&h) == h_ref { "info:reference_xorb_hash_agrees" } else { "info:reference_xorb_hash_DISAGREES" }, 1);
    }
    let bounds: Vec<(merklehash::MerkleHash, u32)> = oc.chunks.iter().zip(&ends).map(|(c, e)| (rm::to_mh(&c.hash), *e)).collect();
    // sanity switches: 1 = wrong expected bytes everywhere; 4 = wrong expected bytes for the code under test only
    // (the reference still sees the truth); 5 = one decoder is fed a corrupted stream; 6 = wrong expected offsets
    let mut expect = data.clone();
    if (oc.sabotage == 1 || oc.sabotage == 4) && !expect.is_empty() {
        let k = expect.len() / 2;
        expect[k] ^= 1;
    }
    let expect = &expect[..];
    let expect_ref: &[u8] = if oc.sabotage == 4 { &data[..] } else { expect };

    // ---- serialize (real code)
    let ser = catch_unwind(AssertUnwindSafe(|| {
        let mut w = Cursor::new(Vec::new());
        let r = CasObject::serialize(&mut w, &h, &data, &bounds, scheme_opt(oc.scheme));
        (r, w.into_inner())
    }));
    let (cas_w, buf) = match ser {
        Err(_) => {
            out.violation(&panic_sig("C07"), what("serialize panicked"), replay);
            return;
        },
        Ok((Err(e), _)) => {
            out.violation("C07/serialize-error", what(&format!("serialize failed: {e}")), replay);
            return;
        },
        Ok((Ok((cas, nbytes)), buf)) => {
            if nbytes != buf.len() {
                out.count("info:serialize_reported_size_differs", 1);
            }
            (cas, buf)
        },
    };
    // ---- reference view of the written bytes
    let (frame_region, footer) = match rm::split_xorb(&buf) {
        Ok(x) => x,
        Err(e) => {
            out.violation("C07/reference-decoder-disagrees", what(&format!("written object has no well-formed trailer: {e}")), replay);
            return;
        },
    };
    let frames = match rm::decode_frames(frame_region) {
        Ok(f) => f,
        Err(e) => {
            out.violation("C07/reference-decoder-disagrees", what(&format!("reference frame decoder rejects the written frames: {e}")), replay);
            return;
        },
    };
    let mut cum_phys: Vec<u32> = vec![];
    {
        let mut p = 0u32;
        let mut ok = frames.len() == n;
        for (i, f) in frames.iter().enumerate() {
            p += (rm::FRAME_HEADER_LEN + f.compressed_len) as u32;
            cum_phys.push(p);
            if ok && f.data[..] != expect_ref[starts[i] as usize..ends[i] as usize] {
                ok = false;
            }
        }
        if !ok {
            out.violation("C07/reference-decoder-disagrees", what(&format!("reference decoder reads {} frames whose contents differ from the {n} input chunks", frames.len())), replay);
            return;
        }
    }
    if oc.sabotage == 6 {
        cum_phys[n - 1] += 1;
    }
    let phys_start = |i: usize| if i == 0 { 0 } else { cum_phys[i - 1] };
    // vacuity / scheme accounting
    let mut any_compressed = false;
    for (f, c) in frames.iter().zip(&oc.chunks) {
        if !first {
            break;
        }
        match f.scheme {
            0 => out.count("vac:frames_stored", 1),
            1 => out.count("vac:frames_lz4", 1),
            _ => out.count("vac:frames_bg4_lz4", 1),
        }
        if f.scheme != 0 {
            any_compressed = true;
        }
        if oc.scheme != 0 && f.scheme == 0 {
            out.count("vac:incompressible_fallback_taken", 1);
        }
        if oc.scheme == 3 {
            match CompressionScheme::choose_from_data(&c.data) {
                CompressionScheme::ByteGrouping4LZ4 => out.count("vac:auto_selected_bg4", 1),
                CompressionScheme::LZ4 => out.count("vac:auto_selected_lz4", 1),
                CompressionScheme::None => out.count("info:auto_selected_none", 1),
            }
            if f.scheme == 2 {
                out.count("vac:auto_wrote_bg4_frame", 1);
            }
        }
    }
    if first && (n >= 2 || any_compressed) {
        out.distinct(fp(&buf));
    }
    // reference footer view (informational cross-check of the footer layout knowledge)
    if first {
        match rm::parse_footer_info(&footer[..footer.len() - 4]) {
            Ok(f) if f.version == 1 => out.count("info:reference_footer_parser_reads_written_footer", 1),
            _ => out.count("info:reference_footer_parser_REJECTS_written_footer", 1),
        }
    }

    // ---- read back (real code), everything under catch_unwind
    let mut vio: Vec<(String, String)> = vec![];
    let res = catch_unwind(AssertUnwindSafe(|| {
        let mut vio: Vec<(String, String)> = vec![];
        let mut counts: BTreeMap<&'static str, u64> = BTreeMap::new();
        let mut rd = Cursor::new(&buf[..]);
        let cas = match CasObject::deserialize(&mut rd) {
            Ok(c) => c,
            Err(e) => {
                vio.push(("C07/deserialize-error".into(), format!("CasObject::deserialize failed on the written object: {e}")));
                return (vio, counts);
            },
        };
        if cas != cas_w {
            *counts.entry("info:deserialized_object_differs_from_serialize_return").or_default() += 1;
        }
        let inf = &cas.info;
        if inf.num_chunks as usize != n || inf.chunk_hashes.len() != n || inf.chunk_hashes.iter().zip(&oc.chunks).any(|(a, c)| rm::from_mh(a) != c.hash) {
            vio.push(("C07/footer-chunk-hashes".into(), format!("footer lists {} chunks / hashes differing from the input", inf.num_chunks)));
        }
        if inf.unpacked_chunk_offsets != ends {
            vio.push(("C07/footer-unpacked-offsets".into(), "unpacked_chunk_offsets differ from the cumulative input chunk lengths".into()));
        }
        if inf.chunk_boundary_offsets != cum_phys {
            vio.push(("C07/footer-boundary-offsets".into(), "chunk_boundary_offsets differ from the cumulative sizes of the written frames".into()));
        }
        if inf.cashash != h {
            vio.push(("C07/footer-xorb-hash".into(), "footer xorb hash differs from the hash given to serialize".into()));
        }
        if !vio.is_empty() {
            return (vio, counts);
        }
        match if first { cas.get_all_bytes(&mut rd) } else { Ok(expect.to_vec()) } {
            Ok(b) if b[..] == *expect => {},
            Ok(b) => vio.push(("C07/all-bytes".into(), format!("get_all_bytes returned {} bytes differing from the {} input bytes", b.len(), expect.len()))),
            Err(e) => vio.push(("C07/all-bytes".into(), format!("get_all_bytes failed: {e}"))),
        }
        for i in (0..n).filter(|i| i % oc.nparts == oc.part) {
            match cas.uncompressed_chunk_length(i as u32) {
                Ok(l) if l == ends[i] - starts[i] => {},
                r => vio.push(("C07/chunk-length".into(), format!("uncompressed_chunk_length({i}) = {r:?}, input chunk has {} bytes", ends[i] - starts[i]))),
            }
        }
        // metadata for every range
        for i in (0..n).filter(|i| i % oc.nparts == oc.part) {
            for j in i + 1..=n {
                *counts.entry("ranges_metadata").or_default() += 1;
                match cas.uncompressed_range_length(i as u32, j as u32) {
                    Ok(l) if l == starts[j] - starts[i] => {},
                    r => {
                        vio.push(("C07/range-length".into(), format!("uncompressed_range_length({i},{j}) = {r:?}, expected {}", starts[j] - starts[i])));
                        return (vio, counts);
                    },
                }
                match cas.get_byte_offset(i as u32, j as u32) {
                    Ok((s, e)) if s == phys_start(i) && e == cum_phys[j - 1] => {},
                    r => {
                        vio.push((
                            "C07/byte-offset".into(),
                            format!("get_byte_offset({i},{j}) = {r:?}, but frames {i}..{j} occupy bytes {}..{} of the written stream", phys_start(i), cum_phys[j - 1]),
                        ));
                        return (vio, counts);
                    },
                }
            }
        }
        // bytes of ranges
        let fam: Vec<(usize, usize)> = match oc.ranges {
            Ranges::All => (0..n).flat_map(|i| (i + 1..=n).map(move |j| (i, j))).collect(),
            Ranges::Sparse(stride) => sparse_family(n, stride),
        };
        for (idx, (i, j)) in fam.into_iter().enumerate() {
            // (interleaved by position in the family: all prefixes share i = 0)
            if idx % oc.nparts != oc.part {
                continue;
            }
            *counts.entry("ranges_bytes").or_default() += 1;
            if j - i < n {
                *counts.entry("vac:proper_subranges_read").or_default() += 1;
            }
            match cas.get_bytes_by_chunk_range(&mut rd, i as u32, j as u32) {
                Ok(b) if b[..] == expect[starts[i] as usize..starts[j] as usize] => {},
                Ok(b) => {
                    vio.push(("C07/range-bytes".into(), format!("get_bytes_by_chunk_range({i},{j}) returned {} bytes differing from input bytes {}..{}", b.len(), starts[i], starts[j])));
                    return (vio, counts);
                },
                Err(e) => {
                    vio.push(("C07/range-bytes".into(), format!("get_bytes_by_chunk_range({i},{j}) failed: {e}")));
                    return (vio, counts);
                },
            }
            if n <= 4 {
                // the physical range named by get_byte_offset decodes (reference decoder) to exactly chunks i..j
                if let Ok((s, e)) = cas.get_byte_offset(i as u32, j as u32) {
                    let ok = match rm::decode_frames(&buf[s as usize..e as usize]) {
                        Ok(fs) => {
                            let cat: Vec<u8> = fs.iter().flat_map(|f| f.data.iter().copied()).collect();
                            fs.len() == j - i && cat[..] == expect[starts[i] as usize..starts[j] as usize]
                        },
                        Err(_) => false,
                    };
                    if !ok {
                        vio.push(("C07/byte-offset".into(), format!("bytes {s}..{e} named by get_byte_offset({i},{j}) do not decode to exactly chunks {i}..{j}")));
                        return (vio, counts);
                    }
                }
            }
        }
        if !first {
            return (vio, counts);
        }
        // ---- the three chunk-stream decoders on the frame region
        let idx_expect: Vec<u32> = starts.clone();
        let sync = cas_object::deserialize_chunks(&mut Cursor::new(frame_region));
        let sync = match sync {
            Ok(x) => x,
            Err(e) => {
                vio.push(("C07/sync-decoder".into(), format!("deserialize_chunks failed on the written frames: {e}")));
                return (vio, counts);
            },
        };
        if sync.0[..] != *expect || sync.1 != idx_expect {
            vio.push(("C07/sync-decoder".into(), format!("deserialize_chunks returned {} bytes / {} indices differing from the input", sync.0.len(), sync.1.len())));
            return (vio, counts);
        }
        for &k in oc.pieces {
            if oc.small_pieces_limit > 0 && k != 0 && k < 8 && frame_region.len() > oc.small_pieces_limit {
                continue;
            }
            let kk = if k == 0 { frame_region.len().max(1) } else { k };
            for pend in [false, true] {
                if pend && k != 3 {
                    continue;
                }
                *counts.entry("decoder_comparisons").or_default() += 1;
                let mut r = Dribble::new(frame_region, kk, pend);
                let a = futures::executor::block_on(cas_object::deserialize_async::deserialize_chunks_from_async_read(&mut r));
                match a {
                    Ok(a) if a == sync => {},
                    Ok(_) => vio.push(("C07/decoders-disagree".into(), format!("async decoder fed {kk} bytes per poll (pending={pend}) differs from the sync decoder"))),
                    Err(e) => vio.push(("C07/decoders-disagree".into(), format!("async decoder fed {kk} bytes per poll (pending={pend}) failed: {e}; the sync decoder succeeded"))),
                }
            }
            *counts.entry("decoder_comparisons").or_default() += 1;
            let mut fr_copy = frame_region.to_vec();
            if oc.sabotage == 5 && k == 8 {
                let l = fr_copy.len();
                fr_copy[l - 1] ^= 1;
            }
            let all = bytes::Bytes::from(fr_copy);
            let total = all.len();
            let it = (0..total).step_by(kk).map(move |s| Ok::<bytes::Bytes, std::io::Error>(all.slice(s..(s + kk).min(total))));
            let st = futures::stream::iter(it);
            match futures::executor::block_on(cas_object::deserialize_async::deserialize_chunks_from_stream(st)) {
                Ok(a) if a == sync => {},
                Ok(_) => vio.push(("C07/decoders-disagree".into(), format!("stream decoder fed pieces of {kk} bytes differs from the sync decoder"))),
                Err(e) => vio.push(("C07/decoders-disagree".into(), format!("stream decoder fed pieces of {kk} bytes failed: {e}; the sync decoder succeeded"))),
            }
            // the same pieces as NON-CONTIGUOUS buffers (each piece a chain of its two halves): the stream decoder is
            // generic over bytes::Buf, whose chunk() shows only the first contiguous part
            {
                use bytes::Buf;
                *counts.entry("decoder_comparisons").or_default() += 1;
                let all2 = bytes::Bytes::from(frame_region.to_vec());
                let it = (0..total).step_by(kk).map(move |s| {
                    let piece = all2.slice(s..(s + kk).min(total));
                    let mid = piece.len() / 2;
                    Ok::<_, std::io::Error>(piece.slice(..mid).chain(piece.slice(mid..)))
                });
                match futures::executor::block_on(cas_object::deserialize_async::deserialize_chunks_from_stream(futures::stream::iter(it))) {
                    Ok(a) if a == sync => {},
                    Ok(_) => vio.push(("C07/decoders-disagree".into(), format!("stream decoder fed pieces of {kk} bytes, each as a chain of two buffers, differs from the sync decoder"))),
                    Err(e) => vio.push(("C07/decoders-disagree".into(), format!("stream decoder fed pieces of {kk} bytes, each as a chain of two buffers, failed: {e}; the sync decoder succeeded"))),
                }
            }
            if !vio.is_empty() {
                return (vio, counts);
            }
        }
        (vio, counts)
    }));
    match res {
        Err(_) => vio.push((panic_sig("C07"), "reading back the written object panicked".into())),
        Ok((v, counts)) => {
            vio.extend(v);
            for (k, c) in counts {
                out.count(k, c);
            }
        },
    }
    for (sig, w) in vio {
        out.violation(&sig, what(&w), replay.clone());
    }
}

/// single-frame API: serialize_chunk / deserialize_chunk (sync and async)
fn check_single_chunk(c: &AChunk, scheme: u8, sabotage: u8, out: &mut Partial) {
    out.count("single_chunk_cases", 1);
    let replay = json!({"lab": "xorb", "kind": "chunk", "scheme": SCHEME_NAMES[scheme as usize], "chunks": [c.desc()]});
    let r = catch_unwind(AssertUnwindSafe(|| {
        let mut w = Vec::new();
        let nw = cas_object::serialize_chunk(&c.data, &mut w, scheme_opt(scheme)).map_err(|e| format!("serialize_chunk failed: {e}"))?;
        let mut expect = c.data.clone();
        if sabotage == 1 {
            expect[0] ^= 1;
        }
        let (d, cl, ul) = cas_object::deserialize_chunk(&mut Cursor::new(&w[..])).map_err(|e| format!("deserialize_chunk failed: {e}"))?;
        if d != expect || ul as usize != c.len {
            return Err(format!("sync deserialize_chunk returned {} bytes (header says {ul}) differing from the {}-byte input", d.len(), c.len));
        }
        let mut info = 0u64;
        if cl != w.len() || nw != w.len() {
            info += 1;
        }
        for k in [1usize, 3, 8, w.len()] {
            let mut rd = Dribble::new(&w, k, false);
            let (d2, cl2, ul2) =
                futures::executor::block_on(cas_object::deserialize_async::deserialize_chunk(&mut rd)).map_err(|e| format!("async deserialize_chunk ({k} bytes per poll) failed: {e}"))?;
            if d2 != d || ul2 != ul {
                return Err(format!("async deserialize_chunk ({k} bytes per poll) differs from the sync result"));
            }
            if cl2 != cl {
                info += 1;
            }
        }
        Ok(info)
    }));
    match r {
        Err(_) => out.violation(&panic_sig("C07"), format!("single chunk {}x{} scheme {} panicked", CLASS_NAMES[c.class], c.len, SCHEME_NAMES[scheme as usize]), replay),
        Ok(Err(e)) => out.violation("C07/chunk-roundtrip", format!("{e} [chunk {}x{} scheme {}]", CLASS_NAMES[c.class], c.len, SCHEME_NAMES[scheme as usize]), replay),
        Ok(Ok(info)) => out.count("info:chunk_consumed_length_mismatch", info),
    }
}

fn check_bg4(len: usize, content: usize, sabotage: u8, out: &mut Partial) {
    use cas_object::byte_grouping::bg4;
    out.count("bg4_cases", 1);
    let data: Vec<u8> = match content {
        0 => (0..len).map(|i| (i * 7 + 1) as u8).collect(), // injective on short inputs: the permutation is visible
        _ => Lcg::new(0xB64 + len as u64).bytes(len),
    };
    let replay = json!({"lab": "xorb", "kind": "bg4", "len": len, "content": content});
    let r = catch_unwind(AssertUnwindSafe(|| {
        let mut errs = vec![];
        let mut expect = data.clone();
        if sabotage == 1 && len > 0 {
            expect[len / 2] ^= 1;
        }
        let s = bg4::bg4_split(&data);
        if s != rm::bg4_split(&data) {
            errs.push("bg4_split differs from the reference grouping".to_string());
        }
        if bg4::bg4_regroup(&s) != expect {
            errs.push("bg4_regroup(bg4_split(x)) != x".to_string());
        }
        if bg4::bg4_regroup(&data) != rm::bg4_regroup(&data) {
            errs.push("bg4_regroup differs from the reference regrouping on an arbitrary input".to_string());
        }
        if rm::bg4_regroup(&rm::bg4_split(&data)) != data {
            errs.push("REFERENCE regroup(split(x)) != x".to_string());
        }
        // the other public variants of the same file
        let sep = bg4::bg4_split_separate(&data);
        if sep.concat() != s || bg4::bg4_regroup_separate(&sep) != expect {
            errs.push("bg4_split_separate / bg4_regroup_separate do not round-trip".to_string());
        }
        if bg4::bg4_regroup_together_combined_write_4(&s) != expect || bg4::bg4_regroup_together_combined_write_8(&s) != expect {
            errs.push("bg4_regroup_together_combined_write_{4,8}(bg4_split(x)) != x".to_string());
        }
        errs
    }));
    match r {
        Err(_) => out.violation(&panic_sig("C07"), format!("bg4 split/regroup panicked at length {len}"), replay),
        Ok(errs) => {
            for e in errs {
                out.violation("C07/bg4-roundtrip", format!("{e} [length {len}, content {content}]"), replay.clone());
            }
        },
    }
    if len >= 4 {
        out.distinct(format!("bg4:{len}:{content}"));
    }
}

#[derive(Clone)]
enum Work {
    Chunks(usize),
    Bg4,
    /// all lists [a] and [a, b] for every b, all schemes
    Upto2(usize),
    /// all lists [a, b, c] (and, with `four`, [a, b, c, d]) over the reduced alphabet
    Deep(usize, usize, bool),
    /// (list size, scheme, part, nparts)
    Tiny(usize, u8, usize, usize),
}

fn c07(args: &Args) {
    vcore::util::quiet_panics();
    let tier = args.tier;
    let sabotage: u8 = std::env::var("XORB_LAB_SABOTAGE").ok().and_then(|s| s.parse().ok()).unwrap_or(0);
    let mut run = Run::new(args, "C07", "exploration");
    let max_chunk = merkledb::constants::MAXIMUM_CHUNK_SIZE;
    if LENGTHS.iter().any(|l| *l > max_chunk) {
        machinery_error("chunk alphabet exceeds MAXIMUM_CHUNK_SIZE");
    }
    let classes: Vec<usize> = (0..8).collect();
    let full = alphabet(&LENGTHS, &classes);
    // lists of <= 2 chunks: the full alphabet in both tiers
    let pair_lengths: Vec<usize> = LENGTHS.to_vec();
    let red_lengths: Vec<usize> = tier.pick(vec![1, 3, 4, 5, 64, 257, 4097], vec![1, 2, 3, 4, 5, 8, 64, 257, 4097]);
    let red_classes: Vec<usize> = tier.pick(vec![0, 1, 3, 5, 6], vec![0, 1, 3, 4, 5, 6, 7]);
    let reduced = alphabet(&red_lengths, &red_classes);
    let four_lengths: Vec<usize> = tier.pick(vec![1, 4, 5, 257], vec![1, 4, 5, 64, 257]);
    let four_classes: Vec<usize> = tier.pick(vec![0, 1, 3], vec![0, 1, 3, 5]);
    let four = alphabet(&four_lengths, &four_classes);
    let tiny_a = tiny_list(1000);
    let tiny_b = tiny_list(8192);
    let pieces_all: [usize; 4] = [1, 3, 8, 0];
    let small_pieces_limit: usize = tier.pick(40_000, 0);
    let big_stride: usize = tier.pick(16, 1);

    // simplest first (this is the merge order, so the first violation kept per signature is the smallest case)
    let mut work: Vec<Work> = vec![];
    work.push(Work::Bg4);
    for a in 0..full.len() {
        work.push(Work::Chunks(a));
    }
    for a in 0..full.len() {
        work.push(Work::Upto2(a));
    }
    for a in 0..reduced.len() {
        for b in 0..reduced.len() {
            work.push(Work::Deep(a, b, false));
        }
    }
    for a in 0..four.len() {
        for b in 0..four.len() {
            work.push(Work::Deep(a, b, true));
        }
    }
    for s in 0..4u8 {
        work.push(Work::Tiny(1000, s, 0, 1));
    }
    for s in 0..4u8 {
        for part in 0..16 {
            work.push(Work::Tiny(8192, s, part, 16));
        }
    }
    // scheduling order: most expensive first (better packing on 16 threads)
    let cost = |w: &Work| -> usize {
        match w {
            Work::Tiny(8192, ..) => usize::MAX,
            Work::Tiny(..) => usize::MAX / 2,
            Work::Upto2(a) => full[*a].len * 100,
            Work::Deep(a, b, f) => {
                let al = if *f { &four } else { &reduced };
                (al[*a].len + al[*b].len) * if *f { 20 } else { 4 }
            },
            Work::Chunks(a) => full[*a].len,
            Work::Bg4 => 300_000,
        }
    };
    let mut sched: Vec<usize> = (0..work.len()).collect();
    sched.sort_by_key(|i| std::cmp::Reverse(cost(&work[*i])));
    if let Some(rp) = &args.replay {
        let v: Value = serde_json::from_slice(&std::fs::read(rp).unwrap_or_else(|e| machinery_error(&format!("read replay: {e}"))))
            .unwrap_or_else(|e| machinery_error(&format!("parse replay: {e}")));
        let r = &v["replay"];
        let mut out = Partial::default();
        let scheme = scheme_from_name(r["scheme"].as_str().unwrap_or("auto"));
        match r["kind"].as_str().unwrap_or("") {
            "bg4" => check_bg4(r["len"].as_u64().unwrap_or(0) as usize, r["content"].as_u64().unwrap_or(0) as usize, sabotage, &mut out),
            "tiny" => {
                let n = r["chunks"].as_u64().unwrap_or(1000) as usize;
                let l = tiny_list(n);
                check_object(&ObjCheck { chunks: l.iter().collect(), scheme, ranges: Ranges::Sparse(1), pieces: &pieces_all, kind: "tiny", part: 0, nparts: 1, small_pieces_limit, sabotage }, &mut out);
            },
            k => {
                let cs: Vec<AChunk> = r["chunks"]
                    .as_array()
                    .cloned()
                    .unwrap_or_default()
                    .iter()
                    .map(|c| {
                        let class = CLASS_NAMES.iter().position(|x| Some(*x) == c["class"].as_str()).unwrap_or(0);
                        AChunk::new(c["len"].as_u64().unwrap_or(1) as usize, class, c["salt"].as_u64().unwrap_or(0))
                    })
                    .collect();
                if cs.is_empty() {
                    machinery_error("replay file has no chunk list");
                }
                if k == "chunk" {
                    check_single_chunk(&cs[0], scheme, sabotage, &mut out);
                } else {
                    check_object(&ObjCheck { chunks: cs.iter().collect(), scheme, ranges: Ranges::All, pieces: &pieces_all, kind: "list", part: 0, nparts: 1, small_pieces_limit, sabotage }, &mut out);
                }
            },
        }
        out.sample(r.clone());
        run.all = out;
        run.finish(1, "replay of one recorded case", false);
    }

    let results: Vec<Mutex<Option<Partial>>> = work.iter().map(|_| Mutex::new(None)).collect();
    let next = AtomicUsize::new(0);
    let t_begin = std::time::Instant::now();
    std::thread::scope(|sc| {
        for _ in 0..16 {
            sc.spawn(|| {
                vcore::util::quiet_panics();
                loop {
                    let i = next.fetch_add(1, Ordering::SeqCst);
                    if i >= work.len() {
                        break;
                    }
                    let i = sched[i];
                    let mut out = Partial::default();
                    let t0 = std::time::Instant::now();
                    match &work[i] {
                        Work::Bg4 => {
                            let mut lens: Vec<usize> = (0..=67).collect();
                            lens.extend([255, 256, 257, 1021, 4096, 65533, 65534, 65535, 65536, 131071, 131072]);
                            for l in lens {
                                for content in 0..2 {
                                    check_bg4(l, content, sabotage, &mut out);
                                }
                            }
                        },
                        Work::Chunks(a) => {
                            for s in 0..4u8 {
                                check_single_chunk(&full[*a], s, sabotage, &mut out);
                            }
                        },
                        Work::Upto2(a) => {
                            let ca = &full[*a];
                            for s in 0..4u8 {
                                check_object(&ObjCheck { chunks: vec![ca], scheme: s, ranges: Ranges::All, pieces: &pieces_all, kind: "list", part: 0, nparts: 1, small_pieces_limit, sabotage }, &mut out);
                                if *a == 0 {
                                    out.sample(json!({"list": [ca.desc()], "scheme": SCHEME_NAMES[s as usize]}));
                                }
                            }
                            for cb in full.iter() {
                                for s in 0..4u8 {
                                    check_object(&ObjCheck { chunks: vec![ca, cb], scheme: s, ranges: Ranges::All, pieces: &pieces_all, kind: "list", part: 0, nparts: 1, small_pieces_limit, sabotage }, &mut out);
                                }
                            }
                        },
                        Work::Deep(a, b, is_four) => {
                            let al = if *is_four { &four } else { &reduced };
                            for c in al.iter() {
                                if *is_four {
                                    for d in al.iter() {
                                        for s in 0..4u8 {
                                            check_object(
                                                &ObjCheck { chunks: vec![&al[*a], &al[*b], c, d], scheme: s, ranges: Ranges::All, pieces: &pieces_all, kind: "list", part: 0, nparts: 1, small_pieces_limit, sabotage },
                                                &mut out,
                                            );
                                        }
                                    }
                                } else {
                                    for s in 0..4u8 {
                                        check_object(&ObjCheck { chunks: vec![&al[*a], &al[*b], c], scheme: s, ranges: Ranges::All, pieces: &pieces_all, kind: "list", part: 0, nparts: 1, small_pieces_limit, sabotage }, &mut out);
                                    }
                                }
                            }
                            if *a == 1 && *b == 2 {
                                out.sample(json!({"list": [al[*a].desc(), al[*b].desc(), al[0].desc()], "scheme": "each of none/lz4/bg4-lz4/auto"}));
                            }
                        },
                        Work::Tiny(n, s, part, nparts) => {
                            let l = if *n == 1000 { &tiny_a } else { &tiny_b };
                            check_object(
                                &ObjCheck { chunks: l.iter().collect(), scheme: *s, ranges: Ranges::Sparse(if *n == 8192 { big_stride } else { 1 }), pieces: &pieces_all, kind: "tiny", part: *part, nparts: *nparts, small_pieces_limit, sabotage },
                                &mut out,
                            );
                            if *part == 0 {
                                out.count("vac:large_lists", 1);
                            }
                            if *s == 3 && *part == 0 {
                                out.sample(json!({"list": format!("{n} tiny chunks (lengths cycling 1,2,3,4,5,7,8,33,64,100; six content classes)"), "scheme": "auto"}));
                            }
                        },
                    }
                    if std::env::var("XORB_LAB_TIMING").is_ok() {
                        eprintln!("work {i} took {:.2}s (started at +{:.2}s)", t0.elapsed().as_secs_f64(), t_begin.elapsed().as_secs_f64() - t0.elapsed().as_secs_f64());
                    }
                    *results[i].lock().unwrap() = Some(out);
                }
            });
        }
    });
    let mut all = Partial::default();
    for r in results {
        if let Some(p) = r.into_inner().unwrap() {
            all.merge(p);
        }
    }
    let evaluations = all.get("objects") + all.get("single_chunk_cases") + all.get("bg4_cases");
    run.set("alphabet_chunks", json!(full.len()));
    run.set(
        "bounds",
        json!({
            "lengths": LENGTHS, "classes": CLASS_NAMES, "schemes": SCHEME_NAMES,
            "lists_up_to_2_over_lengths": pair_lengths,
            "lists_of_3_over": {"lengths": red_lengths, "classes": red_classes.iter().map(|c| CLASS_NAMES[*c]).collect::<Vec<_>>()},
            "lists_of_4_over": {"lengths": four_lengths, "classes": four_classes.iter().map(|c| CLASS_NAMES[*c]).collect::<Vec<_>>()},
            "large_lists": [1000, 8192],
            "decoder_piece_sizes": "1, 3, 8, whole (async additionally 3 with Pending on every other poll)",
            "piece_sizes_1_and_3_only_for_frame_regions_up_to_bytes": if small_pieces_limit == 0 { json!("unlimited") } else { json!(small_pieces_limit) },
            "max_chunk_size": max_chunk,
        }),
    );
    run.assume("LZ4 frame coding is lz4_flex in both the code under test and the reference decoder (shared trusted base)");
    if small_pieces_limit != 0 {
        run.assume("quick tier: the async/stream decoders are fed 1- and 3-byte pieces only for objects whose frame region is at most 40000 bytes (8-byte and whole pieces for all); the thorough tier has no such limit");
    }
    run.assume("large lists (1000 and 8192 chunks): offsets/lengths are checked for every range, bytes for the sparse family (all single chunks, all prefixes, all suffixes, windows of 2/3/17, all pairs over 11 landmark indices)");
    if big_stride != 1 {
        run.assume("quick tier: for the 8192-chunk list the prefixes and suffixes are read at every 16th index only");
    }
    if sabotage != 0 {
        run.assume("SABOTAGED RUN (XORB_LAB_SABOTAGE): expectations deliberately wrong");
    }
    run.all = all;
    run.finish(
        evaluations,
        "every list of <= 2 chunks over the (length x content class) alphabet, every list of 3 and of 4 chunks over the reduced alphabets, one list each of 1000 and 8192 tiny chunks, each under the four compression requests; every single chunk through serialize_chunk/deserialize_chunk; bg4 split/regroup for every length 0..=67 and 11 larger ones. Evaluations = objects + single-chunk cases + bg4 cases. A case is distinct by the bytes of the serialized object and non-trivial when it has >= 2 chunks or at least one compressed frame (bg4 cases: length >= 4)",
        true,
    );
}

fn main() {
    let args = Args::parse();
    if let Some(w) = &args.worker {
        c08::worker(&args, w);
        return;
    }
    match args.prop.as_str() {
        "C07" => c07(&args),
        "C08" => c08::parent(&args),
        _ => machinery_error("lab_xorb serves C07 and C08"),
    }
}

mod c08 {
    use super::*;
    use cas_object::error::CasObjectError;

    pub const FOOT_V1: u8 = 1;
    pub const FOOT_V0: u8 = 0;
    pub const FOOT_NONE: u8 = 2;
    const FOOT_NAMES: [&str; 3] = ["v0", "v1", "nofooter"];

    #[derive(Clone)]
    pub struct Frame {
        pub raw: Vec<u8>,
        pub data: Vec<u8>,
    }

    pub struct Seed {
        pub name: String,
        pub bytes: Vec<u8>,
        pub hash: RH,
        pub frames: Vec<Frame>,
        pub frames_end: usize,
        pub footer_kind: u8,
    }

    /// seed chunks: Z zeros (compress under every scheme), P period-4 records and H f16-like (compress under
    /// byte grouping only), F f32 series, N noise (never compresses: the stored fallback)
    fn pool(c: char) -> Vec<u8> {
        match c {
            'Z' => gen_chunk(96, 0, 0),
            'z' => gen_chunk(64, 0, 0),
            'P' => gen_chunk(200, 5, 0),
            'H' => gen_chunk(120, 4, 0),
            'F' => gen_chunk(160, 3, 0),
            _ => gen_chunk(40, 1, 0),
        }
    }
    fn seed_list(n: usize, scheme: u8) -> &'static str {
        match (n, scheme) {
            (1, 0) => "N",
            (1, 1) => "Z",
            (1, 2) => "P",
            (1, _) => "z",
            (2, 0) => "ZP",
            (2, 1) => "ZN",
            (2, 2) => "HN",
            (2, _) => "Fz",
            (3, 0) => "NZP",
            (3, 1) => "NZP",
            (3, 2) => "ZPN",
            (3, _) => "PZN",
            _ => "ZPZ", // the same chunk twice
        }
    }

    fn list_of(frames: &[Frame]) -> Vec<(RH, u64)> {
        frames.iter().map(|f| (rm::chunk_hash(&f.data), f.data.len() as u64)).collect()
    }

    /// frames + footer of the given kind, consistent with the frames; `claim` overrides the xorb hash written in the footer
    fn assemble(frames: &[Frame], footer_kind: u8, claim: Option<RH>) -> Vec<u8> {
        let list = list_of(frames);
        let h = claim.unwrap_or_else(|| rm::xorb_hash(&list));
        let mut out = Vec::new();
        let mut phys = vec![];
        let mut unp = vec![];
        let mut u = 0u32;
        for f in frames {
            out.extend_from_slice(&f.raw);
            phys.push(out.len() as u32);
            u += f.data.len() as u32;
            unp.push(u);
        }
        let hashes: Vec<RH> = list.iter().map(|x| x.0).collect();
        match footer_kind {
            FOOT_V1 => out.extend_from_slice(&rm::build_footer(&h, &hashes, &phys, Some(&unp))),
            FOOT_V0 => out.extend_from_slice(&rm::build_footer(&h, &hashes, &phys, None)),
            _ => {},
        }
        out
    }

    pub fn seeds(tier: Tier) -> Vec<Seed> {
        let mut specs: Vec<(usize, u8, u8)> = vec![]; // (chunks, scheme, footer kind)
        for n in 1..=3usize {
            for s in 0..4u8 {
                specs.push((n, s, FOOT_V1));
            }
        }
        for n in 1..=3usize {
            for s in 0..4u8 {
                let quick_nofooter = s == 1 || s == 3;
                if tier == Tier::Thorough || quick_nofooter {
                    specs.push((n, s, FOOT_NONE));
                }
                if tier == Tier::Thorough || !quick_nofooter {
                    specs.push((n, s, FOOT_V0));
                }
            }
        }
        if tier == Tier::Thorough {
            // a list holding the same chunk twice
            specs.push((13, 2, FOOT_V1));
        }
        let mut out = vec![];
        for (k, (n, s, fk)) in specs.into_iter().enumerate() {
            let chunks: Vec<Vec<u8>> = seed_list(n, s).chars().map(pool).collect();
            let list: Vec<(RH, u64)> = chunks.iter().map(|c| (rm::chunk_hash(c), c.len() as u64)).collect();
            let h_ref = rm::xorb_hash(&list);
            let mh: Vec<(merklehash::MerkleHash, usize)> = list.iter().map(|(h, l)| (rm::to_mh(h), *l as usize)).collect();
            let h_repo = merkledb::aggregate_hashes::cas_node_hash(&mh);
            if rm::from_mh(&h_repo) != h_ref {
                machinery_error("reference xorb hash differs from merkledb::aggregate_hashes::cas_node_hash on a seed: the C08 oracle would be unsound");
            }
            let mut data = vec![];
            let mut bounds = vec![];
            for (c, (h, _)) in chunks.iter().zip(&list) {
                data.extend_from_slice(c);
                bounds.push((rm::to_mh(h), data.len() as u32));
            }
            let mut w = Cursor::new(Vec::new());
            CasObject::serialize(&mut w, &h_repo, &data, &bounds, scheme_opt(s)).unwrap_or_else(|e| machinery_error(&format!("cannot serialize seed: {e}")));
            let v1 = w.into_inner();
            let (fr, _) = rm::split_xorb(&v1).unwrap_or_else(|e| machinery_error(&format!("seed does not split: {e}")));
            let decoded = rm::decode_frames(fr).unwrap_or_else(|e| machinery_error(&format!("reference cannot decode a seed: {e}")));
            let mut frames = vec![];
            let mut p = 0;
            for (d, c) in decoded.iter().zip(&chunks) {
                if d.data != *c {
                    machinery_error("reference decodes a seed to different chunks");
                }
                let e = p + rm::FRAME_HEADER_LEN + d.compressed_len;
                frames.push(Frame { raw: fr[p..e].to_vec(), data: d.data.clone() });
                p = e;
            }
            let frames_end = fr.len();
            let bytes = match fk {
                FOOT_V1 => {
                    // the hand-assembled layout must be byte-identical to what the serializer wrote
                    if assemble(&frames, FOOT_V1, None) != v1 {
                        machinery_error("reference footer builder differs from the serializer's footer: layout knowledge is stale");
                    }
                    v1.clone()
                },
                k => assemble(&frames, k, None),
            };
            let label = if n == 13 { "dup".to_string() } else { format!("{n}") };
            out.push(Seed {
                name: format!("s{k:02}-{label}chunks-{}-{}", SCHEME_NAMES[s as usize], FOOT_NAMES[match fk { FOOT_V0 => 0, FOOT_V1 => 1, _ => 2 }]),
                bytes,
                hash: h_ref,
                frames,
                frames_end,
                footer_kind: fk,
            });
        }
        out
    }

    pub struct Mut {
        pub desc: String,
        pub bytes: Vec<u8>,
        pub extra_hashes: Vec<RH>,
    }

    fn set_le(b: &mut [u8], off: usize, width: usize, v: u64) {
        for i in 0..width {
            b[off + i] = (v >> (8 * i)) as u8;
        }
    }
    fn get_le(b: &[u8], off: usize, width: usize) -> u64 {
        (0..width).map(|i| (b[off + i] as u64) << (8 * i)).sum()
    }

    /// (name, offset, width) of every count / length / offset field of the object
    fn fields(seed: &Seed) -> Vec<(String, usize, usize)> {
        let mut v = vec![];
        let mut p = 0;
        for (i, f) in seed.frames.iter().enumerate() {
            v.push((format!("frame{i}.compressed_len"), p + 1, 3));
            v.push((format!("frame{i}.uncompressed_len"), p + 5, 3));
            p += f.raw.len();
        }
        let n = seed.frames.len();
        let f0 = seed.frames_end;
        match seed.footer_kind {
            FOOT_V1 => {
                v.push(("hashes_section.num_chunks".into(), f0 + 48, 4));
                let bs = f0 + 52 + 32 * n;
                v.push(("boundaries_section.num_chunks".into(), bs + 8, 4));
                for i in 0..n {
                    v.push((format!("boundary[{i}]"), bs + 12 + 4 * i, 4));
                }
                for i in 0..n {
                    v.push((format!("unpacked[{i}]"), bs + 12 + 4 * n + 4 * i, 4));
                }
                let t = bs + 12 + 8 * n;
                v.push(("trailer.num_chunks".into(), t, 4));
                v.push(("hashes_section_offset_from_end".into(), t + 4, 4));
                v.push(("boundary_section_offset_from_end".into(), t + 8, 4));
                v.push(("info_length".into(), t + 12 + 16, 4));
            },
            FOOT_V0 => {
                v.push(("v0.num_chunks".into(), f0 + 40, 4));
                for i in 0..n {
                    v.push((format!("v0.boundary[{i}]"), f0 + 44 + 4 * i, 4));
                }
                v.push(("info_length".into(), f0 + 44 + 36 * n + 16, 4));
            },
            _ => {},
        }
        for (name, off, w) in &v {
            assert!(off + w <= seed.bytes.len(), "field {name} out of range");
        }
        v
    }

    pub fn mutations(si: usize, seeds: &[Seed], tier: Tier) -> Vec<Mut> {
        let seed = &seeds[si];
        let b = &seed.bytes;
        let mut out: Vec<Mut> = vec![];
        let mut push = |desc: String, bytes: Vec<u8>, extra: Vec<RH>| {
            out.push(Mut { desc, bytes, extra_hashes: extra });
        };
        push("unmutated".into(), b.clone(), vec![]);
        // (a) byte faults
        let mut region = vec![false; b.len()];
        {
            let mut p = 0;
            for f in &seed.frames {
                for q in p..(p + 8 + 20).min(p + f.raw.len()) {
                    region[q] = true;
                }
                p += f.raw.len();
            }
            for q in seed.frames_end..b.len() {
                region[q] = true;
            }
        }
        for off in 0..b.len() {
            let in_region = region[off];
            if !(in_region || tier == Tier::Thorough) {
                continue;
            }
            let mut ops: Vec<(String, u8)> = vec![
                ("^01".into(), b[off] ^ 0x01),
                ("^80".into(), b[off] ^ 0x80),
                ("^ff".into(), b[off] ^ 0xff),
                ("=00".into(), 0),
                ("=ff".into(), 0xff),
            ];
            if tier == Tier::Thorough && in_region {
                for bit in 1..7 {
                    ops.push((format!("^{:02x}", 1u8 << bit), b[off] ^ (1 << bit)));
                }
            }
            let mut seen = vec![b[off]];
            for (name, v) in ops {
                if seen.contains(&v) {
                    continue;
                }
                seen.push(v);
                let mut m = b.clone();
                m[off] = v;
                push(format!("byte[{off}]{name}"), m, vec![]);
            }
        }
        // (a') thorough: every structural byte (frame headers, LZ4 frame descriptors, footer fields other than the
        // hashes, length trailer) set to every other value
        if tier == Tier::Thorough {
            let mut structural = vec![false; b.len()];
            let mut p = 0;
            for f in &seed.frames {
                let hdr = if f.raw[4] == 0 { 8 } else { 8 + 7 };
                for q in p..(p + hdr).min(p + f.raw.len()) {
                    structural[q] = true;
                }
                p += f.raw.len();
            }
            let f0 = seed.frames_end;
            let nch = seed.frames.len();
            let hash_ranges: Vec<(usize, usize)> = match seed.footer_kind {
                FOOT_V1 => vec![(f0 + 8, f0 + 40), (f0 + 52, f0 + 52 + 32 * nch)],
                FOOT_V0 => vec![(f0 + 8, f0 + 40), (f0 + 44 + 4 * nch, f0 + 44 + 36 * nch)],
                _ => vec![],
            };
            for q in f0..b.len() {
                structural[q] = !hash_ranges.iter().any(|(a, e)| q >= *a && q < *e);
            }
            for off in 0..b.len() {
                if !structural[off] {
                    continue;
                }
                let already: Vec<u8> = {
                    let mut v = vec![b[off], b[off] ^ 0x01, b[off] ^ 0x80, b[off] ^ 0xff, 0, 0xff];
                    for bit in 1..7 {
                        v.push(b[off] ^ (1 << bit));
                    }
                    v
                };
                for val in 0..=255u8 {
                    if already.contains(&val) {
                        continue;
                    }
                    let mut m = b.clone();
                    m[off] = val;
                    push(format!("byte[{off}]={val:02x}"), m, vec![]);
                }
            }
        }
        // (a'') pair faults: a sub-section version tag changed AND one byte of the boundary / unpacked-offset
        // arrays changed (a validator that trusts a differently tagged section must still not accept offsets
        // that disagree with the chunk data)
        if seed.footer_kind == FOOT_V1 {
            let f0 = seed.frames_end;
            let nch = seed.frames.len();
            let hv = f0 + 47; // hashes-section version byte
            let bs = f0 + 52 + 32 * nch; // start of the boundaries section
            let bv = bs + 7; // boundaries-section version byte
            if bs + 12 + 8 * nch <= b.len() {
                for (tag_name, tag_off) in [("hashes-version", hv), ("boundaries-version", bv)] {
                    for tag_val in [0u8, 1, 2] {
                        if b[tag_off] == tag_val {
                            continue;
                        }
                        for off in (bs + 12)..(bs + 12 + 8 * nch) {
                            for (opn, v) in [("^01", b[off] ^ 1), ("^10", b[off] ^ 0x10)] {
                                let mut m = b.clone();
                                m[tag_off] = tag_val;
                                m[off] = v;
                                push(format!("{tag_name}={tag_val}+byte[{off}]{opn}"), m, vec![]);
                            }
                        }
                    }
                }
            }
        }
        // (b) truncation at every offset
        for cut in 0..b.len() {
            push(format!("truncate@{cut}"), b[..cut].to_vec(), vec![]);
        }
        // (c) extension by 1..=9 bytes
        for k in 1..=9usize {
            for fill in [0u8, 0xff, b'X'] {
                let mut m = b.clone();
                m.extend(std::iter::repeat(fill).take(k));
                push(format!("extend+{k}x{fill:02x}"), m, vec![]);
            }
            let mut m = b.clone();
            m.extend_from_slice(&b[..k.min(b.len())]);
            push(format!("extend+{k}(own prefix)"), m, vec![]);
        }
        // (d) chunk-level edits: stale footer / footer rebuilt claiming the old hash / footer rebuilt for the new list
        let footer_tail = b[seed.frames_end..].to_vec();
        let mut edits: Vec<(String, Vec<Frame>, Vec<RH>)> = vec![];
        let n = seed.frames.len();
        for i in 0..n {
            let mut f = seed.frames.clone();
            f.remove(i);
            edits.push((format!("drop-chunk{i}"), f, vec![]));
            let mut f = seed.frames.clone();
            f.insert(i, seed.frames[i].clone());
            edits.push((format!("duplicate-chunk{i}"), f, vec![]));
            for j in i + 1..n {
                let mut f = seed.frames.clone();
                f.swap(i, j);
                edits.push((format!("swap-chunks{i},{j}"), f, vec![]));
            }
        }
        for (oi, other) in seeds.iter().enumerate() {
            if oi == si {
                continue;
            }
            for (k, of) in other.frames.iter().enumerate() {
                for i in 0..n {
                    let mut f = seed.frames.clone();
                    f[i] = of.clone();
                    edits.push((format!("replace-chunk{i}-with-{}#{k}", other.name), f, vec![other.hash]));
                }
                for i in 0..=n {
                    if tier == Tier::Quick && i != 0 && i != n {
                        continue;
                    }
                    let mut f = seed.frames.clone();
                    f.insert(i, of.clone());
                    edits.push((format!("insert-at{i}-{}#{k}", other.name), f, vec![other.hash]));
                }
            }
            // whole-footer splice
            if other.footer_kind != FOOT_NONE {
                let mut m = b[..seed.frames_end].to_vec();
                m.extend_from_slice(&other.bytes[other.frames_end..]);
                push(format!("footer-from-{}", other.name), m, vec![other.hash]);
            }
        }
        for (name, f, mut extra) in edits {
            let new_hash = rm::xorb_hash(&list_of(&f));
            extra.push(new_hash);
            let mut m: Vec<u8> = f.iter().flat_map(|x| x.raw.iter().copied()).collect();
            m.extend_from_slice(&footer_tail);
            push(format!("{name}/stale-footer"), m, extra.clone());
            if seed.footer_kind != FOOT_NONE {
                push(format!("{name}/rebuilt-footer-claiming-old-hash"), assemble(&f, seed.footer_kind, Some(seed.hash)), extra.clone());
                push(format!("{name}/rebuilt-footer"), assemble(&f, seed.footer_kind, None), extra.clone());
            }
        }
        // (d2) forgeries under a LAX READING of a stored chunk whose two length fields disagree: hashes, boundaries,
        //      unpacked offsets and the xorb hash are rebuilt exactly as a decoder would see them that (1) takes the
        //      payload length from the uncompressed field, or (2) steps by the compressed field but reads the
        //      uncompressed count.  A correct decoder rejects a stored chunk with unequal lengths, so none may be accepted.
        if seed.footer_kind == FOOT_V1 && n >= 2 {
            for i in 0..n - 1 {
                let fr = &seed.frames[i];
                if fr.raw.len() != rm::FRAME_HEADER_LEN + fr.data.len() || fr.raw[4] != 0 {
                    continue; // not a stored chunk
                }
                let len = fr.data.len() as i64;
                for delta in [-8i64, -1, 1, 8] {
                    let l2 = len + delta;
                    if l2 < 1 {
                        continue;
                    }
                    for variant in 0..2u8 {
                        // raw frames with the forged header of chunk i
                        let mut raws: Vec<Vec<u8>> = seed.frames.iter().map(|f| f.raw.clone()).collect();
                        let mut hdr = fr.raw[..rm::FRAME_HEADER_LEN].to_vec();
                        if variant == 0 {
                            set_le(&mut hdr, 5, 3, l2 as u64); // uncompressed := l2, compressed stays
                            raws[i][..rm::FRAME_HEADER_LEN].copy_from_slice(&hdr);
                        } else {
                            set_le(&mut hdr, 1, 3, l2 as u64); // compressed := l2 (the stride), uncompressed stays
                            let mut r = hdr.clone();
                            if l2 >= len {
                                r.extend_from_slice(&fr.data);
                                r.extend(std::iter::repeat(0xEE).take((l2 - len) as usize));
                            } else {
                                r.extend_from_slice(&fr.data[..l2 as usize]);
                            }
                            raws[i] = r;
                        }
                        let buffer: Vec<u8> = raws.iter().flat_map(|r| r.iter().copied()).collect();
                        let start: usize = raws[..i].iter().map(|r| r.len()).sum::<usize>() + rm::FRAME_HEADER_LEN;
                        let read = if variant == 0 { l2 as usize } else { len as usize };
                        if start + read > buffer.len() {
                            continue;
                        }
                        let mut f: Vec<Frame> = seed.frames.iter().zip(&raws).map(|(f, r)| Frame { raw: r.clone(), data: f.data.clone() }).collect();
                        f[i].data = buffer[start..start + read].to_vec();
                        let h = rm::xorb_hash(&list_of(&f));
                        push(format!("forge-stored-length{i}:{}{delta:+}/footer-for-the-lax-reading", if variant == 0 { "uncompressed" } else { "compressed" }), assemble(&f, FOOT_V1, None), vec![h]);
                    }
                }
            }
        }
        // (d3) layout-1 footers whose sections disagree about the number of chunks while every offset and the length
        //      trailer fit the bytes written: the hash section and the trailing count describe the real chunks, the
        //      boundary section holds fewer or more entries (and announces that many) - and the converse
        if seed.footer_kind == FOOT_V1 {
            let list = list_of(&seed.frames);
            let hashes: Vec<RH> = list.iter().map(|x| x.0).collect();
            let mut phys = vec![];
            let mut unp = vec![];
            let (mut pos, mut u) = (0u32, 0u32);
            for f in &seed.frames {
                pos += f.raw.len() as u32;
                phys.push(pos);
                u += f.data.len() as u32;
                unp.push(u);
            }
            let n32 = n as u32;
            let frames_bytes = &b[..seed.frames_end];
            let mut forge = |desc: String, footer: Vec<u8>| push(desc, [frames_bytes, &footer[..]].concat(), vec![]);
            // boundary section with m != n entries
            let mut variants: Vec<(usize, Vec<u32>, Vec<u32>)> = vec![];
            if n >= 1 {
                variants.push((n - 1, phys[..n - 1].to_vec(), unp[..n - 1].to_vec()));
                variants.push((0, vec![], vec![]));
            }
            let mut p1 = phys.clone();
            p1.push(pos + 8);
            let mut u1 = unp.clone();
            u1.push(u + 8);
            variants.push((n + 1, p1, u1));
            let mut p2 = phys.clone();
            p2.push(pos);
            let mut u2 = unp.clone();
            u2.push(u);
            variants.push((n + 1, p2, u2));
            for (vi, (m, ph, un)) in variants.into_iter().enumerate() {
                if m == n {
                    continue;
                }
                forge(format!("forge-sections:{m}-boundaries-for-{n}-hashes#{vi}"), rm::build_footer_v1_parts(&seed.hash, &hashes, n32, &ph, &un, m as u32, n32));
                forge(format!("forge-sections:{m}-boundaries-for-{n}-hashes#{vi}/trailing-count-{m}"), rm::build_footer_v1_parts(&seed.hash, &hashes, n32, &ph, &un, m as u32, m as u32));
            }
            // hash section with m != n entries, boundary section right
            if n >= 1 {
                forge(format!("forge-sections:{}-hashes-for-{n}-boundaries", n - 1), rm::build_footer_v1_parts(&seed.hash, &hashes[..n - 1], n32 - 1, &phys, &unp, n32, n32));
            }
            let mut h1 = hashes.clone();
            h1.push(*hashes.last().unwrap());
            forge(format!("forge-sections:{}-hashes-for-{n}-boundaries", n + 1), rm::build_footer_v1_parts(&seed.hash, &h1, n32 + 1, &phys, &unp, n32, n32));
            forge(format!("forge-sections:{}-hashes-for-{n}-boundaries/trailing-count-{}", n + 1, n + 1), rm::build_footer_v1_parts(&seed.hash, &h1, n32 + 1, &phys, &unp, n32, n32 + 1));
            // count fields that disagree with the entries written (offsets still right)
            forge(format!("forge-sections:boundary-count-field-{}-over-{n}-entries", n + 1), rm::build_footer_v1_parts(&seed.hash, &hashes, n32, &phys, &unp, n32 + 1, n32));
        }
        // footer kind conversions
        push("footer->v0-marker-only".into(), [&b[..seed.frames_end], &b"XETBLOB\0"[..]].concat(), vec![]);
        push("footer->v1-marker-only".into(), [&b[..seed.frames_end], &b"XETBLOB\x01"[..]].concat(), vec![]);
        push("footer->v2-marker-only".into(), [&b[..seed.frames_end], &b"XETBLOB\x02"[..]].concat(), vec![]);
        push("footer-twice".into(), [&b[..], &b[seed.frames_end..]].concat(), vec![]);
        push("frames-twice".into(), [&b[..seed.frames_end], &b[..]].concat(), vec![]);
        // (e) count / length / offset fields
        for (name, off, w) in fields(seed) {
            let cur = get_le(b, off, w);
            let top = if w == 3 { (1u64 << 24) - 1 } else { u32::MAX as u64 };
            let mid = if w == 3 { 1u64 << 23 } else { 1u64 << 31 };
            let mut vals = vec![0u64, cur.wrapping_sub(1) & top, (cur + 1) & top, 1 << 16, mid, top, cur + 8, cur.saturating_sub(8)];
            if name.contains("num_chunks") {
                vals.extend([1152, 1153, 1 << 20]);
            }
            let mut seen = vec![cur];
            for v in vals {
                if v > top || seen.contains(&v) {
                    continue;
                }
                seen.push(v);
                let mut m = b.clone();
                set_le(&mut m, off, w, v);
                push(format!("field {name}={v}"), m, vec![]);
            }
        }
        // all three chunk counts of a v1 footer changed together (a self-consistent wrong count)
        if seed.footer_kind == FOOT_V1 {
            let fs = fields(seed);
            let cnt: Vec<&(String, usize, usize)> = fs.iter().filter(|f| f.0.contains("num_chunks")).collect();
            for v in [0u64, n as u64 - 1, n as u64 + 1, 1 << 16, 1 << 31, u32::MAX as u64] {
                let mut m = b.clone();
                for (_, off, w) in &cnt {
                    set_le(&mut m, *off, *w, v);
                }
                push(format!("all-num_chunks={v}"), m, vec![]);
            }
        }
        out
    }

    // ---- tiny strings
    const FIVE: [u8; 5] = [0, 1, b'X', 0x7f, 0xff];
    pub fn tiny_count(kind: &str, maxlen: usize) -> u64 {
        let base: u64 = if kind == "five" { 5 } else { 256 };
        (0..=maxlen as u32).map(|l| base.pow(l)).sum()
    }
    pub fn tiny_string(kind: &str, mut idx: u64) -> Vec<u8> {
        let base: u64 = if kind == "five" { 5 } else { 256 };
        let mut len = 0u32;
        while idx >= base.pow(len) {
            idx -= base.pow(len);
            len += 1;
        }
        let mut v = vec![0u8; len as usize];
        for i in (0..len as usize).rev() {
            let d = (idx % base) as usize;
            idx /= base;
            v[i] = if base == 5 { FIVE[d] } else { d as u8 };
        }
        v
    }

    // ---- observations
    pub enum V {
        Accept(Box<CasObject>),
        Reject,
        Error(String),
        Panic(String),
    }
    impl V {
        fn class(&self) -> &'static str {
            match self {
                V::Accept(_) => "accept",
                V::Reject => "reject",
                V::Error(_) => "error",
                V::Panic(_) => "panic",
            }
        }
        fn accepted(&self) -> bool {
            matches!(self, V::Accept(_))
        }
        /// counter key: the verdict class, with the error kind for errors
        fn key(&self, target: &str) -> String {
            match self {
                V::Error(k) => format!("{target}:error[{k}]"),
                v => format!("{target}:{}", v.class()),
            }
        }
    }

    struct Meter {
        max_single: usize,
        max_peak: isize,
        max_micros: u128,
    }
    fn measured<T>(m: &mut Meter, f: impl FnOnce() -> T) -> (std::thread::Result<T>, u128) {
        let live0 = LIVE.load(Ordering::Relaxed);
        PEAK.store(live0, Ordering::Relaxed);
        MAX_SINGLE.store(0, Ordering::Relaxed);
        let t0 = std::time::Instant::now();
        let r = catch_unwind(AssertUnwindSafe(f));
        let us = t0.elapsed().as_micros();
        m.max_single = m.max_single.max(MAX_SINGLE.load(Ordering::Relaxed));
        m.max_peak = m.max_peak.max(PEAK.load(Ordering::Relaxed) - live0);
        m.max_micros = m.max_micros.max(us);
        (r, us)
    }

    fn run_seekable(bytes: &[u8], h: &RH, m: &mut Meter) -> (V, u128) {
        let mh = rm::to_mh(h);
        let (r, us) = measured(m, || CasObject::validate_cas_object(&mut Cursor::new(bytes), &mh));
        (
            match r {
                Err(_) => V::Panic(panic_sig("C08")),
                Ok(Ok(Some(c))) => V::Accept(Box::new(c)),
                Ok(Ok(None)) => V::Reject,
                Ok(Err(e)) => V::Error(err_kind(&e)),
            },
            us,
        )
    }
    fn run_stream(bytes: &[u8], h: &RH, k: usize, m: &mut Meter) -> (V, Option<usize>, u128) {
        let mh = rm::to_mh(h);
        let (r, us) = measured(m, || {
            let mut rd = Dribble::new(bytes, k, false);
            futures::executor::block_on(cas_object::validate_cas_object_from_async_read(&mut rd, &mh))
        });
        match r {
            Err(_) => (V::Panic(panic_sig("C08")), None, us),
            Ok(Ok(Some((c, gb)))) => (V::Accept(Box::new(c)), gb, us),
            Ok(Ok(None)) => (V::Reject, None, us),
            Ok(Err(e)) => (V::Error(err_kind(&e)), None, us),
        }
    }
    fn run_deserialize(bytes: &[u8], m: &mut Meter) -> (V, u128) {
        let (r, us) = measured(m, || CasObject::deserialize(&mut Cursor::new(bytes)));
        (
            match r {
                Err(_) => V::Panic(panic_sig("C08")),
                Ok(Ok(c)) => V::Accept(Box::new(c)),
                Ok(Err(e)) => V::Error(err_kind(&e)),
            },
            us,
        )
    }
    fn err_kind(e: &CasObjectError) -> String {
        match e {
            CasObjectError::InvalidRange => "InvalidRange".into(),
            CasObjectError::InvalidArguments => "InvalidArguments".into(),
            CasObjectError::FormatError(_) => "FormatError".into(),
            CasObjectError::HashMismatch => "HashMismatch".into(),
            CasObjectError::InternalIOError(e) => format!("InternalIOError({:?})", e.kind()),
            CasObjectError::InternalError(_) => "InternalError".into(),
            CasObjectError::CompressionError(_) => "CompressionError".into(),
            _ => "other".into(),
        }
    }

    /// what the reference reads in the byte string
    struct RefObj {
        list: Vec<(RH, u64)>,
        hash: RH,
        phys: Vec<u32>,
        unpacked: Vec<u32>,
        /// a footer the validator had to rely on
        footer: Option<rm::RefFooter>,
    }
    fn ref_obj(frames: &[rm::RefFrame], footer: Option<rm::RefFooter>, sabotage: u8) -> RefObj {
        let list: Vec<(RH, u64)> = frames.iter().map(|f| (rm::chunk_hash(&f.data), f.data.len() as u64)).collect();
        let mut hash = rm::xorb_hash(&list);
        if sabotage == 2 {
            hash[0] ^= 1;
        }
        let mut phys = vec![];
        let mut unpacked = vec![];
        let (mut p, mut u) = (0u32, 0u32);
        for f in frames {
            p += (rm::FRAME_HEADER_LEN + f.compressed_len) as u32;
            u += f.data.len() as u32;
            phys.push(p);
            unpacked.push(u);
        }
        RefObj { list, hash, phys, unpacked, footer }
    }
    fn ref_seekable(b: &[u8], sabotage: u8) -> Result<RefObj, String> {
        let (fr, foot) = rm::split_xorb(b)?;
        let frames = rm::decode_frames(fr)?;
        let footer = rm::parse_footer_info(&foot[..foot.len() - 4])?;
        Ok(ref_obj(&frames, Some(footer), sabotage))
    }
    fn ref_stream(b: &[u8], sabotage: u8) -> Result<RefObj, String> {
        let (frames, _ends, tail) = rm::parse_stream(b)?;
        let footer = match tail {
            rm::StreamTail::NoFooter => None,
            rm::StreamTail::Footer { version: 0, .. } => None, // old layout: the streaming validator stops at the marker and regenerates the footer
            rm::StreamTail::Footer { at, version: 1 } => {
                if b.len() < at + 4 {
                    return Err("footer shorter than its trailer".into());
                }
                let info = &b[at..b.len() - 4];
                let il = u32::from_le_bytes(b[b.len() - 4..].try_into().unwrap()) as usize;
                if il != info.len() {
                    return Err(format!("info length trailer {il} differs from the {} bytes after the frames", info.len()));
                }
                Some(rm::parse_footer_info(info)?)
            },
            rm::StreamTail::Footer { version, .. } => return Err(format!("unknown footer version {version}")),
        };
        Ok(ref_obj(&frames, footer, sabotage))
    }
    /// None = consistent
    fn inconsistency(o: &RefObj, h: &RH) -> Option<(&'static str, String)> {
        if o.hash != *h {
            return Some(("C08/accepts-inconsistent-object", format!("hash recomputed from the {} decoded chunks is {} not the accepted {}", o.list.len(), rm::hex(&o.hash), rm::hex(h))));
        }
        if let Some(f) = &o.footer {
            let hashes: Vec<RH> = o.list.iter().map(|x| x.0).collect();
            if f.num_chunks as usize != o.list.len() || f.chunk_hashes != hashes {
                return Some(("C08/accepts-footer-mismatch", "footer chunk count / chunk hashes differ from the chunk data".into()));
            }
            if f.boundaries != o.phys {
                return Some(("C08/accepts-footer-mismatch", format!("footer frame boundaries {:?} differ from the frame stream {:?}", f.boundaries, o.phys)));
            }
            if let Some(u) = &f.unpacked {
                if *u != o.unpacked {
                    return Some(("C08/accepts-footer-mismatch", format!("footer unpacked offsets {:?} differ from the chunk lengths {:?}", u, o.unpacked)));
                }
            }
            if f.xorb_hash != *h {
                return Some(("C08/accepts-footer-mismatch", "footer xorb hash differs from the accepted hash".into()));
            }
        }
        None
    }
    fn returned_info_matches(c: &CasObject, o: &RefObj, h: &RH) -> bool {
        let hashes: Vec<RH> = c.info.chunk_hashes.iter().map(rm::from_mh).collect();
        let want: Vec<RH> = o.list.iter().map(|x| x.0).collect();
        c.info.num_chunks as usize == o.list.len()
            && hashes == want
            && c.info.chunk_boundary_offsets == o.phys
            && (c.info.unpacked_chunk_offsets.is_empty() || c.info.unpacked_chunk_offsets == o.unpacked)
            && rm::from_mh(&c.info.cashash) == *h
    }

    pub struct Input<'a> {
        pub origin: &'a str,
        pub desc: &'a str,
        pub bytes: &'a [u8],
        pub hashes: Vec<(&'static str, RH)>,
        /// Some(footer kind) when this is an unmutated seed, with its own hash first in `hashes`
        pub valid_seed: Option<u8>,
    }

    /// Auxiliary target: the partial footer parser CasObjectInfoV1::deserialize_only_boundaries_section.
    /// It runs in its own jobs and reports under its own signatures so that it can be triaged apart
    /// from the validators / CasObject::deserialize.
    pub fn check_aux(inp: &Input, out: &mut Partial) {
        let b = inp.bytes;
        out.count("aux_inputs", 1);
        let mut meter = Meter { max_single: 0, max_peak: 0, max_micros: 0 };
        let (r, _) = measured(&mut meter, || cas_object::CasObjectInfoV1::deserialize_only_boundaries_section(&mut Cursor::new(b)));
        let replay = json!({"lab": "xorb", "kind": "c08-aux", "origin": inp.origin, "mutation": inp.desc, "bytes_hex": hx(b), "hashes": []});
        match r {
            Err(_) => {
                let sig = panic_sig("C08").replace("C08/panic:", "C08/boundaries-section-parser-panic:");
                out.violation(&sig, format!("CasObjectInfoV1::deserialize_only_boundaries_section panicked [input: {} / {} ; {} bytes]", inp.origin, inp.desc, b.len()), replay);
            },
            Ok(Ok((info, _))) => {
                out.count("aux:ok", 1);
                if inp.valid_seed.is_some() {
                    out.count("vac:aux_parses_valid_seed", 1);
                }
                let _ = info;
            },
            Ok(Err(_)) => {
                out.count("aux:error", 1);
                if inp.valid_seed == Some(FOOT_V1) {
                    out.violation("C08/boundaries-section-parser-rejects-valid-seed", format!("deserialize_only_boundaries_section failed on unmutated seed {}", inp.origin), replay);
                }
            },
        }
        out.max("max:aux_largest_single_allocation_bytes", meter.max_single as u64);
    }

    pub fn check_input(inp: &Input, sabotage: u8, out: &mut Partial) {
        let b = inp.bytes;
        out.count("inputs", 1);
        let mut meter = Meter { max_single: 0, max_peak: 0, max_micros: 0 };
        let replay = |hashes: &[(&'static str, RH)]| {
            json!({"lab": "xorb", "kind": "c08", "origin": inp.origin, "mutation": inp.desc,
                "bytes_hex": if b.len() <= 4096 { json!(hx(b)) } else { Value::Null },
                "hashes": hashes.iter().map(|(n, h)| json!({"which": n, "hex": hx(h)})).collect::<Vec<_>>()})
        };
        let all_replay = replay(&inp.hashes);
        let ctx = |s: String| format!("{s} [input: {} / {} ; {} bytes]", inp.origin, inp.desc, b.len());
        let slow = |name: &str, us: u128, rerun: &mut dyn FnMut() -> u128, out: &mut Partial| {
            if us > 1_000_000 {
                let again = rerun();
                if again > 1_000_000 {
                    out.violation("C08/input-takes-over-1s", ctx(format!("{name} took {us} us, and {again} us when repeated")), all_replay.clone());
                } else {
                    out.count("info:single_slow_measurement_not_reproduced", 1);
                }
            }
        };
        // ---- footer parser
        let (d, us) = run_deserialize(b, &mut meter);
        slow("CasObject::deserialize", us, &mut || run_deserialize(b, &mut Meter { max_single: 0, max_peak: 0, max_micros: 0 }).1, out);
        out.count(&d.key("deserialize"), 1);
        match &d {
            V::Panic(sig) => out.violation(sig, ctx("CasObject::deserialize panicked".into()), all_replay.clone()),
            V::Accept(c) => {
                if c.info.unpacked_chunk_offsets.is_empty() && c.info.num_chunks > 0 {
                    out.count("vac:v0_footer_parsed", 1);
                }
            },
            _ => {},
        }
        if let Some(fk) = inp.valid_seed {
            if fk != FOOT_NONE && !d.accepted() {
                out.violation("C08/valid-seed-footer-not-parsed", ctx(format!("CasObject::deserialize on an unmutated seed: {}", d.class())), all_replay.clone());
            }
        }
        // ---- validators, per hash
        for (hi, (hname, h)) in inp.hashes.iter().enumerate() {
            let one = replay(&inp.hashes[hi..hi + 1]);
            let (sk, us) = run_seekable(b, h, &mut meter);
            slow("validate_cas_object", us, &mut || run_seekable(b, h, &mut Meter { max_single: 0, max_peak: 0, max_micros: 0 }).1, out);
            let (st, gb, us) = run_stream(b, h, usize::MAX, &mut meter);
            slow("validate_cas_object_from_async_read", us, &mut || run_stream(b, h, usize::MAX, &mut Meter { max_single: 0, max_peak: 0, max_micros: 0 }).2, out);
            out.count("validator_calls", 2);
            out.count(&sk.key("seekable"), 1);
            out.count(&st.key("stream"), 1);
            if let V::Panic(sig) = &sk {
                out.violation(sig, ctx(format!("validate_cas_object panicked (hash: {hname})")), one.clone());
            }
            if let V::Panic(sig) = &st {
                out.violation(sig, ctx(format!("validate_cas_object_from_async_read panicked (hash: {hname})")), one.clone());
            }
            if let V::Accept(c) = &sk {
                match ref_seekable(b, sabotage) {
                    Err(e) => out.violation("C08/accepts-inconsistent-object", ctx(format!("validate_cas_object accepted for hash '{hname}' but the reference cannot read the object: {e}")), one.clone()),
                    Ok(o) => {
                        if let Some((sig, why)) = inconsistency(&o, h) {
                            out.violation(sig, ctx(format!("validate_cas_object accepted for hash '{hname}': {why}")), one.clone());
                        } else {
                            out.count("vac:seekable_accepts_checked_consistent", 1);
                            if !returned_info_matches(c, &o, h) {
                                out.violation("C08/accepts-footer-mismatch", ctx(format!("validate_cas_object accepted for hash '{hname}' and returned footer info that differs from the chunk data")), one.clone());
                            }
                        }
                    },
                }
            }
            if let V::Accept(c) = &st {
                match ref_stream(b, sabotage) {
                    Err(e) => out.violation(
                        "C08/accepts-inconsistent-object",
                        ctx(format!("validate_cas_object_from_async_read accepted for hash '{hname}' but the reference cannot read the object: {e}")),
                        one.clone(),
                    ),
                    Ok(o) => {
                        if let Some((sig, why)) = inconsistency(&o, h) {
                            out.violation(sig, ctx(format!("validate_cas_object_from_async_read accepted for hash '{hname}': {why}")), one.clone());
                        } else {
                            out.count("vac:stream_accepts_checked_consistent", 1);
                            match (&o.footer, gb) {
                                (Some(_), _) => {
                                    out.count("vac:stream_accepts_with_v1_footer", 1);
                                    if !returned_info_matches(c, &o, h) {
                                        out.violation(
                                            "C08/accepts-footer-mismatch",
                                            ctx(format!("validate_cas_object_from_async_read accepted for hash '{hname}' and returned footer info that differs from the chunk data")),
                                            one.clone(),
                                        );
                                    }
                                },
                                (None, gb) => {
                                    match gb {
                                        Some(0) => out.count("vac:stream_accepts_without_footer", 1),
                                        Some(8) => out.count("vac:stream_accepts_v0_marker", 1),
                                        _ => out.count("info:stream_accept_unexpected_go_back_bytes", 1),
                                    }
                                    if !returned_info_matches(c, &o, h) {
                                        out.count("info:stream_generated_footer_differs_from_chunk_data", 1);
                                    }
                                },
                            }
                        }
                    },
                }
            }
            // streaming validator fed 3 bytes per poll: same verdict class (informational)
            if hi == 0 {
                let (st3, _, _) = run_stream(b, h, 3, &mut meter);
                if let V::Panic(sig) = &st3 {
                    out.violation(sig, ctx(format!("validate_cas_object_from_async_read (3 bytes per poll) panicked (hash: {hname})")), one.clone());
                }
                if st3.class() != st.class() {
                    out.count("info:stream_verdict_depends_on_read_size", 1);
                }
            }
            // disagreement between the validators (informational)
            if sk.accepted() != st.accepted() {
                let dir = if sk.accepted() { "seekable-accepts/stream-rejects" } else { "stream-accepts/seekable-rejects" };
                out.count(&format!("info:validators_disagree[{dir}]"), 1);
                let nfacts = out.facts.iter().filter(|f| f.contains(dir)).count();
                if nfacts < 3 {
                    out.facts.insert(format!("disagree|{dir}|{}|{}|hash={hname}|seekable={}|stream={}", inp.origin, inp.desc, sk.class(), st.class()));
                }
            }
            // completeness on unmutated seeds
            if let Some(fk) = inp.valid_seed {
                let own = hi == 0;
                let want = if sabotage == 3 { !own } else { own };
                if want {
                    if !st.accepted() {
                        out.violation("C08/valid-seed-rejected", ctx(format!("validate_cas_object_from_async_read: {} for the seed's own hash", st.class())), one.clone());
                    }
                    if fk != FOOT_NONE && !sk.accepted() {
                        out.violation("C08/valid-seed-rejected", ctx(format!("validate_cas_object: {} for the seed's own hash", sk.class())), one.clone());
                    }
                    if fk == FOOT_NONE {
                        out.count(&format!("info:seekable_on_footerless_seed:{}", sk.class()), 1);
                    }
                    out.count("vac:valid_seeds_accepted", 1);
                } else if !sk.accepted() && !st.accepted() {
                    out.count("vac:valid_seeds_rejected_for_wrong_hash", 1);
                }
            }
        }
        out.max("max:largest_single_allocation_bytes", meter.max_single as u64);
        out.max("max:peak_live_bytes_during_a_call", meter.max_peak.max(0) as u64);
        out.max("max:slowest_call_micros", meter.max_micros as u64);
    }

    fn candidate_hashes(b: &[u8], seed: Option<&Seed>, extra: &[RH]) -> Vec<(&'static str, RH)> {
        let mut v: Vec<(&'static str, RH)> = vec![];
        let add = |n: &'static str, h: RH, v: &mut Vec<(&'static str, RH)>| {
            if !v.iter().any(|x| x.1 == h) {
                v.push((n, h));
            }
        };
        if let Some(s) = seed {
            add("seed", s.hash, &mut v);
            let mut w = s.hash;
            w[31] ^= 0x10;
            add("seed-with-one-bit-flipped", w, &mut v);
        }
        add("zero", rm::ZERO, &mut v);
        for h in extra {
            add("hash-of-edited-list-or-donor", *h, &mut v);
        }
        // what the bytes themselves say
        if let Ok((frames, _, _)) = rm::parse_stream(b) {
            let list: Vec<(RH, u64)> = frames.iter().map(|f| (rm::chunk_hash(&f.data), f.data.len() as u64)).collect();
            add("recomputed-from-stream-view", rm::xorb_hash(&list), &mut v);
        }
        if let Ok((fr, foot)) = rm::split_xorb(b) {
            if let Ok(frames) = rm::decode_frames(fr) {
                let list: Vec<(RH, u64)> = frames.iter().map(|f| (rm::chunk_hash(&f.data), f.data.len() as u64)).collect();
                add("recomputed-from-seekable-view", rm::xorb_hash(&list), &mut v);
            }
            if foot.len() >= 44 && &foot[..7] == rm::FOOTER_IDENT {
                let mut h = [0u8; 32];
                h.copy_from_slice(&foot[8..40]);
                add("hash-field-of-footer", h, &mut v);
            }
        }
        if seed.is_none() {
            add("fixed-nonzero", rm::chunk_hash(b"fixed wrong hash"), &mut v);
        }
        v
    }

    /// chunk counts of the large valid xorbs: around the parser's pre-allocation batch (1152 chunks) and its
    /// multiples, and the client's maximum (8192)
    pub const BIG_COUNTS: [usize; 12] = [1000, 1151, 1152, 1153, 2303, 2304, 2305, 3456, 3457, 4000, 8191, 8192];

    /// A valid xorb of `n` small distinct chunks written by the serializer under scheme `s`, with its hash.
    pub fn big_valid(n: usize, s: u8) -> (Vec<u8>, RH) {
        let mut g = Lcg::new(0xB16 + n as u64);
        let chunks: Vec<Vec<u8>> = (0..n)
            .map(|i| {
                let len = 3 + (g.below(6) as usize);
                let mut c = (i as u32).to_le_bytes().to_vec();
                c.extend(std::iter::repeat((i % 7) as u8).take(len));
                c
            })
            .collect();
        let list: Vec<(RH, u64)> = chunks.iter().map(|c| (rm::chunk_hash(c), c.len() as u64)).collect();
        let h_ref = rm::xorb_hash(&list);
        let mut data = vec![];
        let mut bounds = vec![];
        for (c, (h, _)) in chunks.iter().zip(&list) {
            data.extend_from_slice(c);
            bounds.push((rm::to_mh(h), data.len() as u32));
        }
        let mut w = Cursor::new(Vec::new());
        CasObject::serialize(&mut w, &rm::to_mh(&h_ref), &data, &bounds, scheme_opt(s)).unwrap_or_else(|e| machinery_error(&format!("cannot serialize a large valid xorb: {e}")));
        (w.into_inner(), h_ref)
    }

    /// A well-formed object of `n` identical LZ4 frames of a 128 KiB zero chunk (about 19 MB for 32768) whose
    /// chunks unpack to n * 128 KiB bytes: with n = 32768 that is exactly 2^32, one more than the format's 32-bit
    /// offsets can express.  `with_footer`: a V1 footer whose unpacked offsets are the sums modulo 2^32.
    fn oversized_object(n: usize, with_footer: bool) -> (Vec<u8>, RH) {
        let chunk = vec![0u8; 128 * 1024];
        let ch = rm::chunk_hash(&chunk);
        let mut w = Cursor::new(Vec::new());
        let one = rm::xorb_hash(&[(ch, chunk.len() as u64)]);
        CasObject::serialize(&mut w, &rm::to_mh(&one), &chunk, &[(rm::to_mh(&ch), chunk.len() as u32)], scheme_opt(1)).unwrap_or_else(|e| machinery_error(&format!("cannot serialize the one-chunk seed: {e}")));
        let v = w.into_inner();
        let (fr, _) = rm::split_xorb(&v).unwrap_or_else(|e| machinery_error(&format!("one-chunk seed does not split: {e}")));
        let frame = fr.to_vec();
        let list: Vec<(RH, u64)> = (0..n).map(|_| (ch, chunk.len() as u64)).collect();
        let h = rm::xorb_hash(&list);
        let mut out = Vec::with_capacity(frame.len() * n + 48 * n + 256);
        let mut phys = Vec::with_capacity(n);
        let mut unp = Vec::with_capacity(n);
        let mut u = 0u32;
        for _ in 0..n {
            out.extend_from_slice(&frame);
            phys.push(out.len() as u32);
            u = u.wrapping_add(chunk.len() as u32);
            unp.push(u);
        }
        if with_footer {
            let hashes: Vec<RH> = vec![ch; n];
            out.extend_from_slice(&rm::build_footer(&h, &hashes, &phys, Some(&unp)));
        }
        (out, h)
    }

    /// The validators on the oversized objects: whatever they answer, it must not be a panic, and an acceptance
    /// would vouch for unpacked offsets that cannot describe 2^32 bytes.
    pub fn check_oversized(out: &mut Partial) {
        let n = 32768usize;
        for with_footer in [true, false] {
            let (b, h) = oversized_object(n, with_footer);
            let origin = format!("oversized-{n}x128KiB-{}", if with_footer { "v1-footer" } else { "no-footer" });
            let replay = json!({"lab": "xorb", "kind": "c08-oversized", "origin": origin, "mutation": "unmutated", "bytes_hex": Value::Null, "hashes": []});
            let mut meter = Meter { max_single: 0, max_peak: 0, max_micros: 0 };
            let mut verdicts: Vec<(&str, V)> = vec![];
            if with_footer {
                verdicts.push(("validate_cas_object", run_seekable(&b, &h, &mut meter).0));
            }
            verdicts.push(("validate_cas_object_from_async_read", run_stream(&b, &h, 1 << 20, &mut meter).0));
            for (name, v) in verdicts {
                out.count("inputs", 1);
                out.count("vac:oversized_object_validations", 1);
                out.count(&v.key(&format!("oversized:{name}")), 1);
                match v {
                    V::Panic(sig) => out.violation(&sig, format!("{name} panicked on a well-formed {} byte object whose {n} chunks unpack to 2^32 bytes [{origin}]", b.len()), replay.clone()),
                    V::Accept(c) => {
                        let last = c.info.unpacked_chunk_offsets.last().copied().unwrap_or(0) as u64;
                        out.violation(
                            "C08/accepts-footer-mismatch",
                            format!("{name} accepted a {} byte object whose {n} chunks unpack to 4294967296 bytes; the footer it vouches for ends at unpacked offset {last} [{origin}]", b.len()),
                            replay.clone(),
                        );
                    },
                    V::Reject | V::Error(_) => {},
                }
            }
            out.max("max:largest_single_allocation_bytes", meter.max_single as u64);
        }
    }

    /// A lazily produced stream of zero bytes: `n` empty stored chunks (8 zero bytes are a well-formed header of an
    /// empty chunk) and no footer.
    struct ZeroStream {
        left: u64,
    }
    impl futures::AsyncRead for ZeroStream {
        fn poll_read(mut self: std::pin::Pin<&mut Self>, _cx: &mut std::task::Context<'_>, buf: &mut [u8]) -> std::task::Poll<std::io::Result<usize>> {
            let n = (buf.len() as u64).min(self.left) as usize;
            buf[..n].fill(0);
            self.left -= n as u64;
            std::task::Poll::Ready(Ok(n))
        }
    }

    /// per chunk a footer holds one hash and two 32-bit offsets; its fixed fields take 52 bytes
    const FOOTER_FIXED: u64 = 52;
    const FOOTER_PER_CHUNK: u64 = 40;

    /// the run-length merkle reference against the plain one, on every list it is used for in small and on mixed runs
    fn check_merkle_runs() {
        let e = (rm::chunk_hash(&[]), 0u64);
        let a = (rm::chunk_hash(b"a"), 1u64);
        let z = (hw_zero_mod_4(), 5u64);
        for n in 1..=800u64 {
            let list = vec![e; n as usize];
            if rm::merkle_root_runs(&[(e, n)]) != rm::xorb_hash(&list) {
                machinery_error(&format!("run-length merkle reference differs from the plain one on {n} empty chunks"));
            }
        }
        for (x, y, w) in [(e, a, z), (z, e, a), (a, z, z)] {
            for i in 0..40u64 {
                for j in 0..40u64 {
                    for k in [0u64, 1, 2, 3, 9, 10, 28] {
                        let mut list = vec![x; i as usize];
                        list.extend(vec![y; j as usize]);
                        list.extend(vec![w; k as usize]);
                        if list.is_empty() {
                            continue;
                        }
                        if rm::merkle_root_runs(&[(x, i), (y, j), (w, k)]) != rm::xorb_hash(&list) {
                            machinery_error(&format!("run-length merkle reference differs from the plain one on runs {i},{j},{k}"));
                        }
                    }
                }
            }
        }
    }
    /// some hash whose last word is 0 mod 4 (the fan-out rule's cut condition)
    fn hw_zero_mod_4() -> RH {
        let mut i = 0u32;
        loop {
            let h = rm::chunk_hash(&i.to_le_bytes());
            if u64::from_le_bytes(h[24..32].try_into().unwrap()) & 3 == 0 {
                return h;
            }
            i += 1;
        }
    }

    /// Footer-less streams with one chunk more than a generated footer can describe: the footer locates its hash and
    /// boundary sections by 32-bit offsets from the end, 40 bytes per chunk, so beyond 107 374 181 chunks no footer
    /// exists.  Whatever the stream validator answers, it must not panic, and an acceptance would vouch for a footer
    /// whose section offsets are wrong.  (859 MB of input produced lazily; the validator's own tables for that many
    /// chunks take several GB, so the allocation cap is off here and the peak is reported.)
    pub fn check_many_chunks(out: &mut Partial) {
        check_merkle_runs();
        let max_n = (u32::MAX as u64 - FOOTER_FIXED) / FOOTER_PER_CHUNK;
        let n = max_n + 1;
        let origin = format!("many-chunks-{n}-empty-no-footer");
        let replay = json!({"lab": "xorb", "kind": "c08-many-chunks", "origin": origin, "mutation": "unmutated", "bytes_hex": Value::Null, "hashes": []});
        let h = rm::merkle_root_runs(&[((rm::chunk_hash(&[]), 0), n)]);
        let mh = rm::to_mh(&h);
        let mut meter = Meter { max_single: 0, max_peak: 0, max_micros: 0 };
        let (r, _us) = measured(&mut meter, || {
            let mut rd = ZeroStream { left: n * 8 };
            futures::executor::block_on(cas_object::validate_cas_object_from_async_read(&mut rd, &mh))
        });
        out.count("inputs", 1);
        out.count("vac:many_chunk_validations", 1);
        let name = "validate_cas_object_from_async_read";
        match r {
            Err(_) => {
                out.count("many-chunks:panic", 1);
                out.violation(&panic_sig("C08"), format!("{name} panicked on a footer-less stream of {n} empty chunks ({} bytes) [{origin}]", n * 8), replay.clone());
            },
            Ok(Ok(Some((c, _)))) => {
                out.count("many-chunks:accept", 1);
                let want = FOOTER_FIXED + FOOTER_PER_CHUNK * n;
                let got = c.info.hashes_section_offset_from_end as u64;
                if got != want || c.info.num_chunks as u64 != n {
                    out.violation(
                        "C08/accepts-footer-mismatch",
                        format!("{name} accepted a footer-less stream of {n} empty chunks; the footer it vouches for places its hash section {got} bytes from the end, the sections of {n} chunks take {want} [{origin}]"),
                        replay.clone(),
                    );
                }
            },
            Ok(Ok(None)) => out.count("many-chunks:reject", 1),
            Ok(Err(e)) => out.count(&format!("many-chunks:error:{}", err_kind(&e)), 1),
        }
        out.max("max:many_chunks_peak_live_bytes", meter.max_peak as u64);
    }

    /// the inputs of one job, in order
    fn job_inputs(spec: &Value, seeds: &[Seed], tier: Tier) -> Vec<(String, String, Vec<u8>, Vec<RH>, Option<usize>)> {
        let mut v = vec![];
        if let Some(hexs) = spec["replay_bytes_hex"].as_str() {
            let bytes = unhex(hexs).unwrap_or_else(|| machinery_error("bad hex in replay"));
            let hs: Vec<RH> = spec["hashes"].as_array().cloned().unwrap_or_default().iter().filter_map(|h| unhex(h["hex"].as_str()?)?.try_into().ok()).collect();
            v.push((spec["origin"].as_str().unwrap_or("replay").to_string(), spec["mutation"].as_str().unwrap_or("").to_string(), bytes, hs, None));
        } else if let Some(kind) = spec["tiny"].as_str() {
            let (from, to) = (spec["from"].as_u64().unwrap(), spec["to"].as_u64().unwrap());
            for i in from..to {
                v.push((format!("tiny-{kind}"), format!("#{i}"), tiny_string(kind, i), vec![], None));
            }
        } else if let Some(bi) = spec["big"].as_u64() {
            // a large valid xorb: unmutated, and a few faults in its footer / tail
            let n = BIG_COUNTS[bi as usize % BIG_COUNTS.len()];
            let sch = (bi as usize / BIG_COUNTS.len()) as u8;
            let (b, h) = big_valid(n, sch);
            let origin = format!("big-{n}chunks-{}", SCHEME_NAMES[sch as usize]);
            v.push((origin.clone(), "unmutated".to_string(), b.clone(), vec![h], None));
            let l = b.len();
            for (d, m) in [
                ("truncate-1", b[..l - 1].to_vec()),
                ("truncate-4", b[..l - 4].to_vec()),
                ("truncate-half", b[..l / 2].to_vec()),
                ("tail-length^01", { let mut x = b.clone(); x[l - 4] ^= 1; x }),
                ("tail-length^0100", { let mut x = b.clone(); x[l - 3] ^= 1; x }),
                ("footer-byte-at-3/4^01", { let mut x = b.clone(); x[l - (l / 4)] ^= 1; x }),
                ("last-boundary^01", { let mut x = b.clone(); x[l - 60] ^= 1; x }),
            ] {
                v.push((origin.clone(), d.to_string(), m, vec![h], None));
            }
        } else if let Some(si) = spec["aux_seed"].as_u64() {
            // the quick-tier mutation set without the chunk-level edits, in both tiers
            let si = si as usize;
            for m in mutations(si, seeds, Tier::Quick) {
                if ["drop-chunk", "duplicate-chunk", "swap-chunks", "replace-chunk", "insert-at", "extend", "forge-"].iter().any(|p| m.desc.starts_with(p)) {
                    continue;
                }
                v.push((seeds[si].name.clone(), m.desc, m.bytes, m.extra_hashes, Some(si)));
            }
        } else {
            let si = spec["seed"].as_u64().unwrap() as usize;
            let (part, nparts) = (spec["part"].as_u64().unwrap() as usize, spec["nparts"].as_u64().unwrap() as usize);
            for (i, m) in mutations(si, seeds, tier).into_iter().enumerate() {
                if i % nparts == part {
                    v.push((seeds[si].name.clone(), m.desc, m.bytes, m.extra_hashes, Some(si)));
                }
            }
        }
        v
    }

    pub fn worker(args: &Args, spec: &str) {
        vcore::util::quiet_panics();
        TRACK.store(true, Ordering::SeqCst);
        let spec: Value = serde_json::from_str(spec).unwrap_or_else(|e| machinery_error(&format!("bad worker spec: {e}")));
        let tier = if spec["tier"].as_str() == Some("thorough") { Tier::Thorough } else { Tier::Quick };
        let sabotage: u8 = std::env::var("XORB_LAB_SABOTAGE").ok().and_then(|s| s.parse().ok()).unwrap_or(0);
        let seeds = seeds(tier);
        if spec["manychunks"].as_bool() == Some(true) {
            let mut out = Partial::default();
            check_many_chunks(&mut out);
            out.write_out(args.out.as_ref().expect("--out"));
            return;
        }
        if spec["oversized"].as_bool() == Some(true) {
            let mut out = Partial::default();
            CAP_ON.store(true, Ordering::SeqCst);
            check_oversized(&mut out);
            CAP_ON.store(false, Ordering::SeqCst);
            out.write_out(args.out.as_ref().expect("--out"));
            return;
        }
        let inputs = job_inputs(&spec, &seeds, tier);
        let skip: Vec<u64> = spec["skip"].as_array().cloned().unwrap_or_default().iter().filter_map(|x| x.as_u64()).collect();
        let side = spec["side"].as_str().map(|s| std::fs::OpenOptions::new().create(true).write(true).truncate(true).open(s).expect("side file"));
        let mut out = Partial::default();
        let is_replay = spec["replay_bytes_hex"].is_string();
        let aux = spec["aux_seed"].is_u64() || spec["aux"].as_bool() == Some(true);
        CAP_ON.store(true, Ordering::SeqCst);
        for (k, (origin, desc, bytes, extra, si)) in inputs.iter().enumerate() {
            if skip.contains(&(k as u64)) {
                continue;
            }
            if let Some(f) = &side {
                use std::os::unix::fs::FileExt;
                let _ = f.write_at(format!("{k:>12}").as_bytes(), 0);
            }
            let seed = si.map(|i| &seeds[i]);
            let mut hashes = candidate_hashes(bytes, seed, extra);
            if is_replay && !extra.is_empty() {
                hashes = extra.iter().map(|h| ("recorded", *h)).collect();
            }
            let big = origin.starts_with("big-");
            if big && !is_replay {
                let own = extra[0];
                let mut w = own;
                w[31] ^= 0x10;
                hashes = vec![("seed", own), ("seed-with-one-bit-flipped", w), ("zero", rm::ZERO)];
            }
            let valid_seed = match seed {
                Some(s) if desc == "unmutated" => Some(s.footer_kind),
                None if big && desc == "unmutated" => Some(FOOT_V1),
                _ => None,
            };
            let inp = Input { origin, desc, bytes, hashes, valid_seed };
            if aux {
                check_aux(&inp, &mut out);
                continue;
            }
            if big {
                // the partial footer parser sees the large objects too
                check_aux(&inp, &mut out);
                out.count("vac:large_valid_xorb_inputs", 1);
            }
            check_input(&inp, sabotage, &mut out);
            let trivial = seed.map(|s| s.bytes == *bytes).unwrap_or(false) && desc != "unmutated";
            if !trivial && !bytes.is_empty() {
                out.distinct(fp(bytes));
            } else {
                out.count("info:trivial_inputs", 1);
            }
            if k % 997 == 3 || desc == "unmutated" {
                out.sample(json!({"origin": origin, "mutation": desc, "len": bytes.len(), "bytes_hex": if bytes.len() <= 64 { hx(bytes) } else { format!("{}...", hx(&bytes[..48])) }}));
            }
        }
        CAP_ON.store(false, Ordering::SeqCst);
        out.write_out(args.out.as_ref().expect("--out"));
    }

    pub fn parent(args: &Args) {
        let tier = args.tier;
        let mut run = Run::new(args, "C08", "fault_enumeration");
        let scratch = Scratch::new("xorb08");
        let seeds = seeds(tier);
        let mut specs: Vec<(String, Value)> = vec![];
        if let Some(rp) = &args.replay {
            let v: Value = serde_json::from_slice(&std::fs::read(rp).unwrap_or_else(|e| machinery_error(&format!("read replay: {e}"))))
                .unwrap_or_else(|e| machinery_error(&format!("parse replay: {e}")));
            let r = &v["replay"];
            let origin = r["origin"].as_str().unwrap_or("");
            if origin.starts_with("many-chunks-") {
                specs.push(("replay".into(), json!({"manychunks": true, "tier": tier.name()})));
            } else if origin.starts_with("oversized-") {
                specs.push(("replay".into(), json!({"oversized": true, "tier": tier.name()})));
            } else if !r["bytes_hex"].is_string() && origin.starts_with("big-") {
                // large valid xorbs are regenerated from their description; the whole 8-input job is re-run
                let mut it = origin[4..].splitn(2, "chunks-");
                let n: usize = it.next().and_then(|x| x.parse().ok()).unwrap_or(0);
                let sch = scheme_from_name(it.next().unwrap_or("none")) as usize;
                let ci = BIG_COUNTS.iter().position(|c| *c == n).unwrap_or_else(|| machinery_error("replay names an unknown large xorb"));
                specs.push(("replay".into(), json!({"big": sch * BIG_COUNTS.len() + ci, "tier": tier.name()})));
            } else if !r["bytes_hex"].is_string() {
                machinery_error("replay file carries no input bytes");
            } else {
            specs.push((
                "replay".into(),
                json!({"replay_bytes_hex": r["bytes_hex"], "hashes": r["hashes"], "origin": r["origin"], "mutation": r["mutation"], "tier": tier.name(), "aux": r["kind"].as_str() == Some("c08-aux")}),
            ));
            }
        } else {
            let per_job = tier.pick(2500usize, 9000usize);
            for (si, _) in seeds.iter().enumerate() {
                let n = mutations(si, &seeds, tier).len();
                let nparts = ((n + per_job - 1) / per_job).max(1);
                for part in 0..nparts {
                    specs.push((format!("{}:{part}/{nparts}", seeds[si].name), json!({"seed": si, "part": part, "nparts": nparts, "tier": tier.name()})));
                }
            }
            for (si, sd) in seeds.iter().enumerate() {
                if sd.footer_kind == FOOT_V1 {
                    specs.push((format!("aux:{}", sd.name), json!({"aux_seed": si, "tier": tier.name()})));
                }
            }
            // large valid xorbs (schemes none and lz4; thorough: all four settings)
            let nsch = tier.pick(2usize, 4usize);
            for bi in 0..BIG_COUNTS.len() * nsch {
                specs.push((format!("big:{bi}"), json!({"big": bi, "tier": tier.name()})));
            }
            // crafted well-formed objects whose chunks unpack to 2^32 bytes (19 MB each, a few seconds in all)
            specs.push(("oversized".into(), json!({"oversized": true, "tier": tier.name()})));
            // one chunk more than a generated footer can describe (the thorough COMMAND only - the quick command runs
            // this lab's thorough enumeration otherwise: 859 MB of lazily produced input,
            // several GB of validator tables, about a minute)
            if args.report_tier == Tier::Thorough && std::env::var("XORB_LAB_NO_MANY_CHUNKS").is_err() {
                specs.push(("manychunks".into(), json!({"manychunks": true, "tier": tier.name()})));
            }
            let tiny: Vec<(&str, usize)> = tier.pick(vec![("full", 1), ("five", 6)], vec![("full", 2), ("five", 8)]);
            for (kind, maxlen) in tiny {
                let total = tiny_count(kind, maxlen);
                let step = (per_job * 4) as u64;
                let mut from = 0;
                while from < total {
                    let to = (from + step).min(total);
                    specs.push((format!("tiny-{kind}:{from}..{to}"), json!({"tiny": kind, "from": from, "to": to, "tier": tier.name()})));
                    from = to;
                }
            }
        }
        let mut all = Partial::default();
        let mut pending: Vec<(String, Value)> = specs;
        let mut round = 0;
        let mut worker_processes = 0usize;
        let mut deaths = 0u64;
        while !pending.is_empty() {
            round += 1;
            let jobs: Vec<Job> = pending
                .iter()
                .enumerate()
                .map(|(i, (name, spec))| {
                    let mut sp = spec.clone();
                    sp["side"] = json!(scratch.path().join(format!("side-{round}-{i}")).display().to_string());
                    Job { name: name.clone(), env: vec![], args: vec!["--worker".into(), sp.to_string()] }
                })
                .collect();
            worker_processes += jobs.len();
            let results = fanout(jobs, 16, scratch.path(), 600);
            let mut next: Vec<(String, Value)> = vec![];
            for (i, r) in results.into_iter().enumerate() {
                match r.partial {
                    Some(p) => all.merge(p),
                    None => {
                        deaths += 1;
                        let (name, spec) = &pending[i];
                        let side = scratch.path().join(format!("side-{round}-{i}"));
                        let k: Option<u64> = std::fs::read_to_string(&side).ok().and_then(|s| s.trim().parse().ok());
                        let died = r.died.unwrap_or_default();
                        let tail = r.stderr_tail.lines().last().unwrap_or("").to_string();
                        match k {
                            None => run.machinery(format!("worker {name} died before its first input: {died} :: {tail}")),
                            Some(k) => {
                                let inputs = job_inputs(spec, &seeds, tier);
                                let (origin, desc, bytes, _, _) = &inputs[k as usize];
                                let is_aux = spec["aux_seed"].is_u64() || spec["aux"].as_bool() == Some(true);
                                all.violation(
                                    if is_aux { "C08/boundaries-section-parser-unbounded-allocation-or-abort" } else { "C08/unbounded-allocation-or-abort" },
                                    format!("worker process died ({died}; last stderr line: {tail}) while testing input #{k} of job {name}: {origin} / {desc} ; {} bytes", bytes.len()),
                                    json!({"lab": "xorb", "kind": if is_aux { "c08-aux" } else { "c08" }, "origin": origin, "mutation": desc, "bytes_hex": if bytes.len() <= 4096 { json!(hx(bytes)) } else { Value::Null }, "hashes": []}),
                                );
                                let limit = if is_aux { 60 } else { 12 };
                                let mut sp = spec.clone();
                                let mut skip: Vec<u64> = sp["skip"].as_array().cloned().unwrap_or_default().iter().filter_map(|x| x.as_u64()).collect();
                                skip.push(k);
                                if skip.len() <= limit && !spec["replay_bytes_hex"].is_string() {
                                    sp["skip"] = json!(skip);
                                    next.push((name.clone(), sp));
                                } else if skip.len() > limit {
                                    run.machinery(format!("job {name}: more than {limit} inputs kill the worker; the rest of the job was not explored"));
                                }
                            },
                        }
                    },
                }
            }
            pending = next;
        }
        let mut disagreements: Vec<String> = all.facts.iter().filter(|f| f.starts_with("disagree|")).cloned().collect();
        disagreements.truncate(40);
        run.set("validator_disagreements_listed", json!(disagreements));
        run.set("seeds", json!(seeds.iter().map(|s| json!({"name": s.name, "bytes": s.bytes.len(), "frames": s.frames.iter().map(|f| f.raw[4]).collect::<Vec<u8>>()})).collect::<Vec<_>>()));
        run.set("worker_processes", json!(worker_processes));
        run.set("worker_deaths", json!(deaths));
        // seed-level vacuity: the frame schemes present in the seeds
        let mut sc = [0u64; 3];
        for s in &seeds {
            for f in &s.frames {
                sc[(f.raw[4] as usize).min(2)] += 1;
            }
        }
        all.count("vac:seed_frames_stored", sc[0]);
        all.count("vac:seed_frames_lz4", sc[1]);
        all.count("vac:seed_frames_bg4_lz4", sc[2]);
        for k in if args.replay.is_some() { vec![] } else { vec!["vac:v0_footer_parsed", "vac:stream_accepts_without_footer", "vac:stream_accepts_v0_marker", "vac:stream_accepts_with_v1_footer", "vac:valid_seeds_accepted", "vac:valid_seeds_rejected_for_wrong_hash", "vac:seekable_accepts_checked_consistent"] } {
            all.count(k, 0);
        }
        let evaluations = all.get("inputs") + all.get("aux_inputs");
        run.assume("LZ4 frame coding is lz4_flex in both the code under test and the reference decoder (shared trusted base)");
        run.assume("single faults only: one mutation per input, applied to small seeds (1-3 chunks of 40-200 bytes); crafted decompression bombs are outside the enumerated space");
        run.assume("old-layout (v0) seeds must be accepted by both validators; footer-less seeds by the streaming validator only (the seekable validator needs a footer)");
        run.assume("disagreements between the two validators on mutated inputs are counted and listed, not alarmed");
        run.all = all;
        run.finish(
            evaluations,
            "for every seed xorb (1-3 chunks x 4 compression requests x {v1 footer, v0 footer, no footer}): the seed itself; every byte of the frame headers, LZ4 frame headers and footer (thorough: every byte of the object) XOR 0x01/0x80/0xff and set to 0x00/0xff (thorough: every single-bit flip in those regions); truncation at every offset; extension by 1-9 bytes; every chunk drop/duplicate/swap, replacement by and insertion of every chunk of every other seed (stale footer, rebuilt footer claiming the old hash, rebuilt footer); footer splices; for stored chunks, forgeries whose hashes and footer are rebuilt for a decoder that trusts the wrong one of two disagreeing length fields; every count/length/offset field set to 0, n-1, n+1, n-8, n+8, 2^16, 2^31 (2^23), max; plus every byte string up to the tier's length over all bytes and over {00,01,'X',7f,ff}. Thorough additionally sets every structural byte (frame headers, LZ4 frame descriptors, footer bytes other than hashes) to every value. An auxiliary family feeds the footer-level mutations of the v1 seeds to CasObjectInfoV1::deserialize_only_boundaries_section (own signatures). Each input goes to CasObject::deserialize and, for each candidate hash (seed hash, one-bit-flipped, zero, donor/edited-list hash, hash recomputed from the bytes, footer hash field), to both validators. Evaluations = inputs + auxiliary inputs. Distinct = distinct byte strings given to the validators; non-trivial = non-empty and not a no-op mutation",
        true,
        );
    }
}

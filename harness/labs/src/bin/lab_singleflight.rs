//! C20: singleflight under E1 — every schedule (up to a preemption bound) of small harnesses of
//! real `utils::singleflight::Group::work` callers, checked against the recorded call/return history.

use std::sync::atomic::{AtomicUsize, Ordering};
use std::sync::{Arc, Mutex};
use std::time::{Duration, Instant};

use utils::singleflight::{Group, SingleflightError};
use vcore::report::{machinery_error, Args, Partial, Run, Tier};
use vcore::sched::{self, ExploreCfg, RunResult};
use vcore::{json, Value};

#[derive(Clone, Copy, Debug, PartialEq)]
enum Kind {
    Ok,
    Err,
    Panic,
}
#[derive(Clone, Debug)]
struct Caller {
    key: u8,
    kind: Kind,
    yields: u8,
    /// spawned only after caller `after` has returned (a late caller)
    after: Option<usize>,
    /// a parent that polls this call ONCE, then awaits a call on key `park_for` (id 50 + own index), and only then
    /// drives this call to completion — what a buffered stream behind a full channel does to its futures
    park_for: Option<u8>,
}
#[derive(Clone, Debug)]
struct Harness {
    name: String,
    callers: Vec<Caller>,
}
impl Harness {
    fn to_json(&self) -> Value {
        json!({"name": self.name, "callers": self.callers.iter().map(|c| json!({"key": c.key, "kind": format!("{:?}", c.kind), "yields": c.yields, "after": c.after, "park_for": c.park_for})).collect::<Vec<_>>()})
    }
    fn from_json(v: &Value) -> Harness {
        Harness {
            name: v["name"].as_str().unwrap_or("replay").to_string(),
            callers: v["callers"]
                .as_array()
                .map(|a| {
                    a.iter()
                        .map(|c| Caller {
                            key: c["key"].as_u64().unwrap_or(0) as u8,
                            kind: match c["kind"].as_str() {
                                Some("Err") => Kind::Err,
                                Some("Panic") => Kind::Panic,
                                _ => Kind::Ok,
                            },
                            yields: c["yields"].as_u64().unwrap_or(0) as u8,
                            after: c["after"].as_u64().map(|x| x as usize),
                            park_for: c["park_for"].as_u64().map(|x| x as u8),
                        })
                        .collect()
                })
                .unwrap_or_default(),
        }
    }
}

#[derive(Debug, Clone, PartialEq)]
enum Outcome {
    Val(usize),
    /// error carrying the id of the task that failed (either the original or the cloned form)
    Err(usize),
    Panicked,
    Other(String),
}

fn classify(r: &Result<usize, SingleflightError<String>>) -> Outcome {
    match r {
        Ok(v) => Outcome::Val(*v),
        Err(SingleflightError::InternalError(e)) | Err(SingleflightError::WaiterInternalError(e)) => {
            match e.trim_matches('"').strip_prefix("task-error-").and_then(|x| x.trim_matches('"').parse::<usize>().ok()) {
                Some(id) => Outcome::Err(id),
                None => Outcome::Other(format!("{r:?}")),
            }
        },
        Err(SingleflightError::OwnerPanicked) | Err(SingleflightError::JoinError(_)) => Outcome::Panicked,
        Err(e) => Outcome::Other(format!("{e:?}")),
    }
}

/// One event of the recorded history.
#[derive(Debug, Clone)]
enum Ev {
    Call(usize),
    TaskRun(usize),
    /// the supplied task of caller `id` has run to its end (recorded just before it returns, fails or panics)
    TaskDone(usize),
    Ret(usize, Outcome, bool),
}

type Hist = Arc<Mutex<Vec<Ev>>>;

async fn task(id: usize, kind: Kind, yields: u8, hist: Hist, free_running: bool) -> Result<usize, String> {
    hist.lock().unwrap().push(Ev::TaskRun(id));
    for _ in 0..yields {
        if free_running {
            tokio::task::yield_now().await;
        } else {
            sched::yield_now("task.yield");
        }
    }
    hist.lock().unwrap().push(Ev::TaskDone(id));
    match kind {
        Kind::Ok => Ok(id),
        Kind::Err => Err(format!("task-error-{id}")),
        Kind::Panic => panic!("task-panic-{id}"),
    }
}

fn body(h: Harness, hist: Hist) {
    sched::set_fine_points(h.callers.iter().any(|c| c.park_for.is_some()));
    let g: Arc<Group<usize, String>> = Arc::new(Group::new());
    let n = h.callers.len();
    let done: Arc<Vec<AtomicUsize>> = Arc::new((0..n).map(|_| AtomicUsize::new(0)).collect());
    let mut handles = vec![];
    let spawn_caller = |i: usize| {
        let c = h.callers[i].clone();
        let g = g.clone();
        let hist = hist.clone();
        let done = done.clone();
        sched::spawn(move || {
            hist.lock().unwrap().push(Ev::Call(i));
            let key = format!("k{}", c.key);
            let (r, owner) = match c.park_for {
                None => sched::block_on(g.work(&key, task(i, c.kind, c.yields, hist.clone(), false))),
                Some(k2) => {
                    let mut fut = Box::pin(g.work(&key, task(i, c.kind, c.yields, hist.clone(), false)));
                    match sched::poll_once(&mut fut) {
                        std::task::Poll::Ready(x) => x,
                        std::task::Poll::Pending => {
                            let id2 = 50 + i;
                            hist.lock().unwrap().push(Ev::Call(id2));
                            let (r2, o2) = sched::block_on(g.work(&format!("k{k2}"), task(id2, Kind::Ok, 0, hist.clone(), false)));
                            hist.lock().unwrap().push(Ev::Ret(id2, classify(&r2), o2));
                            sched::block_on(fut)
                        },
                    }
                },
            };
            hist.lock().unwrap().push(Ev::Ret(i, classify(&r), owner));
            done[i].store(1, Ordering::SeqCst);
        })
    };
    for i in 0..n {
        if h.callers[i].after.is_none() {
            handles.push((i, spawn_caller(i)));
        }
    }
    let mut joined = vec![false; n];
    // join in index order; late callers are spawned as soon as their predecessor has returned
    let mut pending_late: Vec<usize> = (0..n).filter(|i| h.callers[*i].after.is_some()).collect();
    while let Some((i, hd)) = if handles.is_empty() { None } else { Some(handles.remove(0)) } {
        let _ = hd.join();
        joined[i] = true;
        let ready: Vec<usize> = pending_late.iter().copied().filter(|l| joined[h.callers[*l].after.unwrap()]).collect();
        pending_late.retain(|l| !ready.contains(l));
        for l in ready {
            handles.push((l, spawn_caller(l)));
        }
    }
    // a fresh call on every key after everything returned must run its own task (map is empty again)
    let keys: std::collections::BTreeSet<u8> = if h.callers.len() >= 4 { Default::default() } else { h.callers.iter().map(|c| c.key).collect() };
    for (j, k) in keys.into_iter().enumerate() {
        let id = 100 + j;
        hist.lock().unwrap().push(Ev::Call(id));
        let (r, owner) = sched::block_on(g.work(&format!("k{k}"), task(id, Kind::Ok, 0, hist.clone(), false)));
        hist.lock().unwrap().push(Ev::Ret(id, classify(&r), owner));
    }
}

/// The oracle over one recorded history.  Returns Err(signature, text) on a violation.
fn check_history(h: &Harness, ev: &[Ev]) -> Result<String, (String, String)> {
    let key_of = |id: usize| if id >= 100 { None } else if id >= 50 { h.callers[id - 50].park_for } else { Some(h.callers[id].key) };
    let kind_of = |id: usize| if id >= 50 { Kind::Ok } else { h.callers[id].kind };
    let mut call_at = std::collections::BTreeMap::new();
    let mut ret_at = std::collections::BTreeMap::new();
    let mut rets = std::collections::BTreeMap::new();
    let mut task_runs: Vec<usize> = vec![];
    for (t, e) in ev.iter().enumerate() {
        match e {
            Ev::Call(i) => {
                call_at.insert(*i, t);
            },
            Ev::TaskRun(i) => task_runs.push(*i),
            Ev::TaskDone(_) => {},
            Ev::Ret(i, o, owner) => {
                ret_at.insert(*i, t);
                rets.insert(*i, (o.clone(), *owner));
            },
        }
    }
    // nested calls of parked callers happen only when the first poll was pending
    let n_nested = call_at.keys().filter(|id| **id >= 50 && **id < 100).count();
    // (the four-caller harness leaves out the closing fresh calls: its own late callers play that part)
    let n_fresh = if h.callers.len() >= 4 { 0 } else { h.callers.iter().map(|c| c.key).collect::<std::collections::BTreeSet<_>>().len() };
    let n_expected = h.callers.len() + n_nested + n_fresh;
    if rets.len() != n_expected {
        return Err(("C20/caller-never-returned".into(), format!("{} of {} calls returned", rets.len(), n_expected)));
    }
    // one flight per key at a time: while the supplied task of one caller is executing, no other caller's task
    // of the same key starts (its caller would have had to join the flight in progress)
    {
        let mut running: Vec<usize> = vec![];
        for e in ev {
            match e {
                Ev::TaskRun(i) => {
                    if let Some(k) = key_of(*i) {
                        if let Some(j) = running.iter().find(|j| key_of(**j) == Some(k)) {
                            return Err(("C20/two-tasks-of-one-key-at-once".into(), format!("the task of caller {i} (key {k}) started while the task of caller {j} of the same key was still executing")));
                        }
                    }
                    running.push(*i);
                },
                Ev::TaskDone(i) => running.retain(|j| j != i),
                _ => {},
            }
        }
    }
    // tasks executed = owners
    let mut owners: Vec<usize> = rets.iter().filter(|(_, v)| v.1).map(|(k, _)| *k).collect();
    owners.sort();
    let mut ran = task_runs.clone();
    ran.sort();
    if ran.windows(2).any(|w| w[0] == w[1]) {
        return Err(("C20/task-executed-twice".into(), format!("task runs {task_runs:?}")));
    }
    if owners != ran {
        return Err(("C20/executed-tasks-differ-from-owners".into(), format!("owners {owners:?}, executed tasks {ran:?}")));
    }
    let expected_of = |owner_id: usize| match kind_of(owner_id) {
        Kind::Ok => Outcome::Val(owner_id),
        Kind::Err => Outcome::Err(owner_id),
        Kind::Panic => Outcome::Panicked,
    };
    // final fresh calls (ids >= 100) must be owners: everything before them had returned
    for (id, (o, owner)) in &rets {
        if *id >= 100 {
            if !*owner || *o != Outcome::Val(*id) {
                return Err(("C20/late-call-joined-finished-flight".into(), format!("call {id} made after every other call returned: owner={owner} result={o:?}")));
            }
            continue;
        }
        if *owner {
            if *o != expected_of(*id) {
                return Err(("C20/owner-wrong-outcome".into(), format!("owner {id} got {o:?}, its task is {:?}", kind_of(*id))));
            }
        } else {
            // some owner of the same key whose call overlaps this one and whose outcome this is
            let k = key_of(*id);
            let ok = owners.iter().any(|o_id| {
                *o_id < 100
                    && key_of(*o_id) == k
                    && call_at[o_id] < ret_at[id]
                    && call_at[id] < ret_at[o_id]
                    && *o == expected_of(*o_id)
            });
            if !ok {
                let same_key_any = owners.iter().any(|o_id| *o_id < 100 && key_of(*o_id) == k && *o == expected_of(*o_id));
                let sig = if matches!(o, Outcome::Other(_)) {
                    "C20/waiter-got-internal-error"
                } else if same_key_any {
                    "C20/waiter-answered-by-non-overlapping-flight"
                } else {
                    "C20/waiter-wrong-outcome"
                };
                return Err((sig.into(), format!("non-owner {id} (key {k:?}) got {o:?}; owners {owners:?}")));
            }
        }
    }
    // canonical outcome string
    let s: Vec<String> = rets.iter().map(|(id, (o, ow))| format!("{id}:{}{:?}", if *ow { "O" } else { "w" }, o)).collect();
    Ok(s.join(" "))
}

fn harnesses(tier: Tier) -> Vec<Harness> {
    let mut v = vec![];
    let kinds = [Kind::Ok, Kind::Err, Kind::Panic];
    let c = |key: u8, kind: Kind, yields: u8| Caller { key, kind, yields, after: None, park_for: None };
    // two callers, same key: every kind pair, yields 0/1 on each
    for k0 in kinds {
        for k1 in kinds {
            for y0 in 0..2u8 {
                for y1 in 0..2u8 {
                    if tier == Tier::Quick && (y0 != y1 || (y0 == 1 && k0 != k1 && !(k0 == Kind::Ok && k1 == Kind::Panic))) {
                        continue; // quick: yields (0,0) for every kind pair, (1,1) for equal kinds and Ok/Panic
                    }
                    v.push(Harness {
                        name: format!("2same-{k0:?}{y0}-{k1:?}{y1}"),
                        callers: vec![c(0, k0, y0), c(0, k1, y1)],
                    });
                }
            }
        }
    }
    // three callers, same key
    let three: Vec<(Kind, u8)> = if tier == Tier::Thorough { vec![(Kind::Ok, 0), (Kind::Ok, 1), (Kind::Err, 1), (Kind::Panic, 0), (Kind::Panic, 1)] } else { vec![(Kind::Ok, 0), (Kind::Panic, 0)] };
    for (k, y) in &three {
        v.push(Harness {
            name: format!("3same-{k:?}{y}"),
            callers: vec![c(0, *k, *y), c(0, *k, *y), c(0, *k, *y)],
        });
    }
    // two keys
    for k in kinds {
        let y = tier.pick(0, 1);
        v.push(Harness {
            name: format!("2keys-{k:?}"),
            callers: vec![c(0, k, y), c(0, Kind::Ok, 0), c(1, Kind::Ok, y)],
        });
    }
    // late caller released after caller 0 returned
    for k in kinds {
        for y in 0..2u8 {
            v.push(Harness {
                name: format!("late-{k:?}{y}"),
                callers: vec![c(0, k, y), c(0, Kind::Ok, y), Caller { key: 0, kind: Kind::Ok, yields: 0, after: Some(0), park_for: None }],
            });
        }
    }
    // parked callers (explored with the points inside the map-lock sections switched on): a caller whose parent
    // polls it once and then awaits a call on another key, next to an ordinary caller on a third / the same key
    for k in [Kind::Ok, Kind::Err] {
        v.push(Harness {
            name: format!("parked-{k:?}-other-key"),
            callers: vec![c(0, k, 0), Caller { key: 1, kind: Kind::Ok, yields: 0, after: None, park_for: Some(2) }],
        });
    }
    // a caller of another key returns between the completion of a flight's task and its owner's return; then late
    // callers of the first key arrive: after the other key's caller returned, and after the first owner returned
    // while the second flight's task is still executing
    for y in [1u8, 0] {
        v.push(Harness {
            name: format!("other-key-returns-first-{y}"),
            callers: vec![
                c(1, Kind::Ok, 0),
                c(0, Kind::Ok, 0),
                Caller { key: 0, kind: Kind::Ok, yields: 1, after: Some(0), park_for: None },
                Caller { key: 0, kind: Kind::Ok, yields: y, after: Some(1), park_for: None },
            ],
        });
    }
    v.push(Harness {
        name: "parked-same-key".into(),
        callers: vec![c(0, Kind::Ok, 0), Caller { key: 0, kind: Kind::Ok, yields: 0, after: None, park_for: Some(1) }],
    });
    v
}

fn explore_one(h: &Harness, bound: usize, delay_bounded: bool, deadline: Instant, max_exec: usize, out: &mut Partial, run: &mut Vec<String>) -> (usize, usize, std::collections::BTreeSet<String>) {
    let cfg = ExploreCfg {
        bound,
        deadline: Some(deadline),
        max_exec,
        delay_bounded,
        ..Default::default()
    };
    let hist_slot: Arc<Mutex<Option<Hist>>> = Arc::new(Mutex::new(None));
    let hs = hist_slot.clone();
    let h2 = h.clone();
    let body_fn = move || {
        let hist: Hist = Arc::new(Mutex::new(vec![]));
        *hs.lock().unwrap() = Some(hist.clone());
        body(h2.clone(), hist);
    };
    let h3 = h.clone();
    let hs2 = hist_slot.clone();
    let check = move |r: &RunResult| -> Result<String, String> {
        let ev = hs2.lock().unwrap().as_ref().map(|h| h.lock().unwrap().clone()).unwrap_or_default();
        if let Some(a) = &r.aborted {
            let sig = if a.starts_with("deadlock") { "C20/deadlock" } else { "C20/livelock" };
            return Err(format!("{sig}|{a}; history {ev:?}"));
        }
        if let Some(p) = &r.panic {
            return Err(format!("C20/harness-panic|{p}"));
        }
        match check_history(&h3, &ev) {
            Ok(o) => Ok(o),
            Err((sig, text)) => Err(format!("{sig}|{text}; history {ev:?}")),
        }
    };
    let st = sched::explore(&cfg, body_fn, &check);
    out.count("schedules", st.executions as u64);
    out.count("decisions", st.decisions as u64);
    out.count("steps", st.steps as u64);
    out.count("replays_checked", st.replays_checked as u64);
    out.max("max:trace_len", st.max_trace as u64);
    if st.capped {
        out.count("harnesses_capped", 1);
    }
    for m in st.machinery {
        run.push(format!("{}: {m}", h.name));
    }
    for (choices, trace, msg) in st.violations {
        let (sig, text) = msg.split_once('|').unwrap_or(("C20/violation", &msg));
        out.violation(sig, format!("harness {} bound {bound}: {text}", h.name), json!({"harness": h.to_json(), "bound": bound, "choices": choices, "trace": trace}));
    }
    let outs: std::collections::BTreeSet<String> = st.outcomes.keys().cloned().collect();
    for o in &outs {
        out.distinct(format!("{}|{}", h.name, o));
    }
    (st.executions, st.decisions, outs)
}

/// Caller counts at the boundary of the 16-bit waiter counter (65535, 65536, 65537 callers of one flight), each on the
/// default schedule of a current-thread tokio runtime: every caller is spawned before the first one is polled, so all
/// of them have joined the flight when its task completes.  One schedule per count — the dimension explored here is
/// the NUMBER of callers, not their interleaving (that is what the E1 harnesses above are for).
fn crowd(n: usize, out: &mut Partial) {
    let rt = tokio::runtime::Builder::new_current_thread().enable_all().build().unwrap();
    let g: Arc<Group<usize, String>> = Arc::new(Group::new());
    let ran = Arc::new(AtomicUsize::new(0));
    let good = Arc::new(AtomicUsize::new(0));
    let bad = Arc::new(AtomicUsize::new(0));
    let owners = Arc::new(AtomicUsize::new(0));
    let (ran2, good2, bad2, owners2) = (ran.clone(), good.clone(), bad.clone(), owners.clone());
    let timed_out = rt.block_on(async move {
        let mut hs = Vec::with_capacity(n);
        for _ in 0..n {
            let (g, ran, good, bad, owners) = (g.clone(), ran2.clone(), good2.clone(), bad2.clone(), owners2.clone());
            hs.push(tokio::spawn(async move {
                let (r, owner) = g
                    .work("crowd", async move {
                        ran.fetch_add(1, Ordering::SeqCst);
                        tokio::task::yield_now().await;
                        Ok::<usize, String>(7)
                    })
                    .await;
                if owner {
                    owners.fetch_add(1, Ordering::SeqCst);
                }
                if matches!(r, Ok(7)) {
                    good.fetch_add(1, Ordering::SeqCst);
                } else {
                    bad.fetch_add(1, Ordering::SeqCst);
                }
            }));
        }
        tokio::time::timeout(Duration::from_secs(20), futures::future::join_all(hs)).await.is_err()
    });
    out.count("crowd_runs", 1);
    out.count("crowd_callers", n as u64);
    let (ran, good, bad, owners) = (ran.load(Ordering::SeqCst), good.load(Ordering::SeqCst), bad.load(Ordering::SeqCst), owners.load(Ordering::SeqCst));
    let replay = json!({"crowd": n});
    if timed_out || good + bad != n {
        out.violation("C20/caller-never-returned@crowd", format!("{n} callers of one flight: only {} came back within 20 s (tasks executed: {ran})", good + bad), replay.clone());
    } else if bad > 0 {
        out.violation("C20/waiter-wrong-outcome@crowd", format!("{n} callers of one flight: {bad} did not receive the task's value"), replay.clone());
    }
    if ran != owners || ran == 0 {
        out.violation("C20/executed-tasks-differ-from-owners@crowd", format!("{n} callers: {ran} tasks executed, {owners} owners"), replay);
    }
    if ran == 1 && good == n {
        out.count("vac:crowd_flights_with_one_task_for_all_callers", 1);
    }
    std::mem::forget(rt); // dropping a runtime with parked tasks of a hung flight would block; nothing is left on success
}

/// Free-running pass on real tokio runtimes: informational binding of the spawn replacement.
fn free_run(h: &Harness, explored: &std::collections::BTreeSet<String>, out: &mut Partial, multi: bool, runs: usize) {
    for _ in 0..runs {
        let rt = if multi {
            tokio::runtime::Builder::new_multi_thread().worker_threads(3).enable_all().build().unwrap()
        } else {
            tokio::runtime::Builder::new_current_thread().enable_all().build().unwrap()
        };
        let hist: Hist = Arc::new(Mutex::new(vec![]));
        let h2 = h.clone();
        let hist2 = hist.clone();
        let fut = async move {
            let g: Arc<Group<usize, String>> = Arc::new(Group::new());
            let mut hs = vec![];
            for (i, c) in h2.callers.iter().enumerate() {
                if c.after.is_some() {
                    continue;
                }
                let (g, hist, c) = (g.clone(), hist2.clone(), c.clone());
                hs.push(tokio::spawn(async move {
                    hist.lock().unwrap().push(Ev::Call(i));
                    let (r, owner) = g.work(&format!("k{}", c.key), task(i, c.kind, c.yields, hist.clone(), true)).await;
                    hist.lock().unwrap().push(Ev::Ret(i, classify(&r), owner));
                }));
            }
            for hd in hs {
                let _ = tokio::time::timeout(Duration::from_secs(5), hd).await;
            }
            for (i, c) in h2.callers.iter().enumerate() {
                if c.after.is_some() {
                    hist2.lock().unwrap().push(Ev::Call(i));
                    let (r, owner) = g.work(&format!("k{}", c.key), task(i, c.kind, c.yields, hist2.clone(), true)).await;
                    hist2.lock().unwrap().push(Ev::Ret(i, classify(&r), owner));
                }
            }
            let keys: std::collections::BTreeSet<u8> = h2.callers.iter().map(|c| c.key).collect();
            for (j, k) in keys.into_iter().enumerate() {
                let id = 100 + j;
                hist2.lock().unwrap().push(Ev::Call(id));
                let (r, owner) = g.work(&format!("k{k}"), task(id, Kind::Ok, 0, hist2.clone(), true)).await;
                hist2.lock().unwrap().push(Ev::Ret(id, classify(&r), owner));
            }
        };
        // a real lost wake-up would hang the real runtime: bound the whole run
        let hung = rt.block_on(async move { tokio::time::timeout(Duration::from_secs(3), fut).await.is_err() });
        rt.shutdown_background();
        if hung {
            out.count("info:free_run_hung", 1);
            out.notes.push(format!("free run of {} did not finish within 3 s (a caller waits forever?)", h.name));
            continue;
        }
        let ev = hist.lock().unwrap().clone();
        out.count("free_runs", 1);
        match check_history(h, &ev) {
            Ok(o) => {
                if explored.contains(&o) {
                    out.count("info:free_run_outcome_in_explored_set", 1);
                } else {
                    out.count("info:free_run_outcome_outside_explored_set", 1);
                    out.notes.push(format!("free run of {} produced outcome not seen by the exploration: {o}", h.name));
                }
            },
            Err((sig, text)) => {
                out.count("info:free_run_oracle_failures", 1);
                out.notes.push(format!("free run of {} fails the oracle ({sig}): {text}", h.name));
            },
        }
    }
}

fn main() {
    let args = Args::parse();
    if args.prop != "C20" {
        machinery_error("lab_singleflight serves C20");
    }
    vcore::util::quiet_panics();
    sched::install_hooks();
    let mut run = Run::new(&args, "C20", "model_checking");
    let mut out = Partial::default();
    let mut machinery: Vec<String> = vec![];
    let tier = args.tier;

    if let Some(rp) = &args.replay {
        let v: Value = serde_json::from_slice(&std::fs::read(rp).unwrap_or_else(|e| machinery_error(&format!("read replay: {e}")))).unwrap_or_else(|e| machinery_error(&format!("parse: {e}")));
        if let Some(n) = v["replay"]["crowd"].as_u64() {
            crowd(n as usize, &mut out);
            run.set("states", json!(1));
            run.set("transitions", json!(1));
            run.set("traces_validated_against_impl", json!(1));
            run.all = out;
            run.finish(1, "replay of one crowd run", false);
        }
        let h = Harness::from_json(&v["replay"]["harness"]);
        let choices: Vec<usize> = v["replay"]["choices"].as_array().map(|a| a.iter().map(|x| x.as_u64().unwrap_or(0) as usize).collect()).unwrap_or_default();
        let hist: Hist = Arc::new(Mutex::new(vec![]));
        let (h2, hist2) = (h.clone(), hist.clone());
        let r = sched::run_one(&choices, move || body(h2, hist2));
        let ev = hist.lock().unwrap().clone();
        println!("trace: {:?}", r.describe());
        println!("history: {ev:?}");
        let verdict = if let Some(a) = &r.aborted { Err(("C20/deadlock".to_string(), a.clone())) } else { check_history(&h, &ev).map(|_| ()) };
        if let Err((sig, text)) = verdict {
            out.violation(&sig, format!("replay of {}: {text}", h.name), v["replay"].clone());
        }
        run.set("states", json!(1));
        run.set("transitions", json!(r.trace.len().max(1)));
        run.set("traces_validated_against_impl", json!(1));
        run.all = out;
        run.finish(1, "replay of one recorded schedule", false);
    }

    let mut hs = harnesses(tier);
    // development aids: LAB_SF_FILTER=<substring of harness name>, LAB_SF_BOUND=<n>, LAB_SF_BUDGET=<secs>
    if let Ok(f) = std::env::var("LAB_SF_FILTER") {
        hs.retain(|h| h.name.contains(&f));
    }
    let bound_override: Option<usize> = std::env::var("LAB_SF_BOUND").ok().and_then(|x| x.parse().ok());
    let budget = Duration::from_secs(std::env::var("LAB_SF_BUDGET").ok().and_then(|x| x.parse().ok()).unwrap_or(tier.pick(240, 1800)));
    let t0 = Instant::now();
    let per = budget / (hs.len() as u32);
    // harnesses are independent: explore them on parallel OS threads (each exploration owns its own scheduler)
    let results: Mutex<Vec<(usize, Partial, Vec<String>, usize, usize, std::collections::BTreeSet<String>)>> = Mutex::new(vec![]);
    let next = AtomicUsize::new(0);
    std::thread::scope(|s| {
        for _ in 0..14 {
            s.spawn(|| loop {
                let i = next.fetch_add(1, Ordering::SeqCst);
                if i >= hs.len() {
                    break;
                }
                let mut p = Partial::default();
                let mut m = vec![];
                // unbounded for the two-caller harnesses in thorough, else the tier's bound
                // bound per harness shape (measured: a 2-caller harness has ~300-470 schedules at bound 2 and
                // ~6.5 k at bound 3; the 3-thread ones ~14-21 k at bound 1-2): chosen so that every
                // harness *completes* its bound; the execution cap and the deadline are safety nets only
                // parked-caller harnesses (two threads, three calls, extra points inside the map-lock sections) are
                // explored delay-bounded like the three-thread ones
                let three = hs[i].callers.len() >= 3 || hs[i].callers.iter().any(|c| c.park_for.is_some());
                // two-caller harnesses: preemption bound 2 (quick) / 3 (thorough), completed.
                // three-thread harnesses (3 callers, 2 keys, late caller): preemption bounding explodes with the
                // number of blocking events (free choices at every join/pending/exit), so they are explored
                // delay-bounded: every departure from the default scheduler costs 1; bound 2 (quick) / 3 (thorough).
                // the four-caller harness needs four departures from the default (lowest id first) scheduler before two
                // flights of one key can overlap, but only one of them is a preemption (the others happen where the
                // running thread blocks or ends): and a task's voluntary yield is none): it is explored preemption-bounded, bound 0 (quick: every choice where
                // the running thread blocks, yields or ends) / 1 (thorough)
                let four = hs[i].name.starts_with("other-key-returns-first");
                let b = bound_override.unwrap_or(match (tier, three, four) {
                    (Tier::Quick, _, true) => 0,
                    (Tier::Thorough, _, true) => 1,
                    (Tier::Quick, false, _) => 2,
                    (Tier::Quick, true, _) => 2,
                    (Tier::Thorough, false, _) => 3,
                    (Tier::Thorough, true, _) => 3,
                });
                let _ = per;
                let deadline = t0 + budget;
                let (ex, dec, outs) = explore_one(&hs[i], b, three && !four, deadline, tier.pick(80_000, 1_500_000), &mut p, &mut m);
                p.sample(json!({"harness": hs[i].to_json(), "bound": b, "schedules": ex, "distinct_outcomes": outs.len()}));
                p.max(&format!("max:bound[{}]", if three { "3-thread" } else { "2-caller" }), b as u64);
                results.lock().unwrap().push((i, p, m, ex, dec, outs));
            });
        }
    });
    let mut res = results.into_inner().unwrap();
    res.sort_by_key(|r| r.0);
    let mut schedules = 0usize;
    let mut decisions = 0usize;
    let mut per_h = vec![];
    let mut explored_sets = vec![];
    for (i, p, m, ex, dec, outs) in res {
        schedules += ex;
        decisions += dec;
        per_h.push(json!({"harness": hs[i].name, "schedules": ex, "outcomes": outs.len()}));
        explored_sets.push((i, outs));
        out.merge(p);
        machinery.extend(m);
    }
    // boundary caller counts on the default schedule
    for n in [65535usize, 65536, 65537] {
        crowd(n, &mut out);
    }
    // informational free-running pass (binds the spawn replacement to tokio's behaviour)
    let fr = tier.pick(10, 100);
    for (i, outs) in &explored_sets {
        if hs[*i].callers.len() <= 3 && (tier == Tier::Thorough || i % 6 == 0) {
            free_run(&hs[*i], outs, &mut out, true, fr);
            free_run(&hs[*i], outs, &mut out, false, fr);
        }
    }
    for m in machinery {
        run.machinery(m);
    }
    let waits = out.distinct.iter().filter(|d| d.contains(":w")).count() as u64;
    out.count("vac:outcomes_with_a_waiter", waits);
    let capped = out.get("harnesses_capped");
    run.set("states", json!(decisions.max(1)));
    run.set("transitions", json!(out.get("steps").max(1)));
    run.set("traces_validated_against_impl", json!(schedules));
    run.set("preemption_bound_two_caller_harnesses", json!(tier.pick(2, 3)));
    run.set("delay_bound_three_thread_harnesses", json!(tier.pick(2, 3)));
    run.set("harnesses_that_hit_a_cap", json!(capped));
    run.set("harnesses", json!(per_h));
    run.set("wall_budget_s", json!(budget.as_secs()));
    run.assume("sequential consistency at switch-point granularity: switch points are the hooked lock acquisitions of singleflight (map lock, result read/write lock), pending polls, task yields, spawn/join/exit");
    run.assume("the owner task is spawned through verif_hooks::spawn (same contract as tokio: polled under catch_unwind, dropped on panic); the free-running pass on real tokio runtimes is informational");
    run.assume("caller cancellation is outside the property's quantifier and is not explored");
    let _ = t0;
    run.all = out;
    run.finish(
        schedules as u64,
        "every schedule with at most 2 (quick) / 3 (thorough) preemptions of each two-caller harness, and every schedule with at most 2 / 3 departures from the default scheduler (delay bounding) of each three-thread harness (three callers, two keys, late caller; the four-caller harness in which another key's caller returns between a task's end and its owner's return is explored preemption-bounded, 0 / 1 preemptions) (2-3 callers x task kinds ok/err/panic x 0/1 task yields, two keys, late caller); distinct = distinct (harness, per-caller outcome vector); states = scheduling decisions taken, transitions = scheduler steps",
        capped == 0,
    );
}

//! C11 (concurrent part, run as `C11c`): everything added to a session's `ShardFileManager` by
//! concurrently cleaned files ends up recorded in that session's shard files — every schedule
//! (preemption-bounded) of 2-thread harnesses over the real manager under E1, with switch points
//! at the hooked lock sections (H5), every path-based file-system call (E2) and pending polls.

vcore::interpose!();

use std::collections::BTreeSet;
use std::io::Cursor;
use std::path::{Path, PathBuf};
use std::sync::atomic::{AtomicUsize, Ordering};
use std::sync::{Arc, Mutex};
use std::time::{Duration, Instant};

use mdb_shard::cas_structs::{CASChunkSequenceEntry, CASChunkSequenceHeader, MDBCASInfo};
use mdb_shard::file_structs::{FileDataSequenceEntry, FileDataSequenceHeader, MDBFileInfo};
use mdb_shard::shard_in_memory::MDBInMemoryShard;
use mdb_shard::{MDBShardFile, MDBShardInfo, ShardFileManager};
use merklehash::MerkleHash;
use vcore::report::{machinery_error, Args, Partial, Run, Tier};
use vcore::sched::{self, ExploreCfg, RunResult};
use vcore::util::{self, Scratch};
use vcore::vfs::HookGuard;
use vcore::{json, Value};

#[derive(Clone, Debug, PartialEq)]
enum Op {
    AddXorb(u64),
    AddFile(u64),
    Flush,
    Query(u64),
    /// register the (pre-written) shard file that holds xorb `i` with the manager, as the per-shard upload tasks of a
    /// finalizing session do concurrently
    Register(u64),
}
impl Op {
    fn to_json(&self) -> Value {
        match self {
            Op::AddXorb(i) => json!({"add_xorb": i}),
            Op::AddFile(i) => json!({"add_file": i}),
            Op::Flush => json!("flush"),
            Op::Query(i) => json!({"query": i}),
            Op::Register(i) => json!({"register": i}),
        }
    }
    fn from_json(v: &Value) -> Op {
        if v.is_string() {
            return Op::Flush;
        }
        if let Some(i) = v["add_xorb"].as_u64() {
            return Op::AddXorb(i);
        }
        if let Some(i) = v["add_file"].as_u64() {
            return Op::AddFile(i);
        }
        if let Some(i) = v["register"].as_u64() {
            return Op::Register(i);
        }
        Op::Query(v["query"].as_u64().unwrap_or(0))
    }
}

fn h(a: u64, b: u64) -> MerkleHash {
    MerkleHash::from([a.wrapping_mul(0x9E37_79B9_7F4A_7C15) | 1, b, a ^ 0x55, 7 + a + b])
}
/// xorb `i`: 3 chunks of distinct lengths
fn xorb(i: u64) -> MDBCASInfo {
    let mut chunks = vec![];
    let mut pos = 0u32;
    for c in 0..3u64 {
        let len = (10 + 3 * i + c) as u32;
        // (every chunk gets its own leading word: the managers index chunks by their first 64 bits)
        chunks.push(CASChunkSequenceEntry::new(h(100 + 8 * i + c, c), len, pos));
        pos += len;
    }
    MDBCASInfo {
        metadata: CASChunkSequenceHeader::new(h(1000 + i, 0), 3u32, pos),
        chunks,
    }
}
fn file(i: u64) -> MDBFileInfo {
    MDBFileInfo {
        metadata: FileDataSequenceHeader::new(h(2000 + i, 0), 1usize, false, false),
        segments: vec![FileDataSequenceEntry::new(h(1000 + i, 0), (33 + 9 * i) as usize, 0usize, 3usize)],
        verification: vec![],
        metadata_ext: None,
    }
}

#[derive(Clone, Debug)]
struct Harness {
    name: String,
    pre: Vec<Op>,
    threads: Vec<Vec<Op>>,
}
impl Harness {
    fn to_json(&self) -> Value {
        json!({"name": self.name, "pre": self.pre.iter().map(|o| o.to_json()).collect::<Vec<_>>(),
            "threads": self.threads.iter().map(|t| t.iter().map(|o| o.to_json()).collect::<Vec<_>>()).collect::<Vec<_>>()})
    }
    fn from_json(v: &Value) -> Harness {
        Harness {
            name: v["name"].as_str().unwrap_or("replay").into(),
            pre: v["pre"].as_array().map(|a| a.iter().map(Op::from_json).collect()).unwrap_or_default(),
            threads: v["threads"].as_array().map(|a| a.iter().map(|t| t.as_array().map(|x| x.iter().map(Op::from_json).collect()).unwrap_or_default()).collect()).unwrap_or_default(),
        }
    }
}

fn harnesses(tier: Tier) -> Vec<Harness> {
    use Op::*;
    let hh = |name: &str, pre: Vec<Op>, threads: Vec<Vec<Op>>| Harness { name: name.into(), pre, threads };
    let mut v = vec![
        // the target size is small (set in main): every second add triggers an automatic flush
        hh("add xorb || add xorb", vec![], vec![vec![AddXorb(0)], vec![AddXorb(1)]]),
        hh("add,add || add,add", vec![], vec![vec![AddXorb(0), AddFile(0)], vec![AddXorb(1), AddFile(1)]]),
        hh("flush || add", vec![AddXorb(0)], vec![vec![Flush], vec![AddXorb(1)]]),
        hh("flush || add file", vec![AddXorb(0), AddFile(0)], vec![vec![Flush], vec![AddFile(1)]]),
        hh("add(auto-flush) || add || query", vec![AddXorb(0)], vec![vec![AddXorb(1), AddXorb(2)], vec![AddXorb(3), Query(0)]]),
        // two shard files registered at once (the per-shard tasks of a finalizing session): afterwards the chunks of
        // both must be found
        hh("register || register", vec![], vec![vec![Register(4)], vec![Register(5)]]),
        hh("register || register after one", vec![Register(6)], vec![vec![Register(4)], vec![Register(5)]]),
    ];
    if tier == Tier::Thorough {
        v.extend(vec![
            hh("flush || flush", vec![AddXorb(0)], vec![vec![Flush], vec![Flush]]),
            hh("add,flush || add,flush", vec![], vec![vec![AddXorb(0), Flush], vec![AddXorb(1), Flush]]),
            hh("3 adders", vec![], vec![vec![AddXorb(0)], vec![AddXorb(1)], vec![AddXorb(2)]]),
            hh("add,add,add || flush", vec![], vec![vec![AddXorb(0), AddXorb(1), AddXorb(2)], vec![Flush]]),
            hh("add file,add xorb || add file,add xorb", vec![], vec![vec![AddFile(0), AddXorb(0)], vec![AddFile(1), AddXorb(1)]]),
        ]);
    }
    v
}

struct Obs {
    added_xorbs: Vec<u64>,
    added_files: Vec<u64>,
    errors: Vec<String>,
    on_disk_xorbs: BTreeSet<u64>,
    on_disk_files: BTreeSet<u64>,
    shards: usize,
    unreadable: Vec<String>,
    wrong_answers: Vec<String>,
}

static DIR_COUNTER: AtomicUsize = AtomicUsize::new(0);
/// (manager directory, xorb id, path of the pre-written shard file that holds that xorb)
static REG_FILES: Mutex<Vec<(PathBuf, u64, PathBuf)>> = Mutex::new(Vec::new());

fn apply(mgr: &ShardFileManager, op: &Op, added_x: &Mutex<Vec<u64>>, added_f: &Mutex<Vec<u64>>, errors: &Mutex<Vec<String>>, wrong: &Mutex<Vec<String>>) {
    match op {
        Op::AddXorb(i) => match sched::block_on(mgr.add_cas_block(xorb(*i))) {
            Ok(()) => added_x.lock().unwrap().push(*i),
            Err(e) => errors.lock().unwrap().push(format!("{op:?}: {e:?}")),
        },
        Op::AddFile(i) => match sched::block_on(mgr.add_file_reconstruction_info(file(*i))) {
            Ok(()) => added_f.lock().unwrap().push(*i),
            Err(e) => errors.lock().unwrap().push(format!("{op:?}: {e:?}")),
        },
        Op::Flush => {
            if let Err(e) = sched::block_on(mgr.flush()) {
                errors.lock().unwrap().push(format!("{op:?}: {e:?}"));
            }
        },
        Op::Register(i) => {
            let dir = mgr.shard_directory().to_path_buf();
            let path = REG_FILES.lock().unwrap().iter().find(|(d, j, _)| *d == dir && j == i).map(|x| x.2.clone());
            match path {
                None => errors.lock().unwrap().push(format!("{op:?}: no pre-written shard file")),
                Some(p) => {
                    let r = MDBShardFile::load_from_file(&p).and_then(|sf| sched::block_on(mgr.register_shards(&[sf])));
                    match r {
                        Ok(()) => added_x.lock().unwrap().push(1000 + *i),
                        Err(e) => errors.lock().unwrap().push(format!("{op:?}: {e:?}")),
                    }
                },
            }
        },
        Op::Query(i) => {
            let x = xorb(*i);
            let q: Vec<MerkleHash> = x.chunks.iter().map(|c| c.chunk_hash).collect();
            match sched::block_on(mgr.chunk_hash_dedup_query(&q)) {
                Ok(Some((n, fse))) => {
                    // truthfulness (C05): the answer must name xorb i's chunks
                    if fse.cas_hash != x.metadata.cas_hash || fse.chunk_index_start != 0 || n == 0 || n > 3 || fse.chunk_index_end as usize != n {
                        wrong.lock().unwrap().push(format!("query({i}) -> n={n} {fse:?}"));
                    }
                    sched::log(format!("query({i}) hit {n}"));
                },
                Ok(None) => sched::log(format!("query({i}) miss")),
                Err(e) => errors.lock().unwrap().push(format!("{op:?}: {e:?}")),
            }
        },
    }
}

fn body(hs: Harness, scratch: PathBuf, slot: Arc<Mutex<Option<Obs>>>) {
    let dir = scratch.join(format!("m{}", DIR_COUNTER.fetch_add(1, Ordering::SeqCst)));
    {
        let _g = HookGuard::enter();
        let _ = std::fs::remove_dir_all(&dir);
        std::fs::create_dir_all(&dir).unwrap();
    }
    let mgr = sched::block_on(ShardFileManager::new_in_session_directory(&dir)).expect("manager");
    {
        // the shard files that Register ops hand to the manager are written beforehand, outside the exploration
        let _g = HookGuard::enter();
        let mdir = mgr.shard_directory().to_path_buf();
        for op in hs.pre.iter().chain(hs.threads.iter().flatten()) {
            if let Op::Register(i) = op {
                let mut m = MDBInMemoryShard::default();
                m.add_cas_block(xorb(*i)).expect("add_cas_block");
                let p = m.write_to_directory(&mdir).expect("write shard");
                REG_FILES.lock().unwrap().push((mdir.clone(), *i, p));
            }
        }
    }
    let added_x = Arc::new(Mutex::new(vec![]));
    let added_f = Arc::new(Mutex::new(vec![]));
    let errors = Arc::new(Mutex::new(vec![]));
    let wrong = Arc::new(Mutex::new(vec![]));
    for op in &hs.pre {
        apply(&mgr, op, &added_x, &added_f, &errors, &wrong);
    }
    let mut handles = vec![];
    for ops in hs.threads.iter() {
        let (mgr, ops, ax, af, er, wr) = (mgr.clone(), ops.clone(), added_x.clone(), added_f.clone(), errors.clone(), wrong.clone());
        handles.push(sched::spawn(move || {
            for op in &ops {
                apply(&mgr, op, &ax, &af, &er, &wr);
            }
        }));
    }
    for hd in handles {
        let _ = hd.join();
    }
    // every shard whose registration returned Ok answers for its chunks
    for i in added_x.lock().unwrap().iter().filter(|i| **i >= 1000).map(|i| *i - 1000).collect::<Vec<_>>() {
        let x = xorb(i);
        let q: Vec<MerkleHash> = x.chunks.iter().map(|c| c.chunk_hash).collect();
        match sched::block_on(mgr.chunk_hash_dedup_query(&q)) {
            Ok(Some((n, fse))) if fse.cas_hash == x.metadata.cas_hash && n == 3 && fse.chunk_index_start == 0 => {},
            other => wrong.lock().unwrap().push(format!("REGISTERED shard of xorb {i}: its chunks are not found afterwards: {other:?}")),
        }
    }
    added_x.lock().unwrap().retain(|i| *i < 1000);
    {
        let mdir = mgr.shard_directory().to_path_buf();
        REG_FILES.lock().unwrap().retain(|(d, _, _)| *d != mdir);
    }
    // what finalize does: flush whatever is still in memory
    if let Err(e) = sched::block_on(mgr.flush()) {
        errors.lock().unwrap().push(format!("final flush: {e:?}"));
    }
    // read the session's shard files back, independently of the manager
    let mut on_x = BTreeSet::new();
    let mut on_f = BTreeSet::new();
    let mut unreadable = vec![];
    let mut shards = 0;
    {
        let _g = HookGuard::enter();
        for (p, is_dir, _) in util::list_tree(&dir) {
            if is_dir || !p.ends_with(".mdb") {
                continue;
            }
            shards += 1;
            let buf = std::fs::read(dir.join(&p)).unwrap_or_default();
            let mut rd = Cursor::new(&buf);
            match MDBShardInfo::load_from_reader(&mut rd) {
                Err(e) => unreadable.push(format!("{p}: {e:?}")),
                Ok(si) => {
                    for c in si.read_all_cas_blocks_full(&mut rd).unwrap_or_default() {
                        for i in 0..8u64 {
                            if c == xorb(i) {
                                on_x.insert(i);
                            }
                        }
                    }
                    for f in si.read_all_file_info_sections(&mut rd).unwrap_or_default() {
                        for i in 0..8u64 {
                            if f.metadata.file_hash == file(i).metadata.file_hash && f.segments == file(i).segments {
                                on_f.insert(i);
                            }
                        }
                    }
                },
            }
        }
    }
    let o = Obs {
        added_xorbs: added_x.lock().unwrap().clone(),
        added_files: added_f.lock().unwrap().clone(),
        errors: errors.lock().unwrap().clone(),
        on_disk_xorbs: on_x,
        on_disk_files: on_f,
        shards,
        unreadable,
        wrong_answers: wrong.lock().unwrap().clone(),
    };
    sched::log(format!("shards={} xorbs={:?} files={:?} errors={}", o.shards, o.on_disk_xorbs, o.on_disk_files, o.errors.len()));
    *slot.lock().unwrap() = Some(o);
    drop(mgr);
    let _g = HookGuard::enter();
    let _ = std::fs::remove_dir_all(&dir);
}

fn verdict(o: &Obs) -> Result<(), (String, String)> {
    if let Some(w) = o.wrong_answers.iter().find(|w| w.starts_with("REGISTERED")) {
        return Err(("C11/registered-shard-not-found-by-lookup".into(), w.clone()));
    }
    if let Some(w) = o.wrong_answers.first() {
        return Err(("C11/dedup-answer-wrong-under-concurrency".into(), w.clone()));
    }
    if let Some(u) = o.unreadable.first() {
        return Err(("C11/session-shard-unreadable".into(), u.clone()));
    }
    for i in &o.added_xorbs {
        if !o.on_disk_xorbs.contains(i) {
            return Err((
                "C11/added-xorb-missing-from-session-shards".into(),
                format!("add_cas_block(xorb {i}) returned Ok, yet after the final flush no shard file of the session lists it (shards on disk: {}, xorbs found: {:?})", o.shards, o.on_disk_xorbs),
            ));
        }
    }
    for i in &o.added_files {
        if !o.on_disk_files.contains(i) {
            return Err((
                "C11/added-file-record-missing-from-session-shards".into(),
                format!("add_file_reconstruction_info(file {i}) returned Ok, yet no shard file of the session holds it (files found: {:?})", o.on_disk_files),
            ));
        }
    }
    Ok(())
}

fn fx(s: &str) -> u64 {
    let mut h = 0xcbf29ce484222325u64;
    for b in s.bytes() {
        h ^= b as u64;
        h = h.wrapping_mul(0x100000001b3);
    }
    h
}

fn main() {
    // must precede the first use of the lazy constant: two small records reach the target size
    std::env::set_var("HF_XET_MDB_SHARD_MIN_TARGET_SIZE", "420");
    let args = Args::parse();
    if args.prop != "C11c" {
        machinery_error("lab_shardmgr serves C11c (the concurrent part of C11)");
    }
    util::quiet_panics();
    sched::install_hooks();
    let mut run = Run::new(&args, "C11", "model_checking");
    run.evidence_name = Some("C11c".into());
    let mut out = Partial::default();
    let scratch = Scratch::new("shardmgr");
    let root = std::fs::canonicalize(scratch.path()).unwrap();
    vcore::vfs::watch(&root, true);
    let tier = args.tier;

    if let Some(rp) = &args.replay {
        let v: Value = serde_json::from_slice(&std::fs::read(rp).unwrap_or_else(|e| machinery_error(&format!("read replay: {e}")))).unwrap_or_else(|e| machinery_error(&format!("parse: {e}")));
        let r = &v["replay"];
        let hs = Harness::from_json(&r["harness"]);
        let choices: Vec<usize> = r["choices"].as_array().unwrap().iter().map(|x| x.as_u64().unwrap() as usize).collect();
        let slot = Arc::new(Mutex::new(None));
        let (h2, s2, r2) = (hs.clone(), slot.clone(), root.clone());
        let rr = sched::run_one(&choices, move || body(h2, r2, s2));
        println!("trace: {:?}\nlog: {:?}", rr.describe(), rr.log);
        if let Some(a) = rr.aborted {
            out.violation("C11/deadlock-in-shard-manager", a, r.clone());
        }
        let taken = slot.lock().unwrap().take();
        if let Some(o) = taken {
            if let Err((sig, w)) = verdict(&o) {
                out.violation(&sig, w, r.clone());
            }
        }
        run.set("states", json!(1));
        run.set("transitions", json!(1));
        run.set("traces_validated_against_impl", json!(1));
        run.all = out;
        run.finish(1, "replay of one recorded schedule", false);
    }

    let hs = harnesses(tier);
    let bound = 2usize;
    let deadline = Instant::now() + Duration::from_secs(tier.pick(40, 400));
    let next = AtomicUsize::new(0);
    let results: Mutex<Vec<(usize, Partial, Vec<String>, usize, bool, usize)>> = Mutex::new(vec![]);
    std::thread::scope(|s| {
        for _ in 0..10 {
            s.spawn(|| loop {
                let i = next.fetch_add(1, Ordering::SeqCst);
                if i >= hs.len() {
                    break;
                }
                util::quiet_panics();
                let mut p = Partial::default();
                let mut m = vec![];
                let cfg = ExploreCfg {
                    bound,
                    deadline: Some(deadline),
                    max_exec: tier.pick(40_000, 1_000_000),
                    ..Default::default()
                };
                let slot: Arc<Mutex<Option<Obs>>> = Arc::new(Mutex::new(None));
                let (h2, s2, r2) = (hs[i].clone(), slot.clone(), root.clone());
                let bodyf = move || body(h2.clone(), r2.clone(), s2.clone());
                let s3 = slot.clone();
                let check = move |r: &RunResult| -> Result<String, String> {
                    if let Some(a) = &r.aborted {
                        return Err(format!("C11/deadlock-in-shard-manager|{a}"));
                    }
                    if let Some(pn) = &r.panic {
                        return Err(format!("C11/panic-in-shard-manager|{pn}"));
                    }
                    let o = s3.lock().unwrap().take().ok_or_else(|| "C11/panic-in-shard-manager|no observation".to_string())?;
                    verdict(&o).map_err(|(s, w)| format!("{s}|{w}"))?;
                    Ok(r.log.join(";"))
                };
                let st = sched::explore(&cfg, bodyf, &check);
                p.count("schedules", st.executions as u64);
                p.count("decisions", st.decisions as u64);
                p.count("steps", st.steps as u64);
                p.count("replays_checked", st.replays_checked as u64);
                p.max("max:trace_len", st.max_trace as u64);
                for x in st.machinery {
                    m.push(format!("{}: {x}", hs[i].name));
                }
                for (choices, trace, msg) in st.violations {
                    let (sig, text) = msg.split_once('|').unwrap_or(("C11/violation", &msg));
                    p.violation(sig, format!("harness '{}' bound {bound}: {text}", hs[i].name), json!({"harness": hs[i].to_json(), "bound": bound, "choices": choices, "trace": trace}));
                }
                for o in st.outcomes.keys() {
                    p.distinct(format!("{}|{:x}", hs[i].name, fx(o)));
                    if o.contains("shards=2") || o.contains("shards=3") {
                        p.count("vac:outcomes_with_a_mid_session_flush", 1);
                    }
                }
                p.sample(json!({"harness": hs[i].to_json(), "bound": bound, "schedules": st.executions, "distinct_outcomes": st.outcomes.len(), "capped": st.capped}));
                results.lock().unwrap().push((i, p, m, st.executions, st.capped, st.outcomes.len()));
            });
        }
    });
    let mut res = results.into_inner().unwrap();
    res.sort_by_key(|r| r.0);
    let mut schedules = 0u64;
    let mut per = vec![];
    let mut exhaustive = true;
    for (i, p, m, ex, capped, outcomes) in res {
        schedules += ex as u64;
        per.push(json!({"harness": hs[i].name, "schedules": ex, "outcomes": outcomes, "capped": capped}));
        exhaustive &= !capped;
        out.merge(p);
        for x in m {
            run.machinery(x);
        }
    }
    vcore::vfs::unwatch();
    run.set("harnesses", json!(per));
    run.set("states", json!(out.get("decisions").max(1)));
    run.set("transitions", json!(out.get("steps").max(1)));
    run.set("traces_validated_against_impl", json!(schedules));
    run.set("preemption_bound", json!(bound));
    run.assume("sequential consistency at switch-point granularity: hooked lock sections of ShardFileManager (H5), every path-based file-system call under the session directory, pending polls of tokio's RwLock");
    run.assume("MDB_SHARD_MIN_TARGET_SIZE = 420 so that the second record triggers the automatic mid-session flush");
    run.all = out;
    run.finish(
        schedules,
        "every schedule with at most 2 preemptions of each 2-3 thread harness of add_cas_block / add_file_reconstruction_info / flush / dedup query on one real ShardFileManager; after the final flush the session's shard files are parsed independently and must hold every record whose add returned Ok; distinct = distinct (harness, observation log)",
        exhaustive,
    );
}

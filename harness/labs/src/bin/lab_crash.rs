//! Crash lab: decides C19 ("interrupted writes never leave a partial file under a final name")
//! by fault enumeration.  Every operation (shard flush, write_to_directory, consolidation,
//! LocalClient::put, DiskCache::put, a whole upload session) is executed once by the real code
//! after every prior history of the tier's depth while the libc interposer (engine E2) copies the
//! directory tree before every mutating system call; each copy is the state a `kill -9` at that
//! instant leaves behind.  Every such crash state is restarted on a fresh path: names are checked
//! against contents, everything retrievable before the operation must still be retrievable, the
//! real code must re-open it, and re-running the operation must succeed and give the retrievable
//! set of the uninterrupted run.
//!
//! Helper files (pulled in with #[path]): ../crash_ops.rs, ../crash_oracle.rs, ../crash_selfcheck.rs and the existing
//! ../shard_model.rs, ../shard_checks.rs (plain-record model of shards).

vcore::interpose!();

#[path = "../shard_model.rs"]
mod shard_model;
#[path = "../shard_checks.rs"]
mod shard_checks;
#[path = "../crash_ops.rs"]
mod crash_ops;
#[path = "../crash_oracle.rs"]
mod crash_oracle;
#[path = "../crash_selfcheck.rs"]
mod crash_selfcheck;

use std::collections::BTreeSet;
use std::panic::{catch_unwind, AssertUnwindSafe};
use std::path::{Path, PathBuf};

use crash_ops::*;
use crash_oracle::*;
use vcore::report::{fanout, machinery_error, Args, Job, Partial, Run, Tier};
use vcore::util::Scratch;
use vcore::{json, Value};

// ------------------------------------------------------------------ cases

/// One step of a prior history.
#[derive(Clone, Debug, PartialEq)]
pub enum Step {
    /// the operation ran to completion
    Done(Op),
    /// the operation was itself interrupted before its effect k (1 <= k < its number of effects);
    /// the process restarted and went on with the rest of the history
    Crashed(Op, u64),
    /// plan-level: expands to Crashed(op, k) for every k
    CrashedAll(Op),
}
impl Step {
    pub fn op(&self) -> &Op {
        match self {
            Step::Done(o) | Step::Crashed(o, _) | Step::CrashedAll(o) => o,
        }
    }
    pub fn label(&self) -> String {
        match self {
            Step::Done(o) => o.label(),
            Step::Crashed(o, k) => format!("crash@{k}:{}", o.label()),
            Step::CrashedAll(o) => format!("crash@*:{}", o.label()),
        }
    }
    pub fn parse(s: &str) -> Option<Step> {
        if let Some(rest) = s.strip_prefix("crash@") {
            let (k, op) = rest.split_once(':')?;
            let op = Op::parse(op)?;
            return Some(if k == "*" { Step::CrashedAll(op) } else { Step::Crashed(op, k.parse().ok()?) });
        }
        Op::parse(s).map(Step::Done)
    }
}

#[derive(Clone, Debug)]
pub struct CaseSpec {
    pub domain: Domain,
    pub param: u8,
    pub history: Vec<Step>,
    pub op: Op,
    /// replay: check only this crash index
    pub only_k: Option<u64>,
    /// replay: the (normalized) system call that was about to happen at that index
    pub expect_effect: Option<String>,
}

impl CaseSpec {
    pub fn to_json(&self) -> Value {
        let mut v = json!({"domain": self.domain.name(), "param": self.param, "history": self.history.iter().map(|o| o.label()).collect::<Vec<_>>(),
            "operation": self.op.label(), "crash_index": self.only_k});
        if let Some(e) = &self.expect_effect {
            v["effect_about_to_happen"] = json!(e);
        }
        v
    }
    pub fn from_json(v: &Value) -> Option<CaseSpec> {
        Some(CaseSpec {
            domain: Domain::parse(v["domain"].as_str()?)?,
            param: v["param"].as_u64()? as u8,
            history: v["history"].as_array()?.iter().map(|x| x.as_str().and_then(Step::parse)).collect::<Option<Vec<_>>>()?,
            op: Op::parse(v["operation"].as_str()?)?,
            only_k: v["crash_index"].as_u64(),
            expect_effect: v["effect_about_to_happen"].as_str().map(normalize_line),
        })
    }
    pub fn label(&self) -> String {
        format!("{}/{} [{}] {}", self.domain.name(), self.param, self.history.iter().map(|o| o.label()).collect::<Vec<_>>().join(","), self.op.label())
    }
}

/// All histories over `alphabet` of length <= depth, shortest first.
fn histories(alphabet: &[Op], depth: usize) -> Vec<Vec<Step>> {
    let mut out = vec![vec![]];
    let mut prev: Vec<Vec<Step>> = vec![vec![]];
    for _ in 0..depth {
        let mut next = vec![];
        for h in &prev {
            for a in alphabet {
                let mut x = h.clone();
                x.push(Step::Done(a.clone()));
                next.push(x);
            }
        }
        out.extend(next.iter().cloned());
        prev = next;
    }
    out
}

/// Histories that end in an interrupted operation: [crash(b)] and, from `done_prefix` on, [a, crash(b)].
fn crashed_histories(alphabet: &[Op], done_prefix: bool) -> Vec<Vec<Step>> {
    let mut out = vec![];
    for b in alphabet {
        out.push(vec![Step::CrashedAll(b.clone())]);
    }
    if done_prefix {
        for a in alphabet {
            for b in alphabet {
                out.push(vec![Step::Done(a.clone()), Step::CrashedAll(b.clone())]);
            }
        }
    }
    out
}

/// (domain, param) groups with their cases, in a fixed order.
fn plan(tier: Tier) -> Vec<((Domain, u8), Vec<CaseSpec>)> {
    // the property asks for histories of depth <= 2 (quick: 1); the cheap domains go one deeper
    let depth = tier.pick(1, 3);
    let session_depth = tier.pick(1, 2);
    let mut groups = vec![];
    // shard directory
    {
        let alphabet = vec![Op::Flush(0), Op::Flush(1), Op::Flush(2), Op::Flush(3), Op::WriteDir(1), Op::Cons(0), Op::Cons(1), Op::Cons(2)];
        let mut hs = histories(&alphabet, depth);
        // deeper fixed histories: 2..4 input shards for the consolidation (merge / no merge / output equal to an input)
        for extra in [
            vec![Op::Flush(0), Op::Flush(1)],
            vec![Op::Flush(0), Op::Flush(2)],
            vec![Op::Flush(2), Op::Flush(0)],
            vec![Op::Flush(0), Op::Flush(1), Op::Flush(2)],
            vec![Op::Flush(0), Op::Flush(1), Op::Flush(3)],
            vec![Op::Flush(0), Op::Flush(1), Op::Flush(2), Op::Flush(3)],
            vec![Op::Flush(3), Op::Flush(1), Op::Cons(2), Op::Flush(0)],
        ] {
            let extra: Vec<Step> = extra.into_iter().map(Step::Done).collect();
            if !hs.contains(&extra) {
                hs.push(extra);
            }
        }
        hs.extend(crashed_histories(&alphabet, tier == Tier::Thorough));
        let mut cases = vec![];
        for h in &hs {
            for op in &alphabet {
                cases.push(CaseSpec {
                    domain: Domain::Shard,
                    param: 0,
                    history: h.clone(),
                    op: op.clone(),
                    only_k: None,
                    expect_effect: None,
                });
            }
        }
        groups.push(((Domain::Shard, 0), cases));
    }
    // LocalClient store
    {
        let alphabet = vec![Op::Put(0), Op::Put(1), Op::Put(2)];
        let mut cases = vec![];
        let mut hs = histories(&alphabet, depth);
        hs.extend(crashed_histories(&alphabet, tier == Tier::Thorough));
        for h in hs {
            for op in &alphabet {
                cases.push(CaseSpec {
                    domain: Domain::Store,
                    param: 0,
                    history: h.clone(),
                    op: op.clone(),
                    only_k: None,
                    expect_effect: None,
                });
            }
        }
        groups.push(((Domain::Store, 0), cases));
    }
    // chunk cache: capacity never reached / tiny capacity (evictions)
    for cap in [0u8, 1u8] {
        let hist_alphabet: Vec<Op> = (0..N_CACHE_MENU).map(|i| Op::CachePut(i, 0)).collect();
        let mut ops = hist_alphabet.clone();
        if cap == 1 {
            ops.extend((0..N_CACHE_MENU).map(|i| Op::CachePut(i, 1)));
        }
        let mut cases = vec![];
        let mut hs = histories(&hist_alphabet, depth);
        // two adjacent items, then a put that subsumes both / evicts at the tiny capacity
        for extra in [vec![Op::CachePut(0, 0), Op::CachePut(1, 0)], vec![Op::CachePut(0, 0), Op::CachePut(1, 0), Op::CachePut(4, 0)]] {
            let extra: Vec<Step> = extra.into_iter().map(Step::Done).collect();
            if !hs.contains(&extra) {
                hs.push(extra);
            }
        }
        if tier == Tier::Thorough {
            hs.extend(crashed_histories(&hist_alphabet, true));
        }
        for h in hs {
            for op in &ops {
                cases.push(CaseSpec {
                    domain: Domain::Cache,
                    param: cap,
                    history: h.clone(),
                    op: op.clone(),
                    only_k: None,
                    expect_effect: None,
                });
            }
        }
        groups.push(((Domain::Cache, cap), cases));
    }
    // upload sessions
    for cfg in tier.pick(vec![1u8], vec![0u8, 1u8]) {
        let alphabet: Vec<Op> = (0..N_SESS_MENU).map(Op::Sess).collect();
        let mut cases = vec![];
        let mut hs = histories(&alphabet, session_depth);
        if tier == Tier::Thorough {
            hs.extend(crashed_histories(&alphabet, false));
        }
        for h in hs {
            for op in &alphabet {
                cases.push(CaseSpec {
                    domain: Domain::Session,
                    param: cfg,
                    history: h.clone(),
                    op: op.clone(),
                    only_k: None,
                    expect_effect: None,
                });
            }
        }
        groups.push(((Domain::Session, cfg), cases));
    }
    groups
}

fn bad_writer_plan() -> Vec<((Domain, u8), Vec<CaseSpec>)> {
    let mk = |d: Domain, h: Vec<Op>, k: u8| CaseSpec {
        domain: d,
        param: 0,
        history: h.into_iter().map(Step::Done).collect(),
        op: Op::Bad(k),
        only_k: None,
                    expect_effect: None,
    };
    vec![
        ((Domain::Shard, 0), vec![mk(Domain::Shard, vec![Op::Flush(0)], 0), mk(Domain::Shard, vec![Op::Flush(0)], 1), mk(Domain::Shard, vec![Op::Flush(0)], 4)]),
        ((Domain::Store, 0), vec![mk(Domain::Store, vec![Op::Put(0)], 2)]),
        ((Domain::Cache, 0), vec![mk(Domain::Cache, vec![Op::CachePut(0, 0)], 3)]),
    ]
}

// ------------------------------------------------------------------ one case

pub struct Recorded {
    pub case_dir: PathBuf,
    pub root: PathBuf,
    pub snaps: PathBuf,
    pub n: u64,
    pub log: Vec<String>,
}

/// Runs the history, then the operation under the recorder.  Err = the uncrashed run itself
/// failed (text).
pub fn record_case(ctx: &Ctx, case_dir: &Path, case: &CaseSpec, selfcheck_marks: bool) -> Result<Recorded, String> {
    let mut generation = 0;
    let mut root = domain_root(&case_dir.join("g0"), case.domain);
    let prepare = |root: &Path| -> Result<(), String> {
        if case.domain == Domain::Shard || case.domain == Domain::Session {
            std::fs::create_dir_all(root).map_err(|e| format!("create root: {e}"))?;
        } else {
            std::fs::create_dir_all(root.parent().unwrap()).map_err(|e| format!("create root parent: {e}"))?;
        }
        Ok(())
    };
    prepare(&root)?;
    let snaps = case_dir.join("snaps");
    std::fs::create_dir_all(&snaps).map_err(|e| format!("create snaps: {e}"))?;
    vcore::vfs::set_clock(Some(FAKE_NOW));
    // watched (not yet recorded) from the start: file descriptors that the history leaves open
    // under the root (LMDB environments are cached per process) must be known to the interposer
    vcore::vfs::watch(&root, false);
    let fail = |e: String| -> Result<Recorded, String> {
        let _ = vcore::vfs::stop_record();
        vcore::vfs::unwatch();
        Err(e)
    };
    for (j, h) in case.history.iter().enumerate() {
        let hsnaps = case_dir.join(format!("hsnaps{j}"));
        if let Step::Crashed(..) = h {
            if let Err(e) = std::fs::create_dir_all(&root).and_then(|_| std::fs::create_dir_all(&hsnaps)) {
                return fail(format!("create: {e}"));
            }
            vcore::vfs::record(&hsnaps);
        }
        let r = catch_unwind(AssertUnwindSafe(|| run_op(ctx, &root, h.op())));
        let (hn, _) = if let Step::Crashed(..) = h { vcore::vfs::stop_record() } else { (0, vec![]) };
        match r {
            Ok(o) => {
                if let Some(e) = o.err {
                    return fail(format!("history operation {} failed: {e}", h.label()));
                }
            },
            Err(p) => return fail(format!("history operation {} panicked: {} @ {}", h.label(), vcore::util::panic_text(&p), vcore::util::last_panic_loc())),
        }
        match h {
            Step::Done(_) => {},
            Step::Crashed(_, k) => {
                if *k >= hn {
                    return fail(format!("history step {}: the operation has only {hn} effects", h.label()));
                }
                // the process died before effect k and restarted: go on with that tree, at a path
                // this process has never used (caches of the code under test are keyed by path)
                generation += 1;
                let next = domain_root(&case_dir.join(format!("g{generation}")), case.domain);
                if let Err(e) = prepare(&next).and_then(|_| vcore::util::copy_tree(&hsnaps.join(format!("{k}")), &next).map_err(|e| format!("copy crash state: {e}"))) {
                    return fail(e);
                }
                rm_tree(&hsnaps);
                root = next;
                vcore::vfs::watch(&root, false);
            },
            Step::CrashedAll(_) => return fail("unexpanded crash@* step".into()),
        }
        if case.domain == Domain::Shard {
            stamp_new_shards(&root, j + 1);
        }
    }
    // the watched root must exist as a directory for the snapshots
    if let Err(e) = std::fs::create_dir_all(&root) {
        return fail(format!("create root: {e}"));
    }
    if selfcheck_marks {
        let _ = std::fs::metadata(crash_selfcheck::MARK_BEGIN);
    }
    vcore::vfs::record(&snaps);
    let r = catch_unwind(AssertUnwindSafe(|| run_op(ctx, &root, &case.op)));
    let (n, log) = vcore::vfs::stop_record();
    vcore::vfs::unwatch();
    if selfcheck_marks {
        let _ = std::fs::metadata(crash_selfcheck::MARK_END);
    }
    match r {
        Ok(o) => {
            if let Some(e) = o.err {
                return Err(format!("operation {} failed without any crash: {e}", case.op.label()));
            }
        },
        Err(p) => return Err(format!("operation {} panicked without any crash: {} @ {}", case.op.label(), vcore::util::panic_text(&p), vcore::util::last_panic_loc())),
    }
    vcore::util::copy_tree(&root, &snaps.join(format!("{n}"))).map_err(|e| format!("copy final tree: {e}"))?;
    Ok(Recorded {
        case_dir: case_dir.to_path_buf(),
        root,
        snaps,
        n,
        log,
    })
}

fn rm_tree(p: &Path) {
    let _ = vcore::util::make_writable(p);
    let _ = std::fs::remove_dir_all(p);
}

static CASE_SEQ: std::sync::atomic::AtomicU64 = std::sync::atomic::AtomicU64::new(0);

fn check_case(ctx: &Ctx, scratch: &Path, case: &CaseSpec, out: &mut Partial) {
    // a crash@* step: learn the number of effects of that operation after the steps before it,
    // then check the case once per crash index of the step
    if let Some(j) = case.history.iter().position(|h| matches!(h, Step::CrashedAll(_))) {
        let seq = CASE_SEQ.fetch_add(1, std::sync::atomic::Ordering::Relaxed);
        let probe_dir = scratch.join(format!("case{seq}"));
        rm_tree(&probe_dir);
        std::fs::create_dir_all(&probe_dir).expect("case dir");
        let probe = CaseSpec {
            domain: case.domain,
            param: case.param,
            history: case.history[..j].to_vec(),
            op: case.history[j].op().clone(),
            only_k: None,
            expect_effect: None,
        };
        let n1 = match record_case(ctx, &probe_dir, &probe, false) {
            Ok(r) => r.n,
            Err(e) => {
                out.count("machinery:uncrashed_run_failed", 1);
                out.notes.push(format!("MACHINERY {}: {e}", probe.label()));
                0
            },
        };
        rm_tree(&probe_dir);
        for k1 in 1..n1 {
            let mut c = case.clone();
            c.history[j] = Step::Crashed(case.history[j].op().clone(), k1);
            check_case(ctx, scratch, &c, out);
        }
        return;
    }
    let after_crash = case.history.iter().any(|h| matches!(h, Step::Crashed(..)));
    let hist_ops: Vec<Op> = case.history.iter().map(|h| h.op().clone()).collect();
    let seq = CASE_SEQ.fetch_add(1, std::sync::atomic::Ordering::Relaxed);
    let case_dir = scratch.join(format!("case{seq}"));
    rm_tree(&case_dir);
    std::fs::create_dir_all(&case_dir).expect("case dir");
    let kind = case.op.kind();
    let rec = match record_case(ctx, &case_dir, case, false) {
        Ok(r) => r,
        Err(e) if after_crash && !e.contains("the operation has only") && !e.starts_with("create") && !e.starts_with("copy") => {
            // the history holds an interrupted step: what fails (or panics) now runs on the restart image of that
            // stop, and "the store works again after a restart" is what the property promises
            out.count("cases", 1);
            out.count("cases_after_an_interrupted_history_step", 1);
            let sig = format!("C19/operation-fails-after-restart:{kind}");
            let mut rp = case.to_json();
            rp["failure"] = json!(e);
            out.violation(&sig, format!("{}: after the interrupted history step the restarted store does not work: {e}", case.label()), rp);
            rm_tree(&case_dir);
            return;
        },
        Err(e) => {
            // not a crash-consistency question: the uncrashed run must work for the lab to explore
            out.count("machinery:uncrashed_run_failed", 1);
            out.notes.push(format!("MACHINERY {}: {e}", case.label()));
            rm_tree(&case_dir);
            return;
        },
    };
    out.count("cases", 1);
    if after_crash {
        out.count("cases_after_an_interrupted_history_step", 1);
    }
    out.count(&format!("runs[{kind}]"), 1);
    out.count(&format!("effects_total[{kind}]"), rec.n);
    out.max(&format!("max:effects_max[{kind}]"), rec.n);
    out.max(&format!("max:effects_min_complement[{kind}]"), 100_000 - rec.n.min(100_000));
    if rec.n == 0 {
        out.count(&format!("info:runs_without_effects[{kind}]"), 1);
    }
    // scans of the state before the operation and after the uninterrupted run (on fresh copies)
    let scan_of = |k: u64, tag: &str| -> Obs {
        let p = case_dir.join(format!("{tag}{k}"));
        vcore::util::copy_tree(&rec.snaps.join(format!("{k}")), &p).expect("copy state");
        let o = scan_tree(&p, case.domain);
        rm_tree(&p);
        o
    };
    let before = scan_of(0, "b");
    let after = scan_of(rec.n, "a");
    let final_dirs_nonempty: BTreeSet<String> = after
        .listing
        .iter()
        .filter(|l| l.ends_with('/'))
        .map(|l| l.trim_end_matches('/').to_string())
        .filter(|d| !after.empty_dirs.contains(d))
        .collect();
    let cache_hits_before = if case.domain == Domain::Cache {
        let p = case_dir.join("hb");
        vcore::util::copy_tree(&rec.snaps.join("0"), &p).expect("copy state");
        let h = cache_hits_on(ctx, &p, &hist_ops, &case.op);
        rm_tree(&p);
        out.count("vac:cache_ranges_retrievable_before_the_interrupted_put", h.len() as u64);
        h
    } else {
        BTreeSet::new()
    };
    let restart = Restart {
        ctx,
        domain: case.domain,
        history: &hist_ops,
        op: &case.op,
        before: &before,
        after: &after,
        cache_hits_before: &cache_hits_before,
    };
    let mut st = RestartStats::default();
    let is_cons = matches!(case.op, Op::Cons(_));
    let before_shards: BTreeSet<String> = before.shards.iter().map(|s| s.0.clone()).collect();
    let after_shards: BTreeSet<String> = after.shards.iter().map(|s| s.0.clone()).collect();
    let new_outputs: BTreeSet<String> = after_shards.difference(&before_shards).cloned().collect();
    let removed_inputs: BTreeSet<String> = before_shards.difference(&after_shards).cloned().collect();
    if is_cons && !removed_inputs.is_empty() && new_outputs.is_empty() {
        out.count("vac:consolidations_whose_output_equals_an_input", 1);
    }
    if is_cons && !removed_inputs.is_empty() {
        out.count("vac:consolidations_that_merge", 1);
    }
    if is_cons && removed_inputs.is_empty() && before_shards.len() >= 2 {
        out.count("vac:consolidations_that_do_not_merge", 1);
    }
    if matches!(case.op, Op::Flush(_) | Op::WriteDir(_)) && new_outputs.is_empty() && rec.n > 0 {
        out.count("vac:flushes_that_rewrite_an_existing_shard_name", 1);
    }
    let effect_at = |k: u64| -> String { rec.log.get(k as usize).map(|l| normalize_line(l)).unwrap_or_else(|| "(operation complete)".to_string()) };
    let ks: Vec<u64> = match case.only_k {
        None => (0..=rec.n).collect(),
        Some(k) => match &case.expect_effect {
            // threads of a session interleave differently from run to run: find the same effect
            Some(exp) if k > rec.n || effect_at(k) != *exp => {
                let alt: Vec<u64> = (0..=rec.n).filter(|j| effect_at(*j) == *exp).collect();
                out.notes.push(format!("replay: effect {k} of this run is '{}', the recorded one was '{exp}'; checking indices {alt:?} (all when empty)", effect_at(k)));
                if alt.is_empty() {
                    (0..=rec.n).collect()
                } else {
                    alt
                }
            },
            _ => vec![k],
        },
    };
    let mut example_state = Value::Null;
    for k in ks {
        let dir = case_dir.join(format!("r{k}"));
        if vcore::util::copy_tree(&rec.snaps.join(format!("{k}")), &dir).is_err() {
            out.count("machinery:copy_failed", 1);
            continue;
        }
        out.count("crash_states", 1);
        out.count(&format!("crash_states[{}]", case.domain.name()), 1);
        if after_crash {
            out.count("vac:crash_states_after_an_interrupted_history_step", 1);
            if !before.temps.is_empty() {
                out.count("vac:crash_states_of_operations_started_with_a_leftover_temp_file", 1);
            }
        }
        // classification of the state (vacuity, distinctness)
        let now = scan_tree(&dir, case.domain);
        let partial_dirs: Vec<&String> = now.empty_dirs.iter().filter(|d| final_dirs_nonempty.contains(*d)).collect();
        if !now.temps.is_empty() {
            out.count("vac:states_with_a_temp_file", 1);
            if now.temps.iter().any(|t| t.1 == 0) {
                out.count("vac:states_with_a_zero_length_temp_file", 1);
            }
            if now.temps.iter().any(|t| t.1 > 0) {
                out.count("vac:states_with_a_non_empty_temp_file", 1);
            }
        }
        if !partial_dirs.is_empty() {
            out.count("vac:states_with_a_partially_populated_directory", 1);
        }
        if !now.temps.is_empty() || !partial_dirs.is_empty() {
            if example_state.is_null() && now.temps.iter().any(|t| t.1 > 0) {
                example_state = json!({"crash_index": k, "about_to_happen": effect_at(k), "tree": now.listing});
            }
            out.distinct(format!("{}|{}", case.domain.name(), now.listing.join(";")));
        }
        if is_cons {
            let cur: BTreeSet<String> = now.shards.iter().map(|s| s.0.clone()).collect();
            let out_present = new_outputs.iter().any(|o| cur.contains(o));
            let inputs_present = removed_inputs.iter().filter(|i| cur.contains(*i)).count();
            if out_present && inputs_present == removed_inputs.len() && !removed_inputs.is_empty() {
                out.count("vac:consolidate_states_with_merged_output_and_all_inputs", 1);
            }
            if out_present && inputs_present > 0 && inputs_present < removed_inputs.len() {
                out.count("vac:consolidate_states_with_merged_output_and_some_inputs_removed", 1);
            }
        }
        if now.writable_xorbs > 0 && (case.domain == Domain::Store) {
            out.count("vac:states_with_a_renamed_but_not_yet_read_only_xorb", 1);
        }
        if case.domain == Domain::Cache {
            if let Op::CachePut(i, _) = &case.op {
                let (_, s, e) = cache_menu_range(*i);
                let new_there = now.cache_items.iter().any(|c| c.1 == s && c.2 == e);
                let inner = now.cache_items.iter().filter(|c| c.1 >= s && c.2 <= e && !(c.1 == s && c.2 == e)).count();
                if new_there && inner > 0 {
                    out.count("vac:cache_states_with_new_item_and_subsumed_items", 1);
                }
                let gone = before.cache_items.iter().filter(|c| !after.cache_items.contains(*c) && !now.cache_items.contains(*c)).count();
                if new_there && gone > 0 && k < rec.n {
                    out.count("vac:cache_states_with_an_old_item_removed_before_completion", 1);
                }
            }
        }
        if case.domain == Domain::Session {
            let in_cache = now.shards.iter().filter(|s| s.0.contains("shard-cache/")).count();
            let in_store = now.shards.iter().filter(|s| s.0.contains("xorbs/shards/")).count();
            let in_sess = now.shards.iter().filter(|s| s.0.contains("shard-session/")).count();
            let b_cache = before.shards.iter().filter(|s| s.0.contains("shard-cache/")).count();
            let b_store = before.shards.iter().filter(|s| s.0.contains("xorbs/shards/")).count();
            if in_store > b_store && in_cache == b_cache {
                out.count("vac:session_states_with_shard_in_store_but_not_yet_in_cache", 1);
            }
            if in_cache > b_cache && in_sess > 0 {
                out.count("vac:session_states_with_shard_in_cache_and_still_in_session_directory", 1);
            }
            if in_sess > 0 {
                out.count("vac:session_states_with_session_shards_left_behind", 1);
            }
        }
        // the restart
        let fails = restart_checks(&restart, &dir, &mut st);
        for (sig, what) in fails {
            if sig.starts_with("MACHINERY/") {
                out.count("machinery:restart_could_not_run", 1);
                out.notes.push(format!("MACHINERY {} state {k}: {what}", case.label()));
                continue;
            }
            let effect = effect_at(k);
            let mut c = case.clone();
            c.only_k = Some(k);
            let mut rp = c.to_json();
            rp["effect_about_to_happen"] = json!(effect);
            rp["effects_total"] = json!(rec.n);
            rp["tree_at_crash"] = json!(now.listing);
            out.violation(
                &sig,
                format!("{} crashed before effect {k} of {} ({effect}): {what} [tree: {}]", case.label(), rec.n, now.listing.join("; ")),
                rp,
            );
        }
        rm_tree(&dir);
    }
    out.count("info:lmdb_retries", st.lmdb_retries);
    out.count("info:cache_gets_after_restart", st.cache_gets);
    out.count("info:cache_hits_after_restart", st.cache_hits);
    out.count("info:cache_misses_after_restart", st.cache_misses);
    out.count("retrievals_checked_through_reopened_real_code", st.retrievals);
    out.count("info:rerun_leaves_extra_records", st.rerun_extra);
    // one written-out case per operation kind (and per "after an interrupted step") and worker
    let sample_key = format!("{kind}{}", if after_crash { " after an interrupted step" } else { "" });
    if rec.n > 2 && !out.samples.iter().any(|x| x["kind"].as_str() == Some(sample_key.as_str())) {
        out.sample(json!({"kind": sample_key, "case": case.label(), "effects": rec.n,
            "syscall_log": rec.log.iter().map(|l| normalize_line(l)).take(60).collect::<Vec<_>>(),
            "example_crash_state": example_state}));
    }
    rm_tree(&case_dir);
}

// ------------------------------------------------------------------ worker

fn raise_nofile() {
    unsafe {
        let mut rl = libc::rlimit { rlim_cur: 0, rlim_max: 0 };
        if libc::getrlimit(libc::RLIMIT_NOFILE, &mut rl) == 0 {
            rl.rlim_cur = rl.rlim_max.min(1 << 20);
            libc::setrlimit(libc::RLIMIT_NOFILE, &rl);
        }
    }
}

fn cases_of_spec(spec: &Value) -> Vec<CaseSpec> {
    spec["cases"].as_array().map(|a| a.iter().filter_map(CaseSpec::from_json).collect()).unwrap_or_default()
}

/// key of a probe: everything up to and including the crash@* step
fn probe_key(case: &CaseSpec, j: usize) -> String {
    format!("{}/{}/{}", case.domain.name(), case.param, case.history[..=j].iter().map(|h| h.label()).collect::<Vec<_>>().join(","))
}

fn worker(args: &Args, spec_text: &str) {
    vcore::util::quiet_panics();
    vcore::sched::install_hooks();
    raise_nofile();
    let spec: Value = serde_json::from_str(spec_text).unwrap_or_else(|e| machinery_error(&format!("bad worker spec: {e}")));
    let cases = cases_of_spec(&spec);
    let Some(first) = cases.first() else {
        Partial::default().write_out(args.out.as_ref().expect("--out"));
        return;
    };
    let (domain, param) = (first.domain, first.param);
    if domain == Domain::Session {
        for (k, v) in session_cfg(param).env() {
            if std::env::var(&k).ok().as_deref() != Some(v.as_str()) {
                machinery_error(&format!("worker environment lacks {k}={v}"));
            }
        }
    }
    let scratch = Scratch::new("crash");
    let ctx = Ctx::new(domain, param, scratch.path());
    if spec["selfcheck"].as_bool() == Some(true) {
        crash_selfcheck::worker_side(&ctx, scratch.path(), &cases[0], args.out.as_ref().expect("--out"));
        return;
    }
    let mut out = Partial::default();
    if spec["probe"].as_bool() == Some(true) {
        // number of effects of the operation of each case (the parent expands crash@* steps with it)
        for (i, c) in cases.iter().enumerate() {
            let dir = scratch.path().join(format!("probe{i}"));
            std::fs::create_dir_all(&dir).expect("probe dir");
            match record_case(&ctx, &dir, c, false) {
                Ok(r) => {
                    out.facts.insert(format!("n1|{}|{}", spec["keys"][i].as_str().unwrap_or(""), r.n));
                },
                Err(e) => {
                    out.count("machinery:uncrashed_run_failed", 1);
                    out.notes.push(format!("MACHINERY {}: {e}", c.label()));
                },
            }
            rm_tree(&dir);
        }
        drop(ctx);
        out.write_out(args.out.as_ref().expect("--out"));
        return;
    }
    for c in &cases {
        check_case(&ctx, scratch.path(), c, &mut out);
    }
    let unstable = vcore::vfs::SNAP_UNSTABLE.load(std::sync::atomic::Ordering::Relaxed);
    out.count("info:snapshot_copies_repeated_because_another_thread_changed_the_tree", vcore::vfs::SNAP_RETRIES.load(std::sync::atomic::Ordering::Relaxed));
    if unstable > 0 {
        out.count("machinery:unstable_snapshots", unstable);
    }
    drop(ctx);
    out.write_out(args.out.as_ref().expect("--out"));
}

// ------------------------------------------------------------------ main

fn job_for(domain: Domain, param: u8, body: Value) -> Job {
    let env = if domain == Domain::Session { session_cfg(param).env() } else { vec![] };
    Job {
        name: format!("{}/{}", domain.name(), param),
        env,
        args: vec!["--worker".into(), body.to_string()],
    }
}

fn main() {
    let args = Args::parse();
    if let Some(w) = &args.worker {
        worker(&args, w);
        return;
    }
    if args.prop != "C19" {
        machinery_error("lab_crash serves C19");
    }
    let bad = args.rest.iter().any(|a| a == "--selftest-bad-writer");
    let selfcheck_only = args.rest.iter().any(|a| a == "--selfcheck");
    if bad {
        // a demonstration, not a check of /repo: its evidence and replays go to a directory of their own
        let sub = vcore::report::verif_root().join("selftest-bad-writer");
        std::env::set_var("VERIF_ROOT", &sub);
        println!("SELFTEST: harness-side defective writers; VIOLATION lines are expected; evidence under {}", sub.display());
    }
    let mut run = Run::new(&args, "C19", "fault_enumeration");
    let scratch = Scratch::new("crashp");
    if selfcheck_only {
        let (ok, lines) = crash_selfcheck::run_all(scratch.path());
        drop(scratch);
        for l in &lines {
            println!("{l}");
        }
        if !ok {
            machinery_error("strace self-check: the interposer missed a mutating system call under the watched root (see lines above)");
        }
        println!("SELFCHECK-OK: the interposer's log equals the strace log for every operation kind");
        return;
    }
    let mut jobs = vec![];
    if let Some(rp) = &args.replay {
        let v: Value = serde_json::from_slice(&std::fs::read(rp).unwrap_or_else(|e| machinery_error(&format!("read replay: {e}"))))
            .unwrap_or_else(|e| machinery_error(&format!("parse replay: {e}")));
        let case = CaseSpec::from_json(&v["replay"]).unwrap_or_else(|| machinery_error("replay file holds no C19 case"));
        jobs.push(job_for(case.domain, case.param, json!({"cases": [case.to_json()]})));
    } else {
        let groups = if bad { bad_writer_plan() } else { plan(args.tier) };
        // LocalClient never closes its LMDB environment (heed keeps every opened environment
        // alive) and LMDB takes one pthread key per environment (1024 per process): processes
        // that restart stores or sessions must stay short
        let per_job = |d: Domain| match d {
            Domain::Session => 3,
            Domain::Store => 6,
            Domain::Shard | Domain::Cache => args.tier.pick(8, 32),
        };
        // phase 1: the number of effects of every operation that a history interrupts
        let mut probes: std::collections::BTreeMap<String, CaseSpec> = std::collections::BTreeMap::new();
        for (_, cases) in &groups {
            for c in cases {
                if let Some(j) = c.history.iter().position(|h| matches!(h, Step::CrashedAll(_))) {
                    probes.entry(probe_key(c, j)).or_insert_with(|| CaseSpec {
                        domain: c.domain,
                        param: c.param,
                        history: c.history[..j].to_vec(),
                        op: c.history[j].op().clone(),
                        only_k: None,
                        expect_effect: None,
                    });
                }
            }
        }
        let mut effects_of: std::collections::BTreeMap<String, u64> = std::collections::BTreeMap::new();
        if !probes.is_empty() {
            let mut pjobs = vec![];
            for ((domain, param), _) in &groups {
                let mine: Vec<(&String, &CaseSpec)> = probes.iter().filter(|(_, c)| c.domain == *domain && c.param == *param).collect();
                for chunk in mine.chunks(if matches!(domain, Domain::Session | Domain::Store) { 40 } else { 200 }) {
                    pjobs.push(job_for(
                        *domain,
                        *param,
                        json!({"probe": true, "keys": chunk.iter().map(|x| x.0.clone()).collect::<Vec<_>>(), "cases": chunk.iter().map(|x| x.1.to_json()).collect::<Vec<_>>()}),
                    ));
                }
            }
            for r in fanout(pjobs, 16, &scratch.sub("probes"), 600) {
                match r.partial {
                    Some(p) => {
                        for f in &p.facts {
                            let x: Vec<&str> = f.split('|').collect();
                            if x.len() == 3 && x[0] == "n1" {
                                effects_of.insert(x[1].to_string(), x[2].parse().unwrap_or(0));
                            }
                        }
                        for n in p.notes.iter().filter(|n| n.starts_with("MACHINERY")).take(3) {
                            run.machinery(n.clone());
                        }
                    },
                    None => run.machinery(format!("probe worker {} died: {}", r.job.name, r.died.unwrap_or_default())),
                }
            }
        }
        // phase 2: concrete cases
        for ((domain, param), cases) in &groups {
            let mut concrete: Vec<CaseSpec> = vec![];
            for c in cases {
                match c.history.iter().position(|h| matches!(h, Step::CrashedAll(_))) {
                    None => concrete.push(c.clone()),
                    Some(j) => {
                        let Some(n1) = effects_of.get(&probe_key(c, j)) else {
                            run.machinery(format!("no probe result for {}", probe_key(c, j)));
                            continue;
                        };
                        for k1 in 1..*n1 {
                            let mut x = c.clone();
                            x.history[j] = Step::Crashed(c.history[j].op().clone(), k1);
                            concrete.push(x);
                        }
                    },
                }
            }
            for chunk in concrete.chunks(per_job(*domain)) {
                jobs.push(job_for(*domain, *param, json!({"cases": chunk.iter().map(|c| c.to_json()).collect::<Vec<_>>()})));
            }
        }
    }
    let njobs = jobs.len();
    let results = fanout(jobs, 16, scratch.path(), 1500);
    let mut all = Partial::default();
    let mut samples: std::collections::BTreeMap<String, Value> = std::collections::BTreeMap::new();
    for r in results {
        match r.partial {
            Some(p) => {
                for x in &p.samples {
                    let k = x["kind"].as_str().unwrap_or("?").to_string();
                    samples.entry(k).or_insert_with(|| x.clone());
                }
                all.merge(p)
            },
            None => run.machinery(format!("worker {} died: {} :: {}", r.job.name, r.died.unwrap_or_default(), r.stderr_tail.lines().last().unwrap_or(""))),
        }
    }
    if !samples.is_empty() {
        run.set("samples", json!(samples.values().cloned().collect::<Vec<_>>()));
    }
    let mach: Vec<String> = all.notes.iter().filter(|n| n.starts_with("MACHINERY")).take(5).cloned().collect();
    for m in mach {
        run.machinery(m);
    }
    if all.get("machinery:restart_could_not_run") > 0 {
        run.machinery(format!("{} restarts could not run (LMDB environments exhausted)", all.get("machinery:restart_could_not_run")));
    }
    if all.get("machinery:unstable_snapshots") > 0 || all.get("machinery:copy_failed") > 0 {
        run.machinery(format!(
            "{} snapshots never became stable, {} copies failed",
            all.get("machinery:unstable_snapshots"),
            all.get("machinery:copy_failed")
        ));
    }
    // the strace cross-check is cheap: part of the thorough tier
    if args.tier == Tier::Thorough && args.replay.is_none() && !bad {
        let (ok, lines) = crash_selfcheck::run_all(&scratch.sub("selfcheck"));
        run.set("strace_selfcheck", json!(lines));
        all.count("strace_selfcheck_operation_kinds", lines.len() as u64);
        if !ok {
            for l in lines.iter().filter(|l| l.contains("MISSED") || l.contains("FAILED")) {
                run.machinery(l.clone());
            }
        }
    }
    // vacuity counters must exist to be reported as zero
    if args.replay.is_none() && !bad {
        for k in [
            "vac:states_with_a_temp_file",
            "vac:states_with_a_zero_length_temp_file",
            "vac:states_with_a_non_empty_temp_file",
            "vac:states_with_a_partially_populated_directory",
            "vac:consolidations_that_merge",
            "vac:consolidations_that_do_not_merge",
            "vac:consolidations_whose_output_equals_an_input",
            "vac:consolidate_states_with_merged_output_and_all_inputs",
            "vac:consolidate_states_with_merged_output_and_some_inputs_removed",
            "vac:flushes_that_rewrite_an_existing_shard_name",
            "vac:states_with_a_renamed_but_not_yet_read_only_xorb",
            "vac:cache_states_with_new_item_and_subsumed_items",
            "vac:cache_states_with_an_old_item_removed_before_completion",
            "vac:session_states_with_shard_in_store_but_not_yet_in_cache",
            "vac:session_states_with_shard_in_cache_and_still_in_session_directory",
            "vac:session_states_with_session_shards_left_behind",
            "vac:crash_states_after_an_interrupted_history_step",
            "vac:crash_states_of_operations_started_with_a_leftover_temp_file",
        ] {
            all.count(k, 0);
        }
    }
    if let Ok(p) = std::env::var("VERIF_DUMP_DISTINCT") {
        let _ = std::fs::write(p, all.distinct.iter().cloned().collect::<Vec<_>>().join("\n"));
    }
    // effects per operation kind
    let mut per_op = serde_json::Map::new();
    let kinds: Vec<String> = all.counters.keys().filter_map(|k| k.strip_prefix("runs[").and_then(|r| r.strip_suffix(']')).map(|s| s.to_string())).collect();
    for kind in kinds {
        let runs = all.get(&format!("runs[{kind}]"));
        let total = all.get(&format!("effects_total[{kind}]"));
        let max = all.get(&format!("max:effects_max[{kind}]"));
        let min = 100_000 - all.get(&format!("max:effects_min_complement[{kind}]"));
        all.counters.remove(&format!("max:effects_min_complement[{kind}]"));
        per_op.insert(kind.clone(), json!({"runs": runs, "effects_min": min, "effects_max": max, "effects_mean": if runs > 0 { total / runs } else { 0 }}));
    }
    run.set("effects_per_operation", Value::Object(per_op));
    run.set("worker_processes", json!(njobs));
    run.set("history_depth", json!({"shard": args.tier.pick(1, 3), "store": args.tier.pick(1, 3), "cache": args.tier.pick(1, 3), "session": args.tier.pick(1, 2)}));
    let evaluations = all.get("crash_states");
    run.assume("process-crash model (kill -9 between two system calls): every completed system call persists, bytes still buffered in user space are lost, destructors do not run; torn writes inside one write() and fsync / write-back ordering (power loss) are out of scope");
    run.assume("the interposer sees every mutating libc call under the watched root (cross-checked against strace by --selfcheck, which the thorough tier runs); stores through a shared writable mmap (only LMDB's lock file) are not system calls and are not crash points");
    run.assume("the LMDB environment of LocalClient (global_dedup_lookup.db) is outside the property: it is copied with each crash state but excluded from the oracle; an LMDB-attributable failure of a restart is counted (info:lmdb_retries) and the restart repeated without that directory");
    run.assume("an upload session runs on a one-worker runtime with the store client built beforehand, so its tasks (xorb uploads, shard uploads) touch the file system one after the other in spawn order and every run sees the same sequence of effects; interleavings of the effects of two concurrently running tasks of one session are not enumerated (they act on different files)");
    run.assume("a history step 'crash@k:op' is the tree as it was before effect k of op, moved to a path the process has never used (restart), with the rest of the history and the operation under test executed on it; shard mtimes in shard directories are set explicitly after every step (consolidation orders by mtime)");
    run.assume("temp-file names are random (uuid / thread_rng) in the code under test; crash states are compared modulo those names");
    run.assume("inputs are fixed menus: 4 in-memory shards (one > 16 KiB, one a sub-shard of another), 3 consolidation thresholds, 3 xorbs (one > 8 KiB), 5 cache ranges over 2 keys at 2 capacities with the first/last eviction draw, 3 upload sessions under 2 shard-size configurations");
    run.all = all;
    drop(scratch); // finish() exits the process: destructors would not run
    run.finish(
        evaluations,
        "every operation of each domain's alphabet (shard directory: 4 flushes, write_to_directory, 3 consolidation thresholds; store: 3 puts; chunk cache: 5 puts x 2 eviction draws at 2 capacities; cas directory: 3 upload sessions x 2 configurations) after every history over the same alphabet of length <= depth (quick 1; thorough 3 for the shard directory, the store and the chunk cache, 2 for upload sessions; plus 7 fixed deeper shard histories giving 2..4 consolidation inputs and 2 fixed cache histories; plus histories whose last step was itself interrupted at every one of its crash points, [crash@k:b] and (thorough) [a, crash@k:b] — quick: shard directory and store only, thorough: all domains, sessions without the completed prefix); each run yields one crash state per mutating system call under the watched root plus the completed state, and every crash state is restarted and checked; a crash state is distinct non-trivial when its normalized tree listing (names with random parts replaced, lengths) is new and it holds a temp file or a directory that is empty now and populated after the operation",
        args.replay.is_none() && !bad,
    );
}

//! Chunker lab: decides C04 by bounded exhaustive enumeration of (target, stream, call partition,
//! API mix) against the reference gear rule in `labs::refmodel`.
//!
//! For every stream of the catalogue and every target: the one-shot run of the real chunker is
//! compared with the reference (boundaries, hashes, bounds, concatenation); every enumerated call
//! partition under every API mix is compared with the one-shot run; every produced boundary is
//! re-chunked as a fresh suffix, alone and behind other chunk-aligned prefixes; streams embedded
//! in a host stream must re-chunk identically from the first common boundary on.

#[path = "../chunker_mutants.rs"]
mod chunker_mutants;

use std::collections::BTreeSet;
use std::sync::atomic::{AtomicUsize, Ordering};
use std::sync::Mutex;

use chunker_mutants::{Mutant, Subject, MUTANTS};
use deduplication::Chunk;
use labs::refmodel::{self, chunk_params, ChunkParams, CutKind};
use vcore::report::{machinery_error, Args, Partial, Run, Tier};
use vcore::util::Lcg;
use vcore::{json, Value};

// ------------------------------------------------------------------ streams

#[derive(Clone, Debug, PartialEq)]
enum Spec {
    Const(u8),
    /// `word` (indices into `alpha`) repeated
    Periodic { alpha: Vec<u8>, word: Vec<u8> },
    /// b_i = ((i >> shift) * mul) mod 256
    Ramp { mul: u8, shift: u8 },
    /// fixed LCG stream; `alpha` = 0: all byte values, else only the first `alpha` values of a seed-derived alphabet
    Lcg { seed: u64, alpha: u16 },
    /// chunks of designed lengths: filler bytes then a searched suffix that matches the mask on its last byte
    Design { filler_rank: u8, plan: u8 },
    /// `inner` inserted into an LCG host stream at offset number `which`
    Embed { inner: Box<Spec>, host: u64, which: u8 },
}

impl Spec {
    fn to_json(&self) -> Value {
        match self {
            Spec::Const(b) => json!({"k": "const", "b": b}),
            Spec::Periodic { alpha, word } => json!({"k": "periodic", "alpha": alpha, "word": word}),
            Spec::Ramp { mul, shift } => json!({"k": "ramp", "mul": mul, "shift": shift}),
            Spec::Lcg { seed, alpha } => json!({"k": "lcg", "seed": seed, "alpha": alpha}),
            Spec::Design { filler_rank, plan } => json!({"k": "design", "filler_rank": filler_rank, "plan": plan}),
            Spec::Embed { inner, host, which } => json!({"k": "embed", "inner": inner.to_json(), "host": host, "which": which}),
        }
    }
    fn from_json(v: &Value) -> Spec {
        let u8s = |x: &Value| -> Vec<u8> { x.as_array().map(|a| a.iter().map(|y| y.as_u64().unwrap_or(0) as u8).collect()).unwrap_or_default() };
        match v["k"].as_str() {
            Some("const") => Spec::Const(v["b"].as_u64().unwrap_or(0) as u8),
            Some("periodic") => Spec::Periodic { alpha: u8s(&v["alpha"]), word: u8s(&v["word"]) },
            Some("ramp") => Spec::Ramp { mul: v["mul"].as_u64().unwrap_or(1) as u8, shift: v["shift"].as_u64().unwrap_or(0) as u8 },
            Some("lcg") => Spec::Lcg { seed: v["seed"].as_u64().unwrap_or(0), alpha: v["alpha"].as_u64().unwrap_or(0) as u16 },
            Some("design") => Spec::Design { filler_rank: v["filler_rank"].as_u64().unwrap_or(0) as u8, plan: v["plan"].as_u64().unwrap_or(0) as u8 },
            Some("embed") => Spec::Embed { inner: Box::new(Spec::from_json(&v["inner"])), host: v["host"].as_u64().unwrap_or(0), which: v["which"].as_u64().unwrap_or(0) as u8 },
            k => machinery_error(&format!("bad stream spec kind {k:?}")),
        }
    }
    fn family(&self) -> &'static str {
        match self {
            Spec::Const(_) => "const",
            Spec::Periodic { alpha, .. } if alpha.len() == 2 => "periodic2",
            Spec::Periodic { .. } => "periodic3",
            Spec::Ramp { .. } => "ramp",
            Spec::Lcg { alpha: 0, .. } => "lcg",
            Spec::Lcg { .. } => "lcg-low-entropy",
            Spec::Design { .. } => "designed",
            Spec::Embed { .. } => "embedded",
        }
    }
}

fn skip_of(p: &ChunkParams) -> usize {
    if p.min > 64 {
        p.min - 64 - 1
    } else {
        0
    }
}

fn roll(h: u64, b: u8) -> u64 {
    (h << 1).wrapping_add(gearhash::DEFAULT_TABLE[b as usize])
}

/// true when a chunk made only of `c` never meets the mask (so every cut is a forced cut)
fn const_never_matches(c: u8, mask: u64) -> bool {
    let mut h = 0u64;
    for _ in 0..130 {
        h = roll(h, c);
        if h & mask == 0 {
            return false;
        }
    }
    true
}

/// the `rank`-th byte value whose constant stream never matches
fn filler(p: &ChunkParams, rank: u8) -> u8 {
    let v: Vec<u8> = (0..=255u8).filter(|c| const_never_matches(*c, p.mask)).collect();
    if v.is_empty() {
        machinery_error("no never-matching constant for this mask");
    }
    v[(rank as usize * 37) % v.len()]
}

/// first pair (a<b) whose alternation never matches from either phase
fn pair_never_matches(p: &ChunkParams) -> (u8, u8) {
    for a in 0..=255u8 {
        for b in a.wrapping_add(1)..=255u8 {
            if b <= a {
                break;
            }
            let ok = [[a, b], [b, a]].iter().all(|w| {
                let mut h = 0u64;
                (0..132).all(|i| {
                    h = roll(h, w[i % 2]);
                    h & p.mask != 0
                })
            });
            if ok {
                return (a, b);
            }
        }
    }
    (0, 255)
}

/// shortest, lexicographically first suffix (<= 3 bytes) that, rolled from `h`, meets the mask
/// on its last byte and not earlier
fn find_suffix(h: u64, mask: u64) -> Vec<u8> {
    fn rec(h: u64, mask: u64, k: usize, acc: &mut Vec<u8>) -> bool {
        for b in 0..=255u8 {
            let h2 = roll(h, b);
            let m = h2 & mask == 0;
            if k == 1 {
                if m {
                    acc.push(b);
                    return true;
                }
            } else if !m {
                acc.push(b);
                if rec(h2, mask, k - 1, acc) {
                    return true;
                }
                acc.pop();
            }
        }
        false
    }
    for k in 1..=4 {
        let mut acc = vec![];
        if rec(h, mask, k, &mut acc) {
            return acc;
        }
    }
    machinery_error("no matching suffix of <= 4 bytes found")
}

/// one designed chunk of total length `l` (>= skip + suffix length): filler then suffix
fn designed_chunk(p: &ChunkParams, c: u8, l: usize, out: &mut Vec<u8>) {
    let skip = skip_of(p);
    // try suffix lengths until the filler part is consistent with the state the suffix was searched from
    for k in 1..=4usize {
        if l < skip + k {
            break;
        }
        let hashed_filler = l - k - skip;
        let mut h = 0u64;
        for _ in 0..hashed_filler.min(130) {
            h = roll(h, c);
        }
        let sfx = find_suffix(h, p.mask);
        if sfx.len() == k {
            out.extend(std::iter::repeat(c).take(l - k));
            out.extend_from_slice(&sfx);
            return;
        }
        if sfx.len() < k {
            break;
        }
    }
    // not realisable at this length: plain filler (still a legal stream)
    out.extend(std::iter::repeat(c).take(l));
}

fn base_len(p: &ChunkParams) -> usize {
    5 * p.max + 37
}

fn build(spec: &Spec, target: usize) -> Vec<u8> {
    let p = chunk_params(target);
    let len = base_len(&p);
    match spec {
        Spec::Const(b) => vec![*b; len],
        Spec::Periodic { alpha, word } => (0..len).map(|i| alpha[word[i % word.len()] as usize % alpha.len()]).collect(),
        Spec::Ramp { mul, shift } => (0..len).map(|i| ((i >> shift) as u8).wrapping_mul(*mul)).collect(),
        Spec::Lcg { seed, alpha } => {
            let mut g = Lcg::new(*seed);
            if *alpha == 0 {
                g.bytes(len)
            } else {
                let mut a = Lcg::new(seed ^ 0xA1FA);
                let vals: Vec<u8> = (0..*alpha).map(|_| a.byte()).collect();
                (0..len).map(|_| vals[g.below(vals.len() as u64) as usize]).collect()
            }
        },
        Spec::Design { filler_rank, plan } => {
            let c = filler(&p, *filler_rank);
            let skip = skip_of(&p);
            let mut out = Vec::with_capacity(len + 4 * p.max);
            // the earliest possible cut: suffix searched from the empty hash
            let kmin = find_suffix(0, p.mask).len();
            let lmin = skip + kmin;
            match plan {
                0 => {
                    let mut ls = vec![lmin, lmin, lmin + 1, lmin + 2];
                    for d in [0usize, 1, 2, 62, 63, 64, 65, 66] {
                        ls.push(skip + 1 + d);
                    }
                    if p.min > 2 {
                        ls.extend([p.min - 1, p.min, p.min + 1]);
                    }
                    ls.extend([target - 1, target, target + 1, p.max - 1, p.max, lmin, p.max, p.max - 2, p.max + 1]);
                    for l in ls {
                        if l >= lmin {
                            designed_chunk(&p, c, l, &mut out);
                        }
                    }
                    while out.len() < len {
                        out.push(c);
                    }
                },
                _ => {
                    // many earliest cuts in a row, then forced cuts
                    let n = (2 * p.max / lmin.max(1)).clamp(8, 96);
                    for _ in 0..n {
                        designed_chunk(&p, c, lmin, &mut out);
                    }
                    while out.len() < len {
                        out.push(c);
                    }
                },
            }
            out
        },
        Spec::Embed { inner, host, which } => {
            let x = build(inner, target);
            let h = Lcg::new(*host).bytes(p.max + p.max / 2);
            let off = embed_offset(&h, target, *which);
            let mut out = Vec::with_capacity(x.len() + h.len());
            out.extend_from_slice(&h[..off]);
            out.extend_from_slice(&x);
            out.extend_from_slice(&h[off..]);
            out
        },
    }
}

fn embed_offset(host: &[u8], target: usize, which: u8) -> usize {
    let hb = refmodel::chunk_ends(host, target)[0];
    (match which {
        0 => hb,
        1 => hb + 1,
        _ => hb + 67,
    })
    .min(host.len())
}

fn primitive_words(alpha: usize, max_period: usize) -> Vec<Vec<u8>> {
    let mut out = vec![];
    for p in 1..=max_period {
        let n = alpha.pow(p as u32);
        'w: for x in 0..n {
            let mut w = vec![0u8; p];
            let mut y = x;
            for i in (0..p).rev() {
                w[i] = (y % alpha) as u8;
                y /= alpha;
            }
            for d in 1..p {
                if p % d == 0 && (0..p).all(|i| w[i] == w[i % d]) {
                    continue 'w;
                }
            }
            out.push(w);
        }
    }
    out
}

fn catalog(target: usize, tier: Tier) -> Vec<Spec> {
    let p = chunk_params(target);
    let (pa, pb) = pair_never_matches(&p);
    let mut base: Vec<Spec> = vec![];
    match tier {
        Tier::Thorough => {
            for b in 0..=255u8 {
                base.push(Spec::Const(b));
            }
            for w in primitive_words(2, 6) {
                if w.len() == 1 {
                    continue; // constants are covered above
                }
                base.push(Spec::Periodic { alpha: vec![0x00, 0xFF], word: w.clone() });
                base.push(Spec::Periodic { alpha: vec![pa, pb], word: w });
            }
            for w in primitive_words(3, 4) {
                if w.len() == 1 {
                    continue;
                }
                base.push(Spec::Periodic { alpha: vec![0x00, 0x01, 0xFF], word: w });
            }
            for (mul, shift) in [(1u8, 0u8), (3, 0), (255, 0), (17, 0), (1, 4), (1, 8), (85, 6), (1, 12)] {
                base.push(Spec::Ramp { mul, shift });
            }
            for rank in 0..3 {
                for plan in 0..2 {
                    base.push(Spec::Design { filler_rank: rank, plan });
                }
            }
            for s in 0..64 {
                base.push(Spec::Lcg { seed: 100 + s, alpha: 0 });
            }
            for (s, a) in [(1u64, 2u16), (2, 2), (3, 3), (4, 4), (5, 4), (6, 8), (7, 16), (8, 2)] {
                base.push(Spec::Lcg { seed: 900 + s, alpha: a });
            }
        },
        Tier::Quick => {
            let never = filler(&p, 0);
            let early = (0..=255u8).find(|c| !const_never_matches(*c, p.mask));
            for b in [Some(0x00), Some(0xFF), Some(never), early].into_iter().flatten() {
                if !base.contains(&Spec::Const(b)) {
                    base.push(Spec::Const(b));
                }
            }
            for w in [vec![0u8, 1], vec![0, 0, 1], vec![0, 1, 1, 0, 1, 0]] {
                base.push(Spec::Periodic { alpha: vec![0x00, 0xFF], word: w });
            }
            base.push(Spec::Periodic { alpha: vec![pa, pb], word: vec![0, 1] });
            base.push(Spec::Periodic { alpha: vec![pa, pb], word: vec![0, 0, 0, 1, 1] });
            base.push(Spec::Periodic { alpha: vec![0x00, 0x01, 0xFF], word: vec![0, 1, 2] });
            base.push(Spec::Periodic { alpha: vec![0x00, 0x01, 0xFF], word: vec![2, 0, 1, 1] });
            base.push(Spec::Ramp { mul: 1, shift: 0 });
            base.push(Spec::Ramp { mul: 1, shift: 8 });
            for rank in 0..2 {
                for plan in 0..2 {
                    base.push(Spec::Design { filler_rank: rank, plan });
                }
            }
            for s in 0..10 {
                base.push(Spec::Lcg { seed: 100 + s, alpha: 0 });
            }
            for (s, a) in [(1u64, 2u16), (3, 3), (6, 8)] {
                base.push(Spec::Lcg { seed: 900 + s, alpha: a });
            }
        },
    }
    let mut all = base.clone();
    for (i, s) in base.iter().enumerate() {
        let take = match tier {
            Tier::Thorough => true,
            // quick: one stream of each family
            Tier::Quick => base.iter().position(|t| t.family() == s.family()) == Some(i),
        };
        if take {
            for which in 0..3u8 {
                all.push(Spec::Embed { inner: Box::new(s.clone()), host: 7000 + (i as u64 % 4), which });
            }
        }
    }
    all
}

// ------------------------------------------------------------------ call partitions and API mixes

#[derive(Clone, Debug)]
enum Part {
    /// calls of `k` bytes (the last one shorter)
    Step(usize),
    /// call boundaries at these positions (sorted, within 0..=len); 0, len and repeated positions give empty calls
    Cuts(Vec<usize>),
}

impl Part {
    fn to_json(&self) -> Value {
        match self {
            Part::Step(k) => json!({"step": k}),
            Part::Cuts(c) => json!({"cuts": c}),
        }
    }
    fn from_json(v: &Value) -> Part {
        if let Some(k) = v["step"].as_u64() {
            Part::Step(k as usize)
        } else {
            Part::Cuts(v["cuts"].as_array().map(|a| a.iter().map(|x| x.as_u64().unwrap_or(0) as usize).collect()).unwrap_or_default())
        }
    }
}

/// mode bits 0-1: API pattern (0 all next_block, 1 all next, 2 alternate starting with next_block,
/// 3 alternate starting with next); bit 2: the last call carries is_final=true.  `finish()` is
/// always called afterwards; its chunk (if any) belongs to the output unless the last call carried
/// is_final=true, in which case a non-empty finish() is a violation (the final call must flush).
const N_MODES: u8 = 8;

#[derive(Default, Clone)]
struct Stats {
    runs: u64,
    calls: u64,
    empty_calls: u64,
    one_byte_calls: u64,
    next_calls: u64,
    next_block_calls: u64,
    next_partial_consumption: u64,
    finish_returned_tail: u64,
    final_flag_flushed_tail: u64,
    final_flag_left_tail_to_finish: u64,
    final_flag_left_tail_other: u64,
}

enum Outcome {
    Chunks(Vec<Chunk>),
    Panic(String),
    NoProgress(usize),
    /// the last call carried is_final=true ("no more data after this block will come, and any data currently
    /// present and at the end will be put into a final chunk"), yet finish() still returned a tail of this length;
    /// the chunks are those returned up to and including the final call
    FinalLeftTail(usize, Vec<Chunk>),
}

fn drive<C: Subject>(target: usize, data: &[u8], part: &Part, mode: u8, st: &mut Stats) -> Outcome {
    let mut local = st.clone();
    let r = std::panic::catch_unwind(std::panic::AssertUnwindSafe(|| drive_inner::<C>(target, data, part, mode, &mut local)));
    match r {
        Ok(o) => {
            *st = local;
            o
        },
        Err(e) => Outcome::Panic(format!("{} at {}", vcore::util::panic_text(&e), vcore::util::last_panic_loc())),
    }
}

fn drive_inner<C: Subject>(target: usize, data: &[u8], part: &Part, mode: u8, st: &mut Stats) -> Outcome {
    let api = mode & 3;
    let final_flag = mode & 4 != 0;
    let mut ck = C::make(target);
    let mut out: Vec<Chunk> = Vec::new();
    let len = data.len();
    st.runs += 1;
    let mut idx = 0usize;
    let mut stuck: Option<usize> = None;
    let mut last_flushed = false;
    let mut final_call_was_empty_next_block = false;
    let mut call = |a: usize, b: usize, last: bool, out: &mut Vec<Chunk>, st: &mut Stats| {
        let d = &data[a..b];
        let fin = last && final_flag;
        let use_next = match api {
            0 => false,
            1 => true,
            2 => idx % 2 == 1,
            _ => idx % 2 == 0,
        };
        idx += 1;
        st.calls += 1;
        if d.is_empty() {
            st.empty_calls += 1;
        } else if d.len() == 1 {
            st.one_byte_calls += 1;
        }
        let before = out.len();
        if use_next {
            let mut pos = 0usize;
            loop {
                st.next_calls += 1;
                let (c, n) = ck.next(&d[pos..], fin);
                let got = c.is_some();
                if let Some(c) = c {
                    out.push(c);
                }
                pos += n;
                if pos >= d.len() {
                    break;
                }
                st.next_partial_consumption += 1;
                if !got && n == 0 {
                    stuck = Some(a + pos);
                    break;
                }
            }
        } else {
            st.next_block_calls += 1;
            out.extend(ck.next_block(d, fin));
        }
        if fin {
            last_flushed = out.len() > before;
            final_call_was_empty_next_block = d.is_empty() && !use_next;
        }
    };
    match part {
        Part::Step(k) => {
            let k = (*k).max(1);
            let mut a = 0usize;
            if len == 0 {
                call(0, 0, true, &mut out, st);
            }
            while a < len {
                let b = (a + k).min(len);
                call(a, b, b == len, &mut out, st);
                a = b;
            }
        },
        Part::Cuts(cs) => {
            let mut a = 0usize;
            for c in cs {
                let c = (*c).min(len).max(a);
                call(a, c, false, &mut out, st);
                a = c;
            }
            call(a, len, true, &mut out, st);
        },
    }
    if let Some(at) = stuck {
        return Outcome::NoProgress(at);
    }
    let tail = ck.finish();
    if let Some(c) = tail {
        st.finish_returned_tail += 1;
        if final_flag && final_call_was_empty_next_block {
            st.final_flag_left_tail_to_finish += 1;
        } else if final_flag {
            st.final_flag_left_tail_other += 1;
        }
        if final_flag {
            return Outcome::FinalLeftTail(c.data.len(), out);
        }
        out.push(c);
    } else if final_flag && last_flushed {
        st.final_flag_flushed_tail += 1;
    }
    Outcome::Chunks(out)
}

// ------------------------------------------------------------------ oracles

fn viol(out: &mut Partial, sig: &str, f: impl FnOnce() -> (String, Value)) {
    if out.get(&format!("violations_seen[{sig}]")) < 3 {
        let (what, replay) = f();
        out.violation(sig, what, replay);
    } else {
        out.count(&format!("violations_seen[{sig}]"), 1);
    }
}

fn ends_of(chunks: &[Chunk]) -> Vec<usize> {
    let mut e = 0;
    chunks
        .iter()
        .map(|c| {
            e += c.data.len();
            e
        })
        .collect()
}

fn head<T: std::fmt::Debug>(v: &[T]) -> String {
    if v.len() <= 12 {
        format!("{v:?}")
    } else {
        format!("{:?}.. ({} items)", &v[..12], v.len())
    }
}

fn first_diff(a: &[Chunk], b: &[Chunk]) -> String {
    let (ea, eb) = (ends_of(a), ends_of(b));
    for i in 0..ea.len().max(eb.len()) {
        if ea.get(i) != eb.get(i) {
            return format!("chunk #{i}: end {:?} vs {:?} ({} vs {} chunks)", ea.get(i), eb.get(i), ea.len(), eb.len());
        }
        if a[i].hash != b[i].hash {
            return format!("chunk #{i}: same end {}, hash {} vs {}", ea[i], a[i].hash.hex(), b[i].hash.hex());
        }
    }
    "equal".into()
}

fn same_chunks(a: &[Chunk], b: &[Chunk]) -> bool {
    a.len() == b.len() && a.iter().zip(b).all(|(x, y)| x.data.len() == y.data.len() && x.hash == y.hash)
}

struct Ctx<'a> {
    target: usize,
    p: ChunkParams,
    spec: &'a Spec,
    data: &'a [u8],
}

impl Ctx<'_> {
    fn case(&self, check: &str, extra: Value) -> Value {
        let mut v = json!({"lab": "chunker", "target": self.target, "stream": self.spec.to_json(), "len": self.data.len(), "check": check});
        if let (Some(m), Some(e)) = (v.as_object_mut(), extra.as_object()) {
            for (k, x) in e {
                m.insert(k.clone(), x.clone());
            }
        }
        v
    }

    /// oracles (i) and (iv) on one output; `data` is the stream the chunker was fed
    fn check_output(&self, out: &mut Partial, chunks: &[Chunk], data: &[u8], case: &Value, label: &str) {
        let mut s = 0usize;
        let mut ok = true;
        for c in chunks {
            let e = s + c.data.len();
            if e > data.len() || c.data[..] != data[s..e] {
                ok = false;
                break;
            }
            s = e;
        }
        if !ok || s != data.len() {
            viol(out, "C04/concatenation-differs", || {
                (format!("{label}: chunks do not concatenate to the {} input bytes (diverges in the chunk starting at {s}); target {} stream {}", data.len(), self.target, self.spec.to_json()), case.clone())
            });
        }
        let skip_floor = self.p.min.saturating_sub(64);
        for (i, c) in chunks.iter().enumerate() {
            let l = c.data.len();
            if l > self.p.max {
                viol(out, "C04/chunk-exceeds-max", || (format!("{label}: chunk #{i} has {l} bytes > max {}; target {} stream {}", self.p.max, self.target, self.spec.to_json()), case.clone()));
            }
            if i + 1 != chunks.len() && l < skip_floor {
                viol(out, "C04/nonfinal-chunk-below-min", || {
                    (format!("{label}: non-final chunk #{i} has {l} bytes < min-64 = {skip_floor}; target {} stream {}", self.target, self.spec.to_json()), case.clone())
                });
            }
            if l == 0 {
                // not forbidden by the statement as such (the reference comparison decides): counted only
                out.count("info:empty_chunks_returned", 1);
            }
        }
    }

    /// run one partition under one mode and compare with the one-shot output
    fn check_partition<C: Subject>(&self, out: &mut Partial, st: &mut Stats, base: &[Chunk], part: &Part, mode: u8) {
        let case = || self.case("partition", json!({"part": part.to_json(), "mode": mode}));
        match drive::<C>(self.target, self.data, part, mode, st) {
            Outcome::Chunks(ch) => {
                if !same_chunks(&ch, base) {
                    viol(out, "C04/partition-changes-chunks", || {
                        (
                            format!(
                                "target {} stream {} ({} bytes): calls {} mode {mode} give {} but one call gives {}: {}",
                                self.target,
                                self.spec.to_json(),
                                self.data.len(),
                                part.to_json(),
                                head(&ends_of(&ch)),
                                head(&ends_of(base)),
                                first_diff(&ch, base)
                            ),
                            case(),
                        )
                    });
                }
                self.check_output(out, &ch, self.data, &case(), "partitioned run");
            },
            Outcome::Panic(t) => viol(out, "C04/panic", || (format!("target {} stream {} calls {} mode {mode}: panic {t}", self.target, self.spec.to_json(), part.to_json()), case())),
            Outcome::NoProgress(at) => {
                viol(out, "C04/next-makes-no-progress", || (format!("target {} stream {} calls {} mode {mode}: next() returned (None, 0) with input left at {at}", self.target, self.spec.to_json(), part.to_json()), case()))
            },
            Outcome::FinalLeftTail(tail, ch) => viol(out, "C04/final-call-leaves-tail", || {
                (
                    format!(
                        "target {} stream {} ({} bytes): calls {} mode {mode}: the last call carried is_final=true but the chunks returned so far hold {} bytes (ends {}); the remaining {tail} bytes only came out of finish()",
                        self.target,
                        self.spec.to_json(),
                        self.data.len(),
                        part.to_json(),
                        ch.iter().map(|c| c.data.len()).sum::<usize>(),
                        head(&ends_of(&ch))
                    ),
                    case(),
                )
            }),
        }
    }
}

fn one_shot<C: Subject>(target: usize, data: &[u8], st: &mut Stats) -> Outcome {
    drive::<C>(target, data, &Part::Cuts(vec![]), 0, st)
}

struct Knobs {
    /// every cut position is a 2-partition when the stream is at most this long
    full_two_limit: usize,
    /// all API mixes for every cut position when the stream is at most this long
    all_modes_limit: usize,
    window: usize,
    stride_positions: usize,
    three_cut_set: usize,
    locality_boundaries: usize,
    /// fixed steps {1,2,7,64,65,max-1,max,max+1} only
    reduced_steps: bool,
    /// windows are placed around the first n-2 and the last 2 chunk starts
    window_starts: usize,
    /// streams longer than 50000 bytes (targets >= 8192): fewer API mixes per partition, empty-call
    /// variants only near the first three and the last chunk
    thin: bool,
}

fn knobs(tier: Tier, len: usize, chunks: usize, embedded: bool) -> Knobs {
    let big = len > 50_000;
    let mut k = if embedded && tier == Tier::Thorough {
        // the three embeddings of every stream get a reduced battery in the thorough tier
        Knobs {
            full_two_limit: 3_000,
            all_modes_limit: 0,
            window: if big { 1 } else { 2 },
            stride_positions: if big { 16 } else { 128 },
            three_cut_set: if big { 6 } else { 12 },
            locality_boundaries: 64,
            reduced_steps: true,
            window_starts: if big { 4 } else { usize::MAX },
            thin: big,
        }
    } else {
        match tier {
            Tier::Quick => Knobs {
                full_two_limit: 12_000,
                all_modes_limit: 1_500,
                window: if big { 2 } else { 4 },
                stride_positions: if big { 48 } else { 256 },
                three_cut_set: if big { 12 } else { 40 },
                locality_boundaries: 160,
                reduced_steps: false,
                window_starts: usize::MAX,
                thin: false,
            },
            Tier::Thorough => Knobs {
                full_two_limit: 12_000,
                all_modes_limit: 3_000,
                window: if big { 2 } else { 4 },
                stride_positions: if big { 96 } else { 512 },
                three_cut_set: if big { 16 } else { 48 },
                locality_boundaries: 256,
                reduced_steps: false,
                window_starts: usize::MAX,
                thin: big,
            },
        }
    };
    if chunks > 64 {
        // many-chunk stream (chunks of a few bytes: the run cost is per chunk, not per byte, and
        // all its chunks are alike): windows around the first 10 and last 2 chunks only, the
        // stride / 3-partition / suffix sets shrink with the chunk count
        let f = chunks / 64;
        if len * chunks > 1_000_000 {
            k.full_two_limit = 0;
        }
        k.all_modes_limit = 0;
        k.stride_positions = (k.stride_positions / f).max(8);
        k.three_cut_set = ((k.three_cut_set as f64 / (f as f64).sqrt()) as usize).max(8);
        k.locality_boundaries = (k.locality_boundaries / f).max(24);
        k.reduced_steps = k.reduced_steps || chunks > 256;
        k.window_starts = 12;
    }
    k
}

/// the aligned prefixes used by the second half of the locality oracle: complete (non-final)
/// chunks of other streams
fn aligned_prefixes(target: usize) -> Vec<(String, Vec<u8>)> {
    let p = chunk_params(target);
    let mut v = vec![];
    for (name, spec, nchunks) in [
        ("lcg-1-chunk", Spec::Lcg { seed: 4242, alpha: 0 }, 1usize),
        ("lcg-3-chunks", Spec::Lcg { seed: 4243, alpha: 0 }, 3),
        ("forced-cut-chunk", Spec::Const(filler(&p, 0)), 1),
        ("earliest-cut-chunks", Spec::Design { filler_rank: 1, plan: 1 }, 2),
    ] {
        let d = build(&spec, target);
        let cuts = refmodel::chunk_cuts(&d, target);
        if cuts.len() > nchunks && cuts[..nchunks].iter().all(|c| c.1 != CutKind::EndOfStream) {
            v.push((name.to_string(), d[..cuts[nchunks - 1].0].to_vec()));
        }
    }
    v
}

/// Everything the lab checks about one (target, stream).  `only` restricts to one replayed case.
fn check_stream<C: Subject>(target: usize, spec: &Spec, tier: Tier, cov: &mut [u8], prefixes: &[(String, Vec<u8>)], only: Option<&Value>) -> Partial {
    let mut out = Partial::default();
    let mut st = Stats::default();
    let p = chunk_params(target);
    let data = build(spec, target);
    let len = data.len();
    let skip = skip_of(&p);
    let cx = Ctx { target, p: chunk_params(target), spec, data: &data };
    let want = |check: &str| only.map_or(true, |o| o["check"].as_str() == Some(check));
    out.count(&format!("streams[{}]", spec.family()), 1);
    out.count("streams", 1);

    // ---- one-shot run against the reference: oracles (i) (iii) (iv)
    let base_case = cx.case("base", json!({}));
    let base = match one_shot::<C>(target, &data, &mut st) {
        Outcome::Chunks(c) => c,
        Outcome::Panic(t) => {
            viol(&mut out, "C04/panic", || (format!("target {target} stream {}: one-call run panics: {t}", spec.to_json()), base_case.clone()));
            return out;
        },
        Outcome::NoProgress(_) | Outcome::FinalLeftTail(..) => unreachable!(),
    };
    cx.check_output(&mut out, &base, &data, &base_case, "one-call run");
    let cuts = refmodel::chunk_cuts(&data, target);
    let ref_ends = refmodel::chunk_ends(&data, target);
    if cuts.iter().map(|c| c.0).collect::<Vec<_>>() != ref_ends {
        machinery_error("refmodel::chunk_cuts and refmodel::chunk_ends disagree");
    }
    let ends = ends_of(&base);
    if ends != ref_ends {
        let i = (0..ends.len().max(ref_ends.len())).find(|i| ends.get(*i) != ref_ends.get(*i)).unwrap();
        viol(&mut out, "C04/boundary-differs-from-reference", || {
            (
                format!(
                    "target {target} (min {} max {}) stream {} ({len} bytes): chunk #{i} ends at {:?}, the reference gear rule says {:?}; real {} reference {}",
                    p.min,
                    p.max,
                    spec.to_json(),
                    ends.get(i),
                    ref_ends.get(i),
                    head(&ends),
                    head(&ref_ends)
                ),
                base_case.clone(),
            )
        });
    }
    {
        let mut s = 0;
        for (i, c) in base.iter().enumerate() {
            let e = (s + c.data.len()).min(len);
            let rh = refmodel::chunk_hash(&c.data);
            if c.hash.as_bytes() != rh {
                viol(&mut out, "C04/chunk-hash-differs-from-reference", || {
                    (format!("target {target} stream {}: chunk #{i} [{s},{e}) carries hash {} but the keyed hash of its bytes is {}", spec.to_json(), c.hash.hex(), refmodel::hex(&rh)), base_case.clone())
                });
            }
            s = e;
        }
    }
    // what the input drives (from the reference's point of view)
    out.count("chunks_in_one_call_runs", base.len() as u64);
    for (i, (e, k)) in cuts.iter().enumerate() {
        let s = if i == 0 { 0 } else { cuts[i - 1].0 };
        let l = e - s;
        match k {
            CutKind::Match => out.count("vac:cut_by_gear_match", 1),
            CutKind::MatchAtMax => out.count("vac:gear_match_exactly_at_max", 1),
            CutKind::Forced => out.count("vac:forced_cut_at_max", 1),
            CutKind::EndOfStream => {
                out.count("vac:final_chunk_closed_by_end_of_stream", 1);
                if l < p.min.saturating_sub(64) {
                    out.count("vac:final_chunk_shorter_than_min_less_window", 1);
                }
            },
        }
        if skip > 0 && l > skip {
            out.count("vac:skip_ahead_branch_executed", 1);
        }
        if *k == CutKind::Match && l == skip + 1 {
            out.count("vac:cut_on_first_hashed_byte", 1);
        }
        if *k == CutKind::Match && l < p.min && l >= p.min.saturating_sub(64) && p.min > 64 {
            out.count("vac:cut_inside_window_before_min", 1);
        }
    }
    if base.len() >= 2 {
        let fp = blake3::hash(&data);
        out.distinct(format!("t{target}:{}", &fp.to_hex()[..20]));
    } else {
        out.count("info:single_chunk_streams", 1);
    }
    let sampled = match spec {
        Spec::Design { filler_rank: 0, plan: 0 } | Spec::Lcg { seed: 100, alpha: 0 } => true,
        Spec::Embed { inner, which: 1, .. } => matches!(**inner, Spec::Lcg { seed: 100, alpha: 0 }),
        _ => only.is_some(),
    };
    if sampled {
        out.sample(json!({"target": target, "stream": spec.to_json(), "bytes": len, "chunks": base.len(), "first_chunk_ends": ends.iter().take(8).collect::<Vec<_>>(), "first_bytes": vcore::util::hex(&data[..24.min(len)])}));
    }

    let kn = knobs(tier, len, base.len(), matches!(spec, Spec::Embed { .. }));
    if base.len() > 64 {
        out.count("streams_with_more_than_64_chunks(reduced battery)", 1);
    }
    // starts of chunks
    let mut starts = vec![0usize];
    starts.extend(ends.iter().copied().filter(|e| *e < len));

    // coverage: chunk-relative offset of the call boundary of every 2-partition
    let mark = |cov: &mut [u8], pos: usize, st_: &[usize]| {
        let i = st_.partition_point(|s| *s <= pos);
        let rel = pos - st_[i.saturating_sub(1)];
        if rel < cov.len() {
            cov[rel] = 1;
        }
    };

    // ---- call partitions: oracle (ii)
    if want("partition") {
        if let Some(o) = only {
            cx.check_partition::<C>(&mut out, &mut st, &base, &Part::from_json(&o["part"]), o["mode"].as_u64().unwrap_or(0) as u8);
        } else {
            // fixed steps
            let mut steps: Vec<usize> = (1..=64).collect();
            steps.extend([65, p.max - 1, p.max, p.max + 1, p.min.max(2) - 1, p.min, p.min + 1]);
            if skip > 0 {
                steps.extend([skip, skip + 1]);
            }
            if kn.reduced_steps {
                steps = vec![1, 2, 7, 64, 65, p.max - 1, p.max, p.max + 1];
            }
            steps.sort();
            steps.dedup();
            let all_mode_steps = [1usize, 2, 3, 63, 64, 65, p.max - 1, p.max, p.max + 1, skip, skip + 1];
            for k in steps {
                if k == 0 {
                    continue;
                }
                let km = (k % 8) as u8;
                let modes: Vec<u8> = if all_mode_steps.contains(&k) && !kn.reduced_steps {
                    if kn.thin {
                        vec![km, 7 - km, km ^ 1, 7 - (km ^ 1)]
                    } else {
                        (0..N_MODES).collect()
                    }
                } else if kn.thin {
                    vec![if k % 2 == 0 { km } else { 7 - km }]
                } else {
                    vec![km, 7 - km]
                };
                for m in modes {
                    cx.check_partition::<C>(&mut out, &mut st, &base, &Part::Step(k), m);
                    out.count("partitions[fixed-step]", 1);
                }
            }
            // cut positions for 2-partitions
            let mut windowed: BTreeSet<usize> = BTreeSet::new();
            let mut first_chunks: BTreeSet<usize> = BTreeSet::new();
            for (ci, s) in starts.iter().enumerate() {
                if ci + 2 >= kn.window_starts && ci + 2 < starts.len() {
                    continue;
                }
                let mut sites = vec![*s, s + p.min, s + p.max];
                if skip > 0 {
                    sites.push(s + skip);
                }
                for x in sites {
                    for d in 0..=2 * kn.window {
                        let c = (x + d).saturating_sub(kn.window);
                        if c <= len {
                            windowed.insert(c);
                            if (ci < 3 || ci + 1 == starts.len()) && !(kn.reduced_steps && !kn.thin) {
                                first_chunks.insert(c);
                            }
                        }
                    }
                }
            }
            for c in [0, 1, len - 1, len] {
                windowed.insert(c);
                first_chunks.insert(c);
            }
            if let Spec::Embed { host, which, .. } = spec {
                // the two seams of an embedded stream
                let hl = p.max + p.max / 2;
                let off = embed_offset(&Lcg::new(*host).bytes(hl), target, *which);
                for x in [off, off + (len - hl)] {
                    for d in 0..=2 * kn.window {
                        let c = (x + d).saturating_sub(kn.window);
                        if c <= len {
                            windowed.insert(c);
                        }
                    }
                }
            }
            let mut two: BTreeSet<usize> = windowed.clone();
            if len <= kn.full_two_limit {
                two.extend(0..=len);
                out.count("streams_with_every_cut_position", 1);
            } else {
                for i in 1..kn.stride_positions {
                    two.insert(i * len / kn.stride_positions + (i * 7) % 13);
                }
                out.count("streams_with_windowed_cut_positions", 1);
            }
            for &c in &two {
                if c > len {
                    continue;
                }
                let cm = (c % 8) as u8;
                let near = first_chunks.contains(&c);
                let modes: Vec<u8> = if len <= kn.all_modes_limit || (near && !kn.thin) {
                    (0..N_MODES).collect()
                } else if near {
                    vec![cm, 7 - cm, cm ^ 1, 7 - (cm ^ 1)]
                } else if kn.thin && !windowed.contains(&c) {
                    vec![if c % 2 == 0 { cm } else { 7 - cm }]
                } else {
                    vec![cm, 7 - cm]
                };
                for m in modes {
                    cx.check_partition::<C>(&mut out, &mut st, &base, &Part::Cuts(vec![c]), m);
                    out.count("partitions[two-calls]", 1);
                }
                mark(cov, c, &starts);
                // call boundary position relative to the skip-ahead region of its chunk
                let i = starts.partition_point(|s| *s <= c);
                let rel = c - starts[i.saturating_sub(1)];
                if skip > 0 && rel > 0 && rel < skip {
                    out.count("vac:call_boundary_inside_skip_region", 1);
                }
                if skip > 0 && rel == skip {
                    out.count("vac:call_boundary_at_skip_edge", 1);
                }
                if rel > skip && rel < p.min {
                    out.count("vac:call_boundary_inside_first_hash_window", 1);
                }
                // empty calls in every slot
                let m = (c % 8) as u8;
                if kn.thin {
                    if near {
                        for (cs, mm) in [(vec![c, c], 7 - m), (vec![0, 0, c, c, len, len], m ^ 1)] {
                            cx.check_partition::<C>(&mut out, &mut st, &base, &Part::Cuts(cs), mm);
                            out.count("partitions[two-calls-with-empty-calls]", 1);
                        }
                    }
                } else if windowed.contains(&c) || len <= kn.all_modes_limit {
                    for (cs, mm) in [(vec![0, c], m), (vec![c, c], 7 - m), (vec![c, len], m ^ 1), (vec![0, 0, c, c, len, len], 7 - (m ^ 1)), (vec![0, c, c, len], m ^ 4)] {
                        cx.check_partition::<C>(&mut out, &mut st, &base, &Part::Cuts(cs), mm);
                        out.count("partitions[two-calls-with-empty-calls]", 1);
                    }
                }
            }
            // 3-partitions over boundary-adjacent cuts
            let mut adj: Vec<usize> = vec![];
            for s in &starts {
                for x in [s.saturating_sub(1), *s, s + 1, (s + skip).saturating_sub(1), s + skip, s + skip + 1] {
                    if x <= len && !adj.contains(&x) {
                        adj.push(x);
                    }
                }
                if adj.len() >= kn.three_cut_set {
                    break;
                }
            }
            adj.truncate(kn.three_cut_set);
            adj.sort();
            for i in 0..adj.len() {
                for j in i..adj.len() {
                    let m = ((i + j) % 8) as u8;
                    cx.check_partition::<C>(&mut out, &mut st, &base, &Part::Cuts(vec![adj[i], adj[j]]), m);
                    out.count("partitions[three-calls]", 1);
                    if (i + j) % 3 == 0 {
                        cx.check_partition::<C>(&mut out, &mut st, &base, &Part::Cuts(vec![0, adj[i], adj[i], adj[j], adj[j], len]), 7 - m);
                        out.count("partitions[three-calls-with-empty-calls]", 1);
                    }
                }
            }
        }
    }

    // ---- locality: oracle (v)
    let loc_bounds: Vec<usize> = {
        let b: Vec<usize> = starts.iter().copied().filter(|s| *s > 0).collect();
        if b.len() <= kn.locality_boundaries {
            b
        } else {
            out.count("info:locality_boundaries_beyond_cap_skipped", (b.len() - kn.locality_boundaries) as u64);
            let mut v: Vec<usize> = b[..kn.locality_boundaries - 16].to_vec();
            v.extend_from_slice(&b[b.len() - 16..]);
            v
        }
    };
    if want("locality") {
        for &b in &loc_bounds {
            if let Some(o) = only {
                if o["b"].as_u64() != Some(b as u64) {
                    continue;
                }
            }
            let case = cx.case("locality", json!({"b": b}));
            let bi = ends.iter().position(|e| *e == b).unwrap() + 1;
            match one_shot::<C>(target, &data[b..], &mut st) {
                Outcome::Chunks(ch) => {
                    out.count("vac:suffix_rechunk_runs", 1);
                    if !same_chunks(&ch, &base[bi..]) {
                        viol(&mut out, "C04/suffix-rechunks-differently", || {
                            (
                                format!("target {target} stream {}: a fresh chunker on the suffix from boundary {b} gives {} but the stream's remaining chunks are {}: {}", spec.to_json(), head(&ends_of(&ch)), head(&ends_of(&base[bi..])), first_diff(&ch, &base[bi..])),
                                case.clone(),
                            )
                        });
                    }
                    cx.check_output(&mut out, &ch, &data[b..], &case, "suffix run");
                },
                Outcome::Panic(t) => viol(&mut out, "C04/panic", || (format!("target {target} stream {} suffix from {b}: panic {t}", spec.to_json()), case.clone())),
                Outcome::NoProgress(_) | Outcome::FinalLeftTail(..) => unreachable!(),
            }
        }
    }
    if want("prefix") && !matches!(spec, Spec::Embed { .. }) {
        let picks: Vec<usize> = {
            let n = loc_bounds.len();
            let mut v = vec![];
            for i in [0, n / 2, n.saturating_sub(1)] {
                if i < n && !v.contains(&loc_bounds[i]) {
                    v.push(loc_bounds[i]);
                }
            }
            v
        };
        for &b in &picks {
            for (pi, (pname, pre)) in prefixes.iter().enumerate() {
                if let Some(o) = only {
                    if o["b"].as_u64() != Some(b as u64) || o["prefix"].as_u64() != Some(pi as u64) {
                        continue;
                    }
                }
                let case = cx.case("prefix", json!({"b": b, "prefix": pi, "prefix_name": pname}));
                let bi = ends.iter().position(|e| *e == b).unwrap() + 1;
                let mut joined = pre.clone();
                joined.extend_from_slice(&data[b..]);
                let pre_chunks = match one_shot::<C>(target, pre, &mut st) {
                    Outcome::Chunks(c) => c,
                    _ => continue,
                };
                match one_shot::<C>(target, &joined, &mut st) {
                    Outcome::Chunks(ch) => {
                        out.count("vac:suffix_behind_aligned_prefix_runs", 1);
                        let np = pre_chunks.len();
                        // the prefix is chunk-aligned: its own chunks come first, then the suffix's
                        let ok = ch.len() >= np && same_chunks(&ch[..np], &pre_chunks) && same_chunks(&ch[np..], &base[bi..]);
                        if !ok {
                            viol(&mut out, "C04/suffix-behind-aligned-prefix-rechunks-differently", || {
                                (
                                    format!(
                                        "target {target} stream {}: suffix from boundary {b} behind the chunk-aligned prefix '{pname}' ({} bytes, {np} chunks) gives {} but prefix chunks {} followed by the remaining chunks {} were expected",
                                        spec.to_json(),
                                        pre.len(),
                                        head(&ends_of(&ch)),
                                        head(&ends_of(&pre_chunks)),
                                        head(&ends_of(&base[bi..]))
                                    ),
                                    case.clone(),
                                )
                            });
                        }
                    },
                    Outcome::Panic(t) => viol(&mut out, "C04/panic", || (format!("target {target} stream {} suffix from {b} behind prefix {pname}: panic {t}", spec.to_json()), case.clone())),
                    Outcome::NoProgress(_) | Outcome::FinalLeftTail(..) => unreachable!(),
                }
            }
        }
    }

    // ---- embedded runs re-chunk identically from the first common boundary on
    if let (true, Spec::Embed { inner, host, which }) = (want("embed"), spec) {
        let x = build(inner, target);
        let h = Lcg::new(*host).bytes(p.max + p.max / 2);
        let off = embed_offset(&h, target, *which);
        let case = cx.case("embed", json!({}));
        if let Outcome::Chunks(alone) = one_shot::<C>(target, &x, &mut st) {
            let alone_ends = ends_of(&alone);
            // boundaries of the inner stream chunked alone, 0 included, its end-of-stream cut excluded
            let mut inner_b: Vec<usize> = vec![0];
            inner_b.extend(alone_ends.iter().copied().filter(|e| *e < x.len()));
            let mut comp_b: Vec<usize> = vec![0];
            comp_b.extend(ends.iter().copied());
            let sync = comp_b.iter().copied().find(|b| *b >= off && *b < off + x.len() && inner_b.binary_search(&(*b - off)).is_ok());
            match sync {
                None => out.count("info:embedded_run_never_resynchronised", 1),
                Some(sb) => {
                    out.count("vac:embedded_run_resynchronised", 1);
                    if sb == off {
                        out.count("vac:embedded_run_chunk_aligned", 1);
                    }
                    let ai = inner_b.binary_search(&(sb - off)).unwrap(); // chunks alone[ai..] start there
                    let ci = comp_b.iter().position(|b| *b == sb).unwrap();
                    // every complete chunk of the stand-alone chunking after the sync point (all but its last) must reappear
                    let n_cmp = alone.len() - 1 - ai.min(alone.len() - 1);
                    let got = &base[ci.min(base.len())..];
                    let ok = got.len() >= n_cmp && same_chunks(&got[..n_cmp], &alone[ai..ai + n_cmp]);
                    out.count("embedded_chunks_compared", n_cmp as u64);
                    if !ok {
                        viol(&mut out, "C04/embedded-run-rechunks-differently", || {
                            (
                                format!(
                                    "target {target} stream {}: inner stream placed at offset {off}; both chunkings have a boundary at inner offset {} but then differ: embedded {} alone {}",
                                    spec.to_json(),
                                    sb - off,
                                    head(&ends_of(&got[..n_cmp.min(got.len())])),
                                    head(&ends_of(&alone[ai..ai + n_cmp]))
                                ),
                                case.clone(),
                            )
                        });
                    }
                },
            }
        }
    }

    out.count("runs", st.runs);
    out.count("calls", st.calls);
    out.count("vac:empty_calls", st.empty_calls);
    out.count("vac:one_byte_calls", st.one_byte_calls);
    out.count("vac:next_calls", st.next_calls);
    out.count("vac:next_block_calls", st.next_block_calls);
    out.count("vac:next_returned_before_consuming_all", st.next_partial_consumption);
    out.count("vac:finish_returned_the_tail", st.finish_returned_tail);
    out.count("vac:final_flag_flushed_the_tail", st.final_flag_flushed_tail);
    out.count("info:final_flag_on_empty_next_block_left_tail_to_finish", st.final_flag_left_tail_to_finish);
    out.count("info:final_flag_on_other_call_left_tail_to_finish", st.final_flag_left_tail_other);
    out
}

// ------------------------------------------------------------------ main

fn targets(tier: Tier) -> Vec<usize> {
    if let Ok(t) = std::env::var("LAB_CHUNKER_TARGETS") {
        // development aid only (profiling one target); the check entry point never sets it
        return t.split(',').filter_map(|x| x.parse().ok()).collect();
    }
    match tier {
        Tier::Quick => vec![128, 1024, 65536],
        Tier::Thorough => (7..=16).map(|s| 1usize << s).collect(),
    }
}

fn run_all<C: Subject>(tier: Tier, tlist: &[usize], threads: usize) -> (Partial, Vec<(usize, u64, u64)>) {
    let mut items: Vec<(usize, Spec)> = vec![];
    for &t in tlist {
        for s in catalog(t, tier) {
            items.push((t, s));
        }
    }
    // heavy first
    let mut order: Vec<usize> = (0..items.len()).collect();
    order.sort_by_key(|i| std::cmp::Reverse((items[*i].0, !matches!(items[*i].1, Spec::Embed { .. }))));
    let prefixes: Vec<(usize, Vec<(String, Vec<u8>)>)> = tlist.iter().map(|t| (*t, aligned_prefixes(*t))).collect();
    let next = AtomicUsize::new(0);
    let results: Mutex<Vec<Option<Partial>>> = Mutex::new((0..items.len()).map(|_| None).collect());
    let covs: Mutex<Vec<(usize, Vec<u8>)>> = Mutex::new(tlist.iter().map(|t| (*t, vec![0u8; 2 * t])).collect());
    std::thread::scope(|sc| {
        for _ in 0..threads {
            sc.spawn(|| loop {
                let n = next.fetch_add(1, Ordering::SeqCst);
                if n >= order.len() {
                    break;
                }
                let i = order[n];
                let (t, spec) = &items[i];
                let mut cov = vec![0u8; 2 * t];
                let pre = &prefixes.iter().find(|x| x.0 == *t).unwrap().1;
                let t0 = std::time::Instant::now();
                let part = check_stream::<C>(*t, spec, tier, &mut cov, pre, None);
                if std::env::var_os("LAB_CHUNKER_PROFILE").is_some() {
                    // development aid only: never part of a verdict or of the evidence
                    eprintln!("PROFILE {:.3}s target={} runs={} chunks={} {}", t0.elapsed().as_secs_f64(), t, part.get("runs"), part.get("chunks_in_one_call_runs"), spec.to_json());
                }
                results.lock().unwrap()[i] = Some(part);
                let mut g = covs.lock().unwrap();
                let gc = &mut g.iter_mut().find(|x| x.0 == *t).unwrap().1;
                for (a, b) in gc.iter_mut().zip(cov.iter()) {
                    *a |= *b;
                }
            });
        }
    });
    let mut all = Partial::default();
    for p in results.into_inner().unwrap().into_iter().flatten() {
        all.merge(p);
    }
    let cov = covs.into_inner().unwrap().into_iter().map(|(t, v)| (t, v.iter().map(|x| *x as u64).sum::<u64>(), v.len() as u64)).collect();
    (all, cov)
}

fn selftest(tier: Tier) -> ! {
    fn one<const M: u8>(tier: Tier, what: &str) -> bool {
        let (all, _) = run_all::<Mutant<M>>(tier, &[128, 1024], 16);
        let sigs: BTreeSet<String> = all.violations.iter().map(|v| v.signature.clone()).collect();
        println!("SELFTEST mutant {M} ({what}): {}", if sigs.is_empty() { "SURVIVED".to_string() } else { format!("killed by {sigs:?}") });
        !sigs.is_empty()
    }
    let mut ok = true;
    ok &= one::<1>(tier, MUTANTS[0].1);
    ok &= one::<2>(tier, MUTANTS[1].1);
    ok &= one::<3>(tier, MUTANTS[2].1);
    ok &= one::<4>(tier, MUTANTS[3].1);
    ok &= one::<5>(tier, MUTANTS[4].1);
    ok &= one::<6>(tier, MUTANTS[5].1);
    // the unmutated copy must survive (the copy itself is faithful)
    let (all, _) = run_all::<Mutant<0>>(tier, &[128, 1024], 16);
    println!("SELFTEST unmutated copy: {} violations", all.violations.len());
    ok &= all.violations.is_empty();
    std::process::exit(if ok { 0 } else { 2 })
}

fn main() {
    let args = Args::parse();
    vcore::util::quiet_panics();
    if args.rest.iter().any(|a| a == "--selftest") {
        selftest(args.tier);
    }
    if args.prop != "C04" {
        machinery_error("lab_chunker serves C04");
    }
    for (k, _) in std::env::vars() {
        if k.starts_with("HF_XET_") {
            machinery_error(&format!("{k} is set: this lab checks the default minimum divisor / maximum multiplier"));
        }
    }
    let mut run = Run::new(&args, "C04", "exploration");
    let tier = args.tier;
    let (mut all, cov) = if let Some(rp) = &args.replay {
        let v: Value = serde_json::from_slice(&std::fs::read(rp).unwrap_or_else(|e| machinery_error(&format!("read replay: {e}")))).unwrap_or_else(|e| machinery_error(&format!("parse replay: {e}")));
        let r = &v["replay"];
        let target = r["target"].as_u64().unwrap_or_else(|| machinery_error("replay lacks target")) as usize;
        let spec = Spec::from_json(&r["stream"]);
        let mut cov = vec![0u8; 2 * target];
        let pre = aligned_prefixes(target);
        let mut p = check_stream::<deduplication::Chunker>(target, &spec, tier, &mut cov, &pre, Some(r));
        // the replayed stream counts as a case even when it is a single-chunk stream
        p.counters.retain(|k, v| !(k.starts_with("vac:") && *v == 0));
        p.distinct("replayed-case");
        p.distinct("replayed-case-stream");
        (p, vec![])
    } else {
        run_all::<deduplication::Chunker>(tier, &targets(tier), 16)
    };
    let mut cov_json = serde_json::Map::new();
    for (t, c, n) in &cov {
        cov_json.insert(format!("{t}"), json!({"chunk_relative_offsets_cut_by_a_two_call_partition": c, "of": n}));
        all.count(&format!("cov:chunk_relative_offsets_cut_by_a_two_call_partition[target={t}]"), *c);
    }
    run.set("call_boundary_coverage", Value::Object(cov_json));
    run.set("targets", json!(targets(tier)));
    run.set("streams_per_target", json!(targets(tier).iter().map(|t| catalog(*t, tier).len()).collect::<Vec<_>>()));
    run.assume("the gear table is the published gearhash DEFAULT_TABLE (the reference uses the table, not the crate's matcher); keyed BLAKE3 comes from the blake3 crate");
    run.assume("minimum divisor 8 and maximum multiplier 2 (the defaults); HF_XET_* overrides are refused");
    run.assume("streams are 5 maximum chunks + 37 bytes long (embedded ones 6.5); longer streams add no new chunker state because the state is reset at every boundary");
    run.assume("a stream ends with finish(), or with a last call carrying is_final=true, after which finish() must have nothing left to return");
    let evaluations = all.get("runs");
    run.all = all;
    run.finish(
        evaluations,
        "every (target, stream) of the catalogue (thorough: 256 constants, all primitive periodic words of period <=6 over 2 byte values on two alphabets and of period <=4 over 3 values, 8 ramps, 6 designed low-entropy streams whose chunks are a never-matching filler plus a searched suffix so that cuts fall on the first hashed byte, inside the first hash window, at min-1..min+1, target, max-2, max-1, max (match exactly at max) and max+1 (forced cut wins), 64 LCG streams, 8 low-entropy LCG streams, and each of them embedded at 3 offsets (chunk-aligned, +1, +67) in an LCG host stream; quick: a fixed sub-catalogue of 29 streams + 21 embeddings; targets: every power of two 128..65536, quick {128,1024,65536}; stream length 5 max chunks + 37 bytes, embedded 6.5) is chunked in one call and compared with the reference rule (boundaries, hashes, bounds, concatenation). Then it is re-chunked under (a) fixed steps 1..65, min-1..min+1, skip, skip+1, max-1..max+1 (only 1,2,7,64,65,max-1..max+1 for thorough-tier embeddings and streams of > 256 chunks); (b) EVERY 2-partition (cut positions 0..=len) when the stream is at most 12000 bytes (targets <= 1024; thorough-tier embeddings: 3000 bytes) and bytes x chunks <= 1e6, otherwise the cut positions within +-W (W = 4 up to 50000 bytes, 2 above; thorough-tier embeddings 2 / 1) of every chunk start, start+skip (skip-ahead edge), start+min and start+max (streams of > 64 chunks: of the first 10 and last 2 chunks only), of both seams of an embedding, plus a stride of 16..512 positions (divided by chunks/64 for many-chunk streams); (c) those windowed cuts (all cuts for streams <= 1500/3000 bytes) with empty calls in every slot: before, between, after, all at once (streams > 50000 bytes in the thorough tier: two variants near the first three and the last chunk); (d) all 3-partitions over the first 6..48 boundary-adjacent / skip-edge-adjacent cuts, a third of them with empty calls in every slot; each under API mixes (next_block only / next loops only / alternating either way, ended by finish() or by is_final=true on the last call, after which finish() must return nothing): all 8 for streams <= 1500 (quick) / 3000 (thorough) bytes and for cuts near the first three and the last chunk, otherwise 2 complementary ones rotating with the position (1..4 for streams > 50000 bytes in the thorough tier). (e) every produced boundary (first 24..256 per stream) is re-chunked as a fresh suffix, and three of them behind 4 chunk-aligned prefixes; (f) an embedded stream must re-chunk like the stand-alone stream from the first common boundary on. An evaluation is one complete run of the real chunker over a stream; a case is distinct and non-trivial when its (target, stream bytes) pair is new and the stream has at least 2 chunks",
        true,
    );
}

//! Independent reference implementations written from the published constructions:
//! gear-hash content-defined chunking, keyed-BLAKE3 leaf/interior hashes, the level-wise merkle
//! aggregation with hash-defined fan-out, salted file hash, range verification hash, and a
//! decoder for the xorb chunk-frame stream.  Nothing here calls into merkledb / deduplication.

pub type RH = [u8; 32];

pub const DATA_KEY: [u8; 32] = [
    102, 151, 245, 119, 91, 149, 80, 222, 49, 53, 203, 172, 165, 151, 24, 28, 157, 228, 33, 16, 155, 235, 43, 88, 180,
    208, 176, 75, 147, 173, 242, 41,
];
pub const INTERNAL_NODE_KEY: [u8; 32] = [
    1, 126, 197, 199, 165, 71, 41, 150, 253, 148, 102, 102, 180, 138, 2, 230, 93, 221, 83, 111, 55, 199, 109, 210, 248,
    99, 82, 230, 74, 83, 113, 63,
];
pub const VERIFICATION_KEY: [u8; 32] = [
    127, 24, 87, 214, 206, 86, 237, 102, 18, 127, 249, 19, 231, 165, 195, 243, 164, 205, 38, 213, 181, 219, 73, 230,
    65, 36, 152, 127, 40, 251, 148, 195,
];

pub const ZERO: RH = [0u8; 32];

pub fn chunk_hash(data: &[u8]) -> RH {
    *blake3::keyed_hash(&DATA_KEY, data).as_bytes()
}

/// Text form: four little-endian 64-bit words, each printed as 16 hex digits.
pub fn hex(h: &RH) -> String {
    let mut s = String::with_capacity(64);
    for w in 0..4 {
        let v = u64::from_le_bytes(h[w * 8..w * 8 + 8].try_into().unwrap());
        s.push_str(&format!("{v:016x}"));
    }
    s
}

pub fn from_hex(s: &str) -> Option<RH> {
    if s.len() != 64 || !s.bytes().all(|c| c.is_ascii_hexdigit()) {
        return None;
    }
    let mut h = [0u8; 32];
    for w in 0..4 {
        let v = u64::from_str_radix(&s[w * 16..w * 16 + 16], 16).ok()?;
        h[w * 8..w * 8 + 8].copy_from_slice(&v.to_le_bytes());
    }
    Some(h)
}

fn last_word(h: &RH) -> u64 {
    u64::from_le_bytes(h[24..32].try_into().unwrap())
}

/// Level-wise aggregation: a parent is cut after a child whose last 64-bit word is ≡ 0 mod 4
/// once the group already holds ≥ 2 earlier children (i.e. ≥ 3 with this one), or when the group
/// holds 2*4 earlier children, or at the end of the level.  A parent's hash is the keyed hash of
/// the lines "<hex> : <len>\n" of its children; its length is their sum.
pub fn merkle_root(list: &[(RH, u64)]) -> RH {
    if list.is_empty() {
        return ZERO;
    }
    let mut level: Vec<(RH, u64)> = list.to_vec();
    while level.len() > 1 {
        let mut next = Vec::new();
        let mut start = 0usize;
        let n = level.len();
        for idx in 0..n {
            let so_far = idx - start;
            if (so_far >= 2 && last_word(&level[idx].0) % 4 == 0) || so_far >= 8 || idx + 1 == n {
                let mut text = String::new();
                let mut total = 0u64;
                for (h, l) in &level[start..=idx] {
                    text.push_str(&hex(h));
                    text.push_str(" : ");
                    text.push_str(&l.to_string());
                    text.push('\n');
                    total += *l;
                }
                next.push((*blake3::keyed_hash(&INTERNAL_NODE_KEY, text.as_bytes()).as_bytes(), total));
                start = idx + 1;
            }
        }
        level = next;
    }
    level[0].0
}

pub fn xorb_hash(list: &[(RH, u64)]) -> RH {
    merkle_root(list)
}

pub fn file_hash(list: &[(RH, u64)], salt: &[u8; 32]) -> RH {
    if list.is_empty() {
        return ZERO;
    }
    let root = merkle_root(list);
    *blake3::keyed_hash(salt, &root).as_bytes()
}

pub fn range_hash(hashes: &[RH]) -> RH {
    let mut buf = Vec::with_capacity(hashes.len() * 32);
    for h in hashes {
        buf.extend_from_slice(h);
    }
    *blake3::keyed_hash(&VERIFICATION_KEY, &buf).as_bytes()
}

pub fn hmac(h: &RH, key: &RH) -> RH {
    *blake3::keyed_hash(key, h).as_bytes()
}

// ------------------------------------------------------------------ chunker

pub struct ChunkParams {
    pub target: usize,
    pub min: usize,
    pub max: usize,
    pub mask: u64,
}
pub fn chunk_params(target: usize) -> ChunkParams {
    let m = (target - 1) as u64;
    ChunkParams {
        target,
        min: target / 8,
        max: target * 2,
        mask: m << m.leading_zeros(),
    }
}

/// Chunk boundaries (end offsets) of `data` under the reference gear rule: from each boundary,
/// skip `min-64-1` bytes without hashing when `min > 64`, then roll `h = (h<<1) + T[b]` from 0 and
/// cut after the first byte with `h & mask == 0`; forced cut at `max`; the remainder is the
/// final chunk.
pub fn chunk_ends(data: &[u8], target: usize) -> Vec<usize> {
    let p = chunk_params(target);
    let t = &gearhash::DEFAULT_TABLE;
    let mut ends = Vec::new();
    let mut start = 0usize;
    while start < data.len() {
        let skip = if p.min > 64 { p.min - 64 - 1 } else { 0 };
        let mut i = start + skip;
        let mut h: u64 = 0;
        let mut end = None;
        let limit = (start + p.max).min(data.len());
        while i < limit {
            h = (h << 1).wrapping_add(t[data[i] as usize]);
            i += 1;
            if h & p.mask == 0 {
                end = Some(i);
                break;
            }
        }
        let e = match end {
            Some(e) => e,
            None => limit, // forced cut at max, or end of stream
        };
        ends.push(e);
        start = e;
    }
    ends
}

pub fn chunk_list(data: &[u8], target: usize) -> Vec<(RH, u64)> {
    let mut out = Vec::new();
    let mut s = 0;
    for e in chunk_ends(data, target) {
        out.push((chunk_hash(&data[s..e]), (e - s) as u64));
        s = e;
    }
    out
}

// ------------------------------------------------------------------ xorb frame stream

#[derive(Debug, Clone)]
pub struct RefFrame {
    pub scheme: u8,
    pub compressed_len: usize,
    pub uncompressed_len: usize,
    pub data: Vec<u8>,
}

fn bg4_regroup(g: &[u8]) -> Vec<u8> {
    // inverse of: split into 4 groups holding bytes i%4==0,1,2,3 (group k has ceil((n-k)/4) bytes)
    let n = g.len();
    let mut out = vec![0u8; n];
    let mut off = 0usize;
    for k in 0..4 {
        let cnt = if n > k { (n - k + 3) / 4 } else { 0 };
        for j in 0..cnt {
            out[j * 4 + k] = g[off + j];
        }
        off += cnt;
    }
    out
}

/// Decodes a concatenation of chunk frames: header = version(1) compressed_len(3 LE) scheme(1)
/// uncompressed_len(3 LE); scheme 0 = stored, 1 = LZ4 frame, 2 = byte-grouping-4 then LZ4 frame.
pub fn decode_frames(buf: &[u8]) -> Result<Vec<RefFrame>, String> {
    let mut out = Vec::new();
    let mut p = 0usize;
    while p < buf.len() {
        if buf.len() - p < 8 {
            return Err(format!("truncated frame header at {p}"));
        }
        let ver = buf[p];
        let cl = u32::from_le_bytes([buf[p + 1], buf[p + 2], buf[p + 3], 0]) as usize;
        let scheme = buf[p + 4];
        let ul = u32::from_le_bytes([buf[p + 5], buf[p + 6], buf[p + 7], 0]) as usize;
        if ver != 0 {
            return Err(format!("frame version {ver} at {p}"));
        }
        p += 8;
        if buf.len() - p < cl {
            return Err(format!("truncated frame payload at {p}: need {cl}"));
        }
        let payload = &buf[p..p + cl];
        p += cl;
        let data = match scheme {
            0 => payload.to_vec(),
            1 | 2 => {
                use std::io::Read;
                let mut d = Vec::new();
                lz4_flex::frame::FrameDecoder::new(payload)
                    .read_to_end(&mut d)
                    .map_err(|e| format!("lz4: {e}"))?;
                if scheme == 2 {
                    bg4_regroup(&d)
                } else {
                    d
                }
            },
            s => return Err(format!("unknown scheme {s}")),
        };
        if data.len() != ul {
            return Err(format!("frame length mismatch: header {ul}, decoded {}", data.len()));
        }
        out.push(RefFrame {
            scheme,
            compressed_len: cl,
            uncompressed_len: ul,
            data,
        });
    }
    Ok(out)
}

/// Splits a serialized xorb into (frame region, footer bytes) using the trailing u32 info length.
pub fn split_xorb(buf: &[u8]) -> Result<(&[u8], &[u8]), String> {
    if buf.len() < 4 {
        return Err("shorter than the info-length trailer".into());
    }
    let il = u32::from_le_bytes(buf[buf.len() - 4..].try_into().unwrap()) as usize;
    if il + 4 > buf.len() {
        return Err(format!("info length {il} exceeds object size {}", buf.len()));
    }
    let cut = buf.len() - 4 - il;
    Ok((&buf[..cut], &buf[cut..]))
}

pub fn to_mh(h: &RH) -> merklehash::MerkleHash {
    merklehash::MerkleHash::from(h)
}
pub fn from_mh(h: &merklehash::MerkleHash) -> RH {
    let mut r = [0u8; 32];
    r.copy_from_slice(h.as_bytes());
    r
}
